#!/usr/bin/env python3
"""Apply every seeded mutation (seeded/<id>/patch.diff) to /repo in turn, run the quick check of its property, record
the outcome in seeded/<id>/meta.json, and restore /repo.  Usage: tools/run_seeded.py [id ...] [--tier quick|thorough]"""
import json, os, re, subprocess, sys, time
VERIF = os.path.dirname(os.path.dirname(os.path.abspath(__file__)))
REPO = os.environ.get("VERIF_REPO", "/repo")


def sh(cmd, **kw):
    return subprocess.run(cmd, shell=True, capture_output=True, text=True, **kw)


def main():
    args = [a for a in sys.argv[1:] if not a.startswith("--")]
    tier = "thorough" if "--tier=thorough" in sys.argv else "quick"
    ids = args or sorted(os.listdir(os.path.join(VERIF, "seeded")))
    if sh(f"git -C {REPO} status --porcelain").stdout.strip():
        print("refusing: /repo has uncommitted changes"); sys.exit(2)
    summary = []
    for sid in ids:
        d = os.path.join(VERIF, "seeded", sid)
        meta = json.load(open(os.path.join(d, "meta.json")))
        prop = meta["property"]
        t0 = time.time()
        try:
            a = sh(f"git -C {REPO} apply {d}/patch.diff")
            if a.returncode != 0:
                res = dict(result="patch-does-not-apply", detail=a.stderr[-300:])
            else:
                try:
                    c = sh(f"./check {prop} --tier {tier}", cwd=VERIF, timeout=2700)
                except subprocess.TimeoutExpired:
                    sh(f"pkill -9 -f 'check {prop} --tier'")
                    c = subprocess.CompletedProcess("", 2, stdout="TIMEOUT", stderr="")
                m = re.search(r"^VIOLATION property=(\S+) replay=(\S+)( no-failing-input-found)?", c.stdout, flags=re.M)
                if m:
                    kind = "unknown"
                    try:
                        rep = json.load(open(os.path.join(VERIF, m.group(2))))
                        kind = rep.get("kind")
                        obs = str(rep.get("observed") or rep.get("lean_error") or rep.get("implementation"))[:300]
                    except Exception:
                        obs = ""
                    res = dict(result="caught", check=f"./check {prop} --tier {tier}", exit_status=c.returncode, kind=kind,
                               with_failing_input=not m.group(3), observed=obs)
                else:
                    res = dict(result="MISSED", check=f"./check {prop} --tier {tier}", exit_status=c.returncode, tail=c.stdout[-400:])
        finally:
            sh(f"git -C {REPO} checkout -- . && git -C {REPO} clean -fdq")
        res["wall_s"] = round(time.time() - t0, 1)
        meta["caught_by"] = res
        json.dump(meta, open(os.path.join(d, "meta.json"), "w"), indent=1)
        summary.append((sid, res["result"], res.get("kind"), res.get("with_failing_input"), res["wall_s"]))
        print(sid, res["result"], res.get("kind"), "failing-input" if res.get("with_failing_input") else "", res["wall_s"], flush=True)
    # restore the generated tables / build for the unchanged tree
    sh("/venv/bin/python tools/gen_tables.py && /venv/bin/python tools/translate.py && cd lean && lake build QR qrdrv", cwd=VERIF)
    missed = [s for s in summary if s[1] != "caught"]
    print(f"{len(summary) - len(missed)}/{len(summary)} caught; missed: {[s[0] for s in missed]}")


if __name__ == "__main__":
    main()
