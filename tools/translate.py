#!/usr/bin/env python3
"""T2 - code translator.

Translates selected *expressions and small functions* of /repo's current source (their Python AST) into Lean
definitions in lean/QR/Gen/Code.lean, on every check run.  The hand-written Model is then PROVED equal to these
definitions (theorems `Cxx_source_*` in lean/QR/Props), so that an edit of one of these expressions in the source breaks a
proof obligation deterministically - not only the sampled correspondence.

Supported expression language: integer constants, names bound by the fragment's parameter map, + - * // % << >> | & ^,
comparisons (also chained), and / or / not, `x in {a, b}`, conditional expressions, `math.floor(a / k)` and `int(a)`;
statement level: `if c: return e` chains, `if c: raise`, `return e`.  Anything else makes the fragment *untranslatable*:
its definition is omitted (a comment says why), the theorem about it no longer compiles, and the check reports that.

Also emits structural facts as literals: the sequence of method calls in `QRCode.makeImpl` / `make` and loop ranges.
"""
import argparse, ast, json, os, re, sys


class Untranslatable(Exception):
    pass


BINOPS = {ast.Add: "+", ast.Sub: "-", ast.Mult: "*", ast.FloorDiv: "/", ast.Mod: "%", ast.LShift: "<<<", ast.RShift: ">>>",
          ast.BitOr: "|||", ast.BitAnd: "&&&", ast.BitXor: "^^^"}
CMPOPS = {ast.Eq: "=", ast.NotEq: "≠", ast.Lt: "<", ast.LtE: "≤", ast.Gt: ">", ast.GtE: "≥"}


class Tr:
    """expression translator; `env` maps Python names (or dotted attribute paths) to Lean terms; ty is Nat or Int"""

    def __init__(self, env, ty="Int", subscripts=None):
        self.env, self.ty, self.subscripts = env, ty, subscripts or {}

    def name_of(self, node):
        if isinstance(node, ast.Name):
            return node.id
        if isinstance(node, ast.Attribute):
            return self.name_of(node.value) + "." + node.attr
        raise Untranslatable("unsupported name " + ast.dump(node)[:60])

    def num(self, node):
        """integer-valued expression"""
        if isinstance(node, ast.Constant) and isinstance(node.value, bool):
            raise Untranslatable("bool used as number")
        if isinstance(node, ast.Constant) and isinstance(node.value, int):
            return str(node.value) if node.value >= 0 else f"({node.value})"
        if isinstance(node, ast.UnaryOp) and isinstance(node.op, ast.USub):
            if self.ty == "Nat":
                raise Untranslatable("negation in a Nat fragment")
            return f"(-{self.num(node.operand)})"
        if isinstance(node, (ast.Name, ast.Attribute)):
            n = self.name_of(node)
            if n in self.env:
                return self.env[n]
            raise Untranslatable("free name " + n)
        if isinstance(node, ast.Subscript):
            key = ast.unparse(node)
            if key in self.subscripts:
                return self.subscripts[key]
            raise Untranslatable("subscript " + key)
        if isinstance(node, ast.BinOp):
            if isinstance(node.op, ast.Div):
                raise Untranslatable("true division outside math.floor")
            if type(node.op) not in BINOPS:
                raise Untranslatable("operator " + type(node.op).__name__)
            if self.ty == "Int" and isinstance(node.op, (ast.LShift, ast.RShift, ast.BitOr, ast.BitAnd, ast.BitXor)):
                raise Untranslatable("bit operator in an Int fragment")
            return f"({self.num(node.left)} {BINOPS[type(node.op)]} {self.num(node.right)})"
        if isinstance(node, ast.Call):
            f = self.name_of(node.func) if isinstance(node.func, (ast.Name, ast.Attribute)) else None
            if f == "math.floor" and len(node.args) == 1 and isinstance(node.args[0], ast.BinOp) and isinstance(node.args[0].op, ast.Div):
                a = node.args[0]
                if not (isinstance(a.right, ast.Constant) and isinstance(a.right.value, int) and a.right.value > 0):
                    raise Untranslatable("math.floor of a non-constant division")
                return f"({self.num(a.left)} / {a.right.value})"       # floor division (Nat `/`, Int `/` = floor for positive divisors)
            if f == "int" and len(node.args) == 1:
                return self.num(node.args[0])
            if f in ("min", "max") and len(node.args) == 2:
                return f"({f} {self.num(node.args[0])} {self.num(node.args[1])})"
            if f == "len" and len(node.args) == 1:
                key = ast.unparse(node)
                if key in self.subscripts:
                    return self.subscripts[key]
            raise Untranslatable("call " + ast.unparse(node)[:40])
        if isinstance(node, ast.IfExp):
            return f"(if {self.boolean(node.test)} then {self.num(node.body)} else {self.num(node.orelse)})"
        raise Untranslatable("expression " + ast.unparse(node)[:60])

    def boolean(self, node):
        """Bool-valued expression (Lean Bool)"""
        if isinstance(node, ast.BoolOp):
            op = " && " if isinstance(node.op, ast.And) else " || "
            return "(" + op.join(self.boolean(v) for v in node.values) + ")"
        if isinstance(node, ast.UnaryOp) and isinstance(node.op, ast.Not):
            return f"(!{self.boolean(node.operand)})"
        if isinstance(node, ast.Compare):
            parts = []
            left = node.left
            for op, right in zip(node.ops, node.comparators):
                if isinstance(op, (ast.In, ast.NotIn)):
                    if not isinstance(right, (ast.Set, ast.Tuple, ast.List)):
                        raise Untranslatable("`in` over a non-literal")
                    alts = " || ".join(f"decide ({self.num(left)} = {self.num(e)})" for e in right.elts)
                    parts.append(f"({alts})" if isinstance(op, ast.In) else f"(!({alts}))")
                elif isinstance(op, (ast.Is, ast.IsNot)):
                    raise Untranslatable("identity comparison")
                else:
                    # a comparison of two Boolean subterms (rule 2: `top_right != next_row[col + 1]`)
                    try:
                        parts.append(f"decide ({self.num(left)} {CMPOPS[type(op)]} {self.num(right)})")
                    except Untranslatable:
                        if isinstance(op, (ast.Eq, ast.NotEq)):
                            l, r = self.boolean(left), self.boolean(right)
                            parts.append(f"({l} == {r})" if isinstance(op, ast.Eq) else f"({l} != {r})")
                        else:
                            raise
                left = right
            return parts[0] if len(parts) == 1 else "(" + " && ".join(parts) + ")"
        if isinstance(node, ast.Constant) and isinstance(node.value, bool):
            return "true" if node.value else "false"
        if isinstance(node, (ast.Name, ast.Attribute, ast.Subscript)):
            key = ast.unparse(node)
            if key in self.subscripts:
                return self.subscripts[key]
            n = self.name_of(node) if not isinstance(node, ast.Subscript) else None
            if n in self.env:
                return self.env[n]
            raise Untranslatable("truth value of " + key)
        raise Untranslatable("condition " + ast.unparse(node)[:60])


_TRACE = {"cur": None, "src": {}}      # which qualified names each fragment looked up (tools/tie_inventory.py)


def find_func(tree, qual):
    _TRACE["src"].setdefault(_TRACE["cur"], set()).add(qual)
    parts = qual.split(".")
    body = tree.body
    node = None
    for p in parts:
        node = next((n for n in body if isinstance(n, (ast.FunctionDef, ast.ClassDef)) and n.name == p), None)
        if node is None:
            raise Untranslatable("no definition " + qual)
        body = node.body
    return node


def strip_doc(body):
    if body and isinstance(body[0], ast.Expr) and isinstance(getattr(body[0], "value", None), ast.Constant) and isinstance(body[0].value.value, str):
        return body[1:]
    return body


def returns_chain(body, tr, result):
    """`if c: return e` ... `return e` / `raise` -> nested if-then-else; `result(node)` translates a returned expression"""
    body = strip_doc(body)
    if not body:
        raise Untranslatable("falls off the end")
    s = body[0]
    if isinstance(s, ast.Return):
        return result(s.value)
    if isinstance(s, ast.Raise):
        return None
    if isinstance(s, ast.If):
        then = returns_chain(s.body, tr, result)
        rest = returns_chain(s.orelse if s.orelse else body[1:], tr, result)
        if then is None or rest is None:
            raise Untranslatable("raise inside a value chain")
        return f"(if {tr.boolean(s.test)} then {then} else {rest})"
    raise Untranslatable("statement " + type(s).__name__)


def raise_condition(fn, tr):
    """function of the form `if COND: raise ...` (possibly after a docstring): the condition under which it raises"""
    body = strip_doc(fn.body)
    conds = []
    for s in body:
        if isinstance(s, ast.If) and len(s.body) == 1 and isinstance(s.body[0], ast.Raise) and not s.orelse:
            conds.append(tr.boolean(s.test))
        elif isinstance(s, ast.If) and len(s.body) == 1 and isinstance(s.body[0], ast.Return) and s.body[0].value is None:
            raise Untranslatable("early return")          # handled by the caller where needed
        else:
            raise Untranslatable("statement " + type(s).__name__)
    if not conds:
        raise Untranslatable("no raise")
    return "(" + " || ".join(conds) + ")"


def gen(repo):
    out = ["/- GENERATED by tools/translate.py from the Python AST of /repo's working tree on every check run. Do not edit. -/",
           "set_option linter.unusedVariables false", "namespace QR.Gen.Code\n"]
    status = {}

    def emit(name, fn):
        _TRACE["cur"] = name
        try:
            out.append(fn())
            _TRACE.setdefault("defs", {})[name] = re.findall(r"^(?:private )?(?:def|abbrev|inductive|structure|instance|theorem) ([A-Za-z_][A-Za-z0-9_.']*)", out[-1], flags=re.M)
            status[name] = "ok"
        except Untranslatable as e:
            out.append(f"-- {name}: UNTRANSLATABLE ({e})")
            status[name] = "untranslatable: " + str(e)
        except Exception as e:  # noqa
            out.append(f"-- {name}: UNTRANSLATABLE (translator error {type(e).__name__}: {e})")
            status[name] = f"untranslatable: {type(e).__name__}: {e}"

    def parse(rel):
        return ast.parse(open(os.path.join(repo, rel)).read())

    try:
        util = parse("qrcode/util.py")
        main = parse("qrcode/main.py")
        ibase = parse("qrcode/image/base.py")
    except Exception as e:  # noqa
        out.append(f"-- source does not parse: {e}")
        out.append("\nend QR.Gen.Code")
        return "\n".join(out) + "\n", {"parse": str(e)}

    # ---- util.mask_func: eight lambdas
    def mask(k):
        def f():
            fn = find_func(util, "mask_func")
            for s in strip_doc(fn.body):
                if isinstance(s, ast.If) and isinstance(s.test, ast.Compare) and isinstance(s.test.left, ast.Name) and s.test.left.id == "pattern" \
                        and isinstance(s.test.ops[0], ast.Eq) and isinstance(s.test.comparators[0], ast.Constant) and s.test.comparators[0].value == k:
                    r = s.body[0]
                    if not (isinstance(r, ast.Return) and isinstance(r.value, ast.Lambda)):
                        raise Untranslatable("branch does not return a lambda")
                    lam = r.value
                    args = [a.arg for a in lam.args.args]
                    if len(args) != 2:
                        raise Untranslatable("lambda arity")
                    tr = Tr({args[0]: "i", args[1]: "j"}, "Nat")
                    return f"def mask_func_{k} (i j : Nat) : Bool := {tr.boolean(lam.body)}"
            raise Untranslatable(f"no branch `if pattern == {k}`")
        return f
    for k in range(8):
        emit(f"mask_func_{k}", mask(k))

    # ---- util.mode_sizes_for_version
    def msv():
        fn = find_func(util, "mode_sizes_for_version")
        arg = fn.args.args[0].arg
        tr = Tr({arg: "version"}, "Nat")
        names = {"MODE_SIZE_SMALL": "0", "MODE_SIZE_MEDIUM": "1", "MODE_SIZE_LARGE": "2"}

        def result(node):
            if isinstance(node, ast.Name) and node.id in names:
                return names[node.id]
            raise Untranslatable("returns " + ast.unparse(node)[:30])
        return f"def mode_size_class (version : Nat) : Nat := {returns_chain(fn.body, tr, result)}"
    emit("mode_size_class", msv)

    # ---- validators
    def validator(tree, qual, lean_name, param_lean):
        def f():
            fn = find_func(tree, qual)
            arg = fn.args.args[0].arg
            tr = Tr({arg: param_lean}, "Int")
            return f"def {lean_name} ({param_lean} : Int) : Bool := {raise_condition(fn, tr)}"
        return f
    emit("check_version_bad", validator(util, "check_version", "check_version_bad", "version"))
    emit("check_box_size_bad", validator(main, "_check_box_size", "check_box_size_bad", "size"))
    emit("check_border_bad", validator(main, "_check_border", "check_border_bad", "size"))

    def maskpat():
        fn = find_func(main, "_check_mask_pattern")
        arg = fn.args.args[0].arg
        body = strip_doc(fn.body)
        # expected shape: `if mask_pattern is None: return` / `if not isinstance(..., int): raise TypeError` / `if RANGE: raise ValueError`
        last = body[-1]
        if not (isinstance(last, ast.If) and isinstance(last.body[0], ast.Raise)):
            raise Untranslatable("last statement is not `if ...: raise`")
        tr = Tr({arg: "pattern"}, "Int")
        return f"def check_mask_pattern_bad (pattern : Int) : Bool := {tr.boolean(last.test)}"
    emit("check_mask_pattern_bad", maskpat)

    # ---- image.base: pixel_box, is_eye
    def pixel_box():
        fn = find_func(ibase, "BaseImage.pixel_box")
        env = {"row": "row", "col": "col", "self.border": "border", "self.box_size": "boxSize"}
        tr = Tr(env, "Nat")
        body = strip_doc(fn.body)
        for s in body[:-1]:
            if not (isinstance(s, ast.Assign) and isinstance(s.targets[0], ast.Name)):
                raise Untranslatable("statement " + type(s).__name__)
            env[s.targets[0].id] = tr.num(s.value)
        r = body[-1]
        if not (isinstance(r, ast.Return) and isinstance(r.value, ast.Tuple) and len(r.value.elts) == 2):
            raise Untranslatable("return shape")
        (a, b) = r.value.elts
        return ("def pixel_box (border boxSize row col : Nat) : (Nat × Nat) × (Nat × Nat) := "
                f"(({tr.num(a.elts[0])}, {tr.num(a.elts[1])}), ({tr.num(b.elts[0])}, {tr.num(b.elts[1])}))")
    emit("pixel_box", pixel_box)

    def is_eye():
        fn = find_func(ibase, "BaseImage.is_eye")
        tr = Tr({"row": "row", "col": "col", "self.width": "width"}, "Nat")
        r = strip_doc(fn.body)[-1]
        if not isinstance(r, ast.Return):
            raise Untranslatable("no return")
        return f"def is_eye (width row col : Nat) : Bool := {tr.boolean(r.value)}"
    emit("is_eye", is_eye)

    # ---- penalty rule 3: the window test of the row scanner and of the column scanner
    def l3(which):
        def f():
            fn = find_func(util, "_lost_point_level3")
            loops = [s for s in strip_doc(fn.body) if isinstance(s, ast.For)]
            if len(loops) != 2:
                raise Untranslatable("expected two outer loops")
            outer = loops[0 if which == "row" else 1]
            inner = next((s for s in outer.body if isinstance(s, ast.For)), None)
            if inner is None:
                raise Untranslatable("no inner loop")
            tests = [s for s in inner.body if isinstance(s, ast.If)]
            if len(tests) != 2:
                raise Untranslatable("expected the window test and the skip test")
            subs = {}
            for k in range(11):
                if which == "row":
                    subs[f"this_row[col + {k}]"] = f"a{k}"
                else:
                    subs[f"modules[row + {k}][col]"] = f"a{k}"
            tr = Tr({}, "Nat", subs)
            cond = tr.boolean(tests[0].test)
            skip = tr.boolean(tests[1].test)
            add = tests[0].body[0]
            if not (isinstance(add, ast.AugAssign) and isinstance(add.op, ast.Add) and isinstance(add.value, ast.Constant)):
                raise Untranslatable("window body is not `lost_point += const`")
            args = " ".join(f"a{k}" for k in range(11))
            return (f"def l3_{which}_cond ({args} : Bool) : Bool := {cond}\n"
                    f"def l3_{which}_skip ({args} : Bool) : Bool := {skip}\n"
                    f"def l3_{which}_weight : Nat := {add.value.value}")
        return f
    emit("l3_row", l3("row"))
    emit("l3_col", l3("col"))

    # ---- penalty rule 1: threshold and weight; rule 2: weight
    def l1():
        fn = find_func(util, "_lost_point_level1")
        src = ast.unparse(fn)
        ths = set()
        for n in ast.walk(fn):
            if isinstance(n, ast.Compare) and isinstance(n.left, ast.Name) and n.left.id == "length" and isinstance(n.ops[0], ast.GtE):
                ths.add(n.comparators[0].value)
        if len(ths) != 1:
            raise Untranslatable(f"run thresholds {sorted(ths)}")
        gen_ = [n for n in ast.walk(fn) if isinstance(n, ast.GeneratorExp)]
        if len(gen_) != 1:
            raise Untranslatable("weighted sum not found")
        elt = gen_[0].elt
        tr = Tr({"each_length": "len"}, "Nat", {"container[each_length]": "cnt"})
        rng = gen_[0].generators[0].iter
        if not (isinstance(rng, ast.Call) and ast.unparse(rng.func) == "range" and len(rng.args) == 2):
            raise Untranslatable("range of the weighted sum")
        tr2 = Tr({"modules_count": "n"}, "Nat")
        return (f"def l1_threshold : Nat := {ths.pop()}\n"
                f"def l1_term (cnt len : Nat) : Nat := {tr.num(elt)}\n"
                f"def l1_range (n : Nat) : Nat × Nat := ({tr2.num(rng.args[0])}, {tr2.num(rng.args[1])})")
    emit("l1", l1)

    def l2():
        fn = find_func(util, "_lost_point_level2")
        adds = [n for n in ast.walk(fn) if isinstance(n, ast.AugAssign) and isinstance(n.target, ast.Name) and n.target.id == "lost_point"]
        if len(adds) != 1 or not isinstance(adds[0].value, ast.Constant):
            raise Untranslatable("weight")
        return f"def l2_weight : Nat := {adds[0].value.value}"
    emit("l2", l2)

    # ---- best_mask_pattern: the update test, the number of candidates
    def pick():
        fn = find_func(main, "QRCode.best_mask_pattern")
        loop = next((s for s in fn.body if isinstance(s, ast.For)), None)
        if loop is None or not (isinstance(loop.iter, ast.Call) and ast.unparse(loop.iter.func) == "range" and len(loop.iter.args) == 1
                                and isinstance(loop.iter.args[0], ast.Constant)):
            raise Untranslatable("loop over range(const)")
        test = next((s for s in loop.body if isinstance(s, ast.If)), None)
        if test is None:
            raise Untranslatable("no update test")
        tr = Tr({loop.target.id: "i", "min_lost_point": "minLost", "lost_point": "lost"}, "Nat")
        calls = [ast.unparse(n) for n in ast.walk(loop) if isinstance(n, ast.Call) and ast.unparse(n.func) == "self.makeImpl"]
        return (f"def mask_candidates : Nat := {loop.iter.args[0].value}\n"
                f"def pick_update (i minLost lost : Nat) : Bool := {tr.boolean(test.test)}\n"
                f"def mask_trial_call : String := {json.dumps(calls[0] if calls else '')}")
    emit("pick", pick)

    # ---- map_data: the column adjustment
    def coladj():
        fn = find_func(main, "QRCode.map_data")
        loop = next((s for s in fn.body if isinstance(s, ast.For)), None)
        if loop is None:
            raise Untranslatable("no column loop")
        first = loop.body[0]
        if not (isinstance(first, ast.If) and isinstance(first.body[0], ast.AugAssign) and isinstance(first.body[0].op, ast.Sub)):
            raise Untranslatable("no `if col <= 6: col -= 1`")
        tr = Tr({"col": "col"}, "Nat")
        rng = loop.iter
        tr2 = Tr({"self.modules_count": "n"}, "Int")
        if not (isinstance(rng, ast.Call) and ast.unparse(rng.func) == "range" and len(rng.args) == 3):
            raise Untranslatable("column range")
        return (f"def map_col_adjust (col : Nat) : Nat := if {tr.boolean(first.test)} then col - {tr.num(first.body[0].value)} else col\n"
                f"def map_col_range (n : Int) : Int × Int × Int := ({tr2.num(rng.args[0])}, {tr2.num(rng.args[1])}, {tr2.num(rng.args[2])})")
    emit("map_col", coladj)

    # ---- create_data: overflow test, terminator, padding
    def cdata():
        fn = find_func(util, "create_data")
        subs = {"len(buffer)": "len"}
        tr = Tr({"bit_limit": "limit"}, "Nat", subs)
        ov = next((s for s in fn.body if isinstance(s, ast.If) and isinstance(s.body[0], ast.Raise)), None)
        if ov is None:
            raise Untranslatable("no overflow test")
        loops = [s for s in fn.body if isinstance(s, ast.For)]
        term = next((l for l in loops if isinstance(l.iter, ast.Call) and l.iter.args and "min" in ast.unparse(l.iter.args[0])), None)
        if term is None:
            raise Untranslatable("no terminator loop")
        pad = loops[-1]
        ptest = next((s for s in pad.body if isinstance(s, ast.If)), None)
        if ptest is None:
            raise Untranslatable("no pad alternation")
        trp = Tr({pad.target.id: "i"}, "Nat")
        first = ast.unparse(ptest.body[0].value.args[0]) if isinstance(ptest.body[0], ast.Expr) else "?"
        second = ast.unparse(ptest.orelse[0].value.args[0]) if ptest.orelse and isinstance(ptest.orelse[0], ast.Expr) else "?"
        return (f"def overflow_test (len limit : Nat) : Bool := {tr.boolean(ov.test)}\n"
                f"def terminator_len (len limit : Nat) : Nat := {tr.num(term.iter.args[0])}\n"
                f"def pad_first (i : Nat) : Bool := {trp.boolean(ptest.test)}\n"
                f"def pad_names : String × String := ({json.dumps(first)}, {json.dumps(second)})")
    emit("create_data", cdata)


    # ---- finder / alignment / timing patterns: colour tests, skip tests, loop ranges
    def rng_of(node, tr):
        if not (isinstance(node, ast.Call) and ast.unparse(node.func) == "range" and 1 <= len(node.args) <= 2):
            raise Untranslatable("range " + ast.unparse(node)[:40])
        if len(node.args) == 1:
            return f"(0, {tr.num(node.args[0])})"
        return f"({tr.num(node.args[0])}, {tr.num(node.args[1])})"

    def probe():
        fn = find_func(main, "QRCode.setup_position_probe_pattern")
        outer = next((x for x in fn.body if isinstance(x, ast.For)), None)
        if outer is None:
            raise Untranslatable("no row loop")
        skip_r = outer.body[0]
        inner = next((x for x in outer.body if isinstance(x, ast.For)), None)
        if inner is None or not isinstance(skip_r, ast.If):
            raise Untranslatable("loop shape")
        skip_c = inner.body[0]
        col = next((x for x in inner.body[1:] if isinstance(x, ast.If)), None)
        if col is None or not isinstance(skip_c, ast.If):
            raise Untranslatable("no colour test")
        tr = Tr({outer.target.id: "r", inner.target.id: "c", "row": "row", "col": "col", "self.modules_count": "n"}, "Int")
        vals = (ast.unparse(col.body[0].value), ast.unparse(col.orelse[0].value)) if col.orelse else ("?", "?")
        if vals != ("True", "False"):
            raise Untranslatable(f"colour branches assign {vals}")
        return (f"def probe_dark (r c : Int) : Bool := {tr.boolean(col.test)}\n"
                f"def probe_skip_row (n row r : Int) : Bool := {tr.boolean(skip_r.test)}\n"
                f"def probe_skip_col (n col c : Int) : Bool := {tr.boolean(skip_c.test)}\n"
                f"def probe_range : (Int × Int) × (Int × Int) := ({rng_of(outer.iter, tr)}, {rng_of(inner.iter, tr)})")
    emit("probe", probe)

    def align():
        fn = find_func(main, "QRCode.setup_position_adjust_pattern")
        loops = [n for n in ast.walk(fn) if isinstance(n, ast.For)]
        rr = next((l for l in loops if isinstance(l.target, ast.Name) and l.target.id == "r"), None)
        cc = next((l for l in loops if isinstance(l.target, ast.Name) and l.target.id == "c"), None)
        if rr is None or cc is None:
            raise Untranslatable("no r/c loops")
        col = next((x for x in cc.body if isinstance(x, ast.If)), None)
        skip = next((n for n in ast.walk(fn) if isinstance(n, ast.If) and isinstance(n.body[0], ast.Continue)), None)
        if col is None or skip is None:
            raise Untranslatable("no colour / skip test")
        tr = Tr({"r": "r", "c": "c"}, "Int")
        vals = (ast.unparse(col.body[0].value), ast.unparse(col.orelse[0].value)) if col.orelse else ("?", "?")
        if vals != ("True", "False"):
            raise Untranslatable(f"colour branches assign {vals}")
        return (f"def align_dark (r c : Int) : Bool := {tr.boolean(col.test)}\n"
                f"def align_range : (Int × Int) × (Int × Int) := ({rng_of(rr.iter, tr)}, {rng_of(cc.iter, tr)})\n"
                f"def align_skip_test : String := {json.dumps(ast.unparse(skip.test))}")
    emit("align", align)

    def timing():
        fn = find_func(main, "QRCode.setup_timing_pattern")
        loops = [x for x in fn.body if isinstance(x, ast.For)]
        if len(loops) != 2:
            raise Untranslatable("expected two loops")
        outs = []
        for k, lp in enumerate(loops):
            tr = Tr({lp.target.id: "i", "self.modules_count": "n"}, "Nat")
            asg = next((x for x in lp.body if isinstance(x, ast.Assign)), None)
            skip = next((x for x in lp.body if isinstance(x, ast.If)), None)
            if asg is None or skip is None:
                raise Untranslatable("loop body")
            outs.append(f"def timing_dark_{k} (i : Nat) : Bool := {tr.boolean(asg.value)}\n"
                        f"def timing_range_{k} (n : Nat) : Nat × Nat := {rng_of(lp.iter, tr)}\n"
                        f"def timing_target_{k} : String := {json.dumps(ast.unparse(asg.targets[0]))}\n"
                        f"def timing_skip_{k} : String := {json.dumps(ast.unparse(skip.test))}")
        return "\n".join(outs)
    emit("timing", timing)

    # ---- print_ascii: get_module
    def getmod():
        fn = find_func(main, "QRCode.print_ascii")
        gm = next((x for x in fn.body if isinstance(x, ast.FunctionDef) and x.name == "get_module"), None)
        if gm is None:
            raise Untranslatable("no get_module")
        tr = Tr({"x": "x", "y": "y", "modcount": "modcount", "self.border": "border", "invert": "invert"}, "Int")
        trb = Tr({"invert": "invert", "self.border": "(decide (border ≠ 0))"}, "Int")
        ifs = [x for x in gm.body if isinstance(x, ast.If)]
        if len(ifs) != 2 or not all(isinstance(i.body[0], ast.Return) for i in ifs):
            raise Untranslatable("shape of get_module")
        def cond(node):
            # truth values of `invert` / `self.border` mixed with comparisons
            if isinstance(node, ast.BoolOp):
                op = " && " if isinstance(node.op, ast.And) else " || "
                return "(" + op.join(cond(v) for v in node.values) + ")"
            if isinstance(node, (ast.Name, ast.Attribute)):
                return trb.boolean(node)
            return tr.boolean(node)
        return (f"def get_module_phantom (modcount border : Int) (invert : Bool) (x y : Int) : Bool := {cond(ifs[0].test)}\n"
                f"def get_module_phantom_value : Nat := {ifs[0].body[0].value.value}\n"
                f"def get_module_outside (modcount x y : Int) : Bool := {tr.boolean(ifs[1].test)}\n"
                f"def get_module_outside_value : Nat := {ifs[1].body[0].value.value}\n"
                f"def get_module_inside : String := {json.dumps(ast.unparse(gm.body[-1].value))}")
    emit("get_module", getmod)

    # ---- QRData.write: chunk sizes and widths
    def qwrite():
        fn = find_func(util, "QRData.write")
        src = {n: ast.unparse(n) for n in ast.walk(fn) if isinstance(n, (ast.For, ast.Call))}
        loops = [n for n in ast.walk(fn) if isinstance(n, ast.For)]
        steps = []
        for lp in loops:
            if isinstance(lp.iter, ast.Call) and ast.unparse(lp.iter.func) == "range" and len(lp.iter.args) == 3:
                steps.append(lp.iter.args[2].value)
        puts = [ast.unparse(n) for n in ast.walk(fn) if isinstance(n, ast.Call) and ast.unparse(n.func) == "buffer.put"]
        return (f"def write_steps : List Nat := [{', '.join(map(str, steps))}]\n"
                f"def write_puts : List String := [{', '.join(json.dumps(x) for x in puts)}]")
    emit("qrdata_write", qwrite)

    # ---- release.update_manpage: the literals it depends on
    def rel():
        tree = parse("qrcode/release.py")
        fn = find_func(tree, "update_manpage")
        consts = []
        for n in ast.walk(fn):
            if isinstance(n, ast.Constant) and isinstance(n.value, (str, int)) and not isinstance(n.value, bool):
                consts.append(n.value)
        strs = [c for c in consts if isinstance(c, str) and len(c) < 40 and not c.startswith("\n")]
        ints = [c for c in consts if isinstance(c, int)]
        return (f"def release_strings : List String := [{', '.join(json.dumps(x) for x in strs)}]\n"
                f"def release_ints : List Nat := [{', '.join(str(x) for x in ints)}]")
    emit("release", rel)

    # ---- structure: the sequence of self.* calls in makeImpl and make
    def calls_of(qual):
        fn = find_func(main, qual)
        seq = []
        for n in ast.walk(fn):
            pass
        class V(ast.NodeVisitor):
            def visit_Call(self, node):
                f = ast.unparse(node.func)
                if f.startswith("self.") or f.startswith("util."):
                    seq.append(f)
                self.generic_visit(node)
        for s in fn.body:
            V().visit(s)
        return seq
    def structure():
        a = calls_of("QRCode.makeImpl")
        b = calls_of("QRCode.make")
        return (f"def makeImpl_calls : List String := [{', '.join(json.dumps(x) for x in a)}]\n"
                f"def make_calls : List String := [{', '.join(json.dumps(x) for x in b)}]")
    emit("structure", structure)

    # ---- further fragments: tools/t2_fragments/*.py, each `def fragments(api)` calling api.emit(name, thunk)
    class Api:
        pass
    api = Api()
    api.Tr, api.Untranslatable, api.find_func, api.strip_doc = Tr, Untranslatable, find_func, strip_doc
    api.returns_chain, api.raise_condition, api.parse, api.emit, api.repo = returns_chain, raise_condition, parse, emit, repo
    api.trees = dict(util=util, main=main, image_base=ibase)
    fdir = os.path.join(os.path.dirname(os.path.abspath(__file__)), "t2_fragments")
    for fn in sorted(os.listdir(fdir)) if os.path.isdir(fdir) else []:
        if fn.endswith(".py") and not fn.startswith("_"):
            import importlib.util
            spec = importlib.util.spec_from_file_location("t2_" + fn[:-3], os.path.join(fdir, fn))
            mod = importlib.util.module_from_spec(spec)
            try:
                spec.loader.exec_module(mod)
                out.append(f"\n-- fragments of tools/t2_fragments/{fn}")
                mod.fragments(api)
            except Exception as e:  # noqa
                out.append(f"-- t2_fragments/{fn}: UNTRANSLATABLE (plugin error {type(e).__name__}: {e})")
                status["plugin:" + fn] = f"untranslatable: {type(e).__name__}: {e}"

    out.append("\nend QR.Gen.Code")
    return "\n".join(out) + "\n", status


def main():
    ap = argparse.ArgumentParser()
    ap.add_argument("--repo", default="/repo")
    ap.add_argument("--out", default=os.path.join(os.path.dirname(os.path.abspath(__file__)), "..", "lean", "QR", "Gen"))
    a = ap.parse_args()
    text, status = gen(a.repo)
    path = os.path.join(a.out, "Code.lean")
    old = open(path).read() if os.path.exists(path) else None
    if old != text:
        with open(path, "w") as f:
            f.write(text)
    with open(os.path.join(a.out, "code_status.json"), "w") as f:
        json.dump(status, f, indent=0, sort_keys=True)
    with open(os.path.join(a.out, "code_sources.json"), "w") as f:
        json.dump({str(k): sorted(v) for k, v in _TRACE["src"].items()}, f, indent=0, sort_keys=True)
    with open(os.path.join(a.out, "code_defs.json"), "w") as f:
        json.dump(_TRACE.get("defs", {}), f, indent=0, sort_keys=True)
    print(json.dumps({"code_changed": old != text, "untranslatable": {k: v for k, v in status.items() if v != "ok"}}))


if __name__ == "__main__":
    main()
