#!/usr/bin/env python3
"""Pins the fingerprints of the modelled functions of the CURRENT /repo tree (run only when /repo's HEAD legitimately
moved and the model was re-validated): writes lean/QR/Proofs/Pinned.lean and refreshes corpus/fingerprints_baseline.json."""
import json, os, shutil, subprocess
VERIF = os.path.dirname(os.path.dirname(os.path.abspath(__file__)))
subprocess.run(["/venv/bin/python", os.path.join(VERIF, "tools", "gen_tables.py")], check=True, stdout=subprocess.DEVNULL)
fp = json.load(open(os.path.join(VERIF, "lean", "QR", "Gen", "fingerprints.json")))
mf = json.load(open(os.path.join(VERIF, "tools", "modelled_functions.json")))
keys = sorted({k for g in mf["groups"].values() for k in g} | {k for v in mf.get("roots", {}).values() for k in v if not k.endswith("*")}
              | {k for v in mf.get("cuts", {}).values() for k in v if not k.endswith("*")})
missing = [k for k in keys if k not in fp]
assert not missing, missing
import re
gen = open(os.path.join(VERIF, "lean", "QR", "Gen", "Fingerprints.lean")).read()
L = ["import QR.Gen.Fingerprints", "/-",
     "Pinned fingerprints (tools/pin_fingerprints.py; committed): per property, the hash over the normalised ASTs of the parts of",
     "the qrcode package in the property's static slice (tools/slicer.py: closure of the functions its model mirrors and of its",
     "entry points, tools/modelled_functions.json, under 'can refer to', minus its cut parts), as they were when the model was",
     "written and validated.  `Cxx_source_fingerprints` states that /repo's working tree still has exactly these: the theorems are",
     "about a model of THIS source.  Which part changed is reported by ./check from corpus/fingerprints_baseline.json.", "-/",
     "namespace QR.Pinned", ""]
for m in re.finditer(r"def (fp_C\d+) : Nat := (0x[0-9a-f]+)", gen):
    L.append(f"def {m.group(1)} : Nat := {m.group(2)}")
L += ["", "end QR.Pinned", ""]
open(os.path.join(VERIF, "lean", "QR", "Proofs", "Pinned.lean"), "w").write("\n".join(L))
shutil.copy(os.path.join(VERIF, "lean", "QR", "Gen", "fingerprints.json"), os.path.join(VERIF, "corpus", "fingerprints_baseline.json"))
shutil.copy(os.path.join(VERIF, "lean", "QR", "Gen", "fingerprint_keys.json"), os.path.join(VERIF, "corpus", "fingerprint_keys_baseline.json"))
ks = json.load(open(os.path.join(VERIF, "lean", "QR", "Gen", "fingerprint_keys.json")))
print("pinned", len({k for v in ks.values() for k in v}), "parts over", len(ks), "properties")
