"""T2 fragments, package D1 (segmentation): qrcode/util.py `to_bytestring`, `optimal_mode` (+ `RE_ALPHA_NUM`, `ALPHA_NUM`,
`MODE_*`), `QRData.__init__`, `optimal_data_chunks`, `_optimal_split`; qrcode/main.py `QRCode.add_data`.

All generated names start with `sg_`.  Every function is translated statement by statement from the current AST:
  * byte strings are `List Nat`; `QRData` objects are `sg_QRData` (mode, data); what Python leaves to the interpreter / the
    `re` module is a field of the parameter record `sg_Py` (the regex engine `re_search` / `re_match` on *structured*
    patterns, the exception values, `isinstance(data, bytes)`, `str(data).encode(...)`, the fuel granted to a `while` loop);
  * regular expressions are NOT copied as text: the bytes expressions that build them (`b"^" + num_pattern + b"+$"`,
    `alpha_pattern + re_repeat`, `b"^[" + re.escape(ALPHA_NUM) + rb"]*\\Z"` ...) are evaluated symbolically to a token string
    and parsed into a value of `sg_Pat` (class: `\\d` | `[` re.escape(CONST) `]`; shape: `^C+$` | `C{n,}` | `^C*\\Z`).  An
    unescaped class, a changed quantifier, a dropped anchor, another constant: different term or untranslatable;
  * generators are lists of yielded values, `for ... in <generator>: ... yield` is `sg_for_yield`, `raise X` is `throw py.X`,
    `while` is `sg_*_loop` over the translated condition and body (fuel = `py.fuel data`).
Anything whose shape is not understood raises Untranslatable.
"""
import ast
import json


def fragments(api):
    U = api.Untranslatable
    find_func, strip_doc = api.find_func, api.strip_doc
    util, main = api.trees["util"], api.trees["main"]

    def need(cond, why):
        if not cond:
            raise U(why)

    def unp(n):
        return ast.unparse(n)

    KEYWORDS = {"match", "end", "from", "at", "in", "do", "then", "else", "if", "fun", "let", "have", "show", "with", "open",
                "section", "namespace", "instance", "structure", "class", "def", "theorem", "where", "local", "private"}

    def ln(name):
        name = name.replace(".", "_")
        return f"«{name}»" if name in KEYWORDS else name

    def module_assign(tree, name):
        hits = [s for s in tree.body if isinstance(s, ast.Assign) and any(isinstance(t, ast.Name) and t.id == name for t in s.targets)]
        hits += [s for s in ast.walk(tree) if isinstance(s, (ast.AugAssign, ast.AnnAssign)) and isinstance(s.target, ast.Name) and s.target.id == name]
        need(len(hits) == 1 and isinstance(hits[0], ast.Assign) and len(hits[0].targets) == 1, f"module constant {name}: not exactly one plain assignment")
        return hits[0].value

    def no_rebind(tree, names):
        """the module-level names we rely on are not shadowed by another top-level def/class/import"""
        for s in tree.body:
            if isinstance(s, (ast.FunctionDef, ast.ClassDef)) and s.name in names:
                raise U(f"{s.name} is redefined as a function/class")

    MODES = ("MODE_NUMBER", "MODE_ALPHA_NUM", "MODE_8BIT_BYTE")
    MODCONST = {m: ("sg_" + m, "nat") for m in MODES}

    # =================================================================================================================
    # prelude: types, the fixed meaning of Python builtins, module constants (from the AST)
    # =================================================================================================================
    PRELUDE = """/-- a character class as it is written in the source: `\\\\d`, or `[` + re.escape(bytes) + `]` -/
inductive sg_Cls where
  | digits
  | set (bytes : List Nat)
  deriving DecidableEq, Repr
/-- the compiled patterns of the segmentation code: `^C+$`, `C{n,}`, `^C*\\\\Z` -/
inductive sg_Pat where
  | anchoredPlus (c : sg_Cls)
  | atLeast (c : sg_Cls) (n : Nat)
  | anchoredStarZ (c : sg_Cls)
  deriving DecidableEq, Repr
/-- a `QRData` object: `self.mode`, `self.data` -/
structure sg_QRData where
  mode : Nat
  data : List Nat
  deriving DecidableEq, Repr
/-- what the translated code leaves to the interpreter: exception values, the regex engine (a match object is
    `(m.start(), m.end())`), `isinstance(data, bytes)`, `str(data).encode(enc)`, iterations granted to `while data:` -/
structure sg_Py (ε : Type) where
  TypeError : ε
  ValueError : ε
  re_search : sg_Pat → List Nat → Option (Nat × Nat)
  re_match : sg_Pat → List Nat → Option (Nat × Nat)
  isinstance_bytes : List Nat → Bool
  str_encode : List Nat → List Nat
  fuel : List Nat → Nat
/-- `b.isdigit()` on bytes: non-empty and every byte an ASCII digit -/
def sg_py_isdigit (b : List Nat) : Bool := !b.isEmpty && b.all (fun c => decide (48 ≤ c) && decide (c ≤ 57))
/-- `b[:hi]`, `b[lo:hi]`, `b[lo:]` for non-negative indices -/
def sg_slice_to (b : List Nat) (hi : Nat) : List Nat := b.take hi
def sg_slice (b : List Nat) (lo hi : Nat) : List Nat := (b.take hi).drop lo
def sg_slice_from (b : List Nat) (lo : Nat) : List Nat := b.drop lo
/-- `for x in xs: <body yielding values, possibly raising>` as the list of yielded values -/
def sg_for_yield {ε α β : Type} : List α → (α → Except ε (List β)) → Except ε (List β)
  | [], _ => pure []
  | a :: l, f => f a >>= fun ys => sg_for_yield l f >>= fun zs => pure (ys ++ zs)"""

    def prelude():
        no_rebind(util, set(MODES) | {"ALPHA_NUM", "RE_ALPHA_NUM", "re"})
        out = [PRELUDE]
        for m in MODES:
            tr = api.Tr({}, "Nat")
            out.append(f"def sg_{m} : Nat := {tr.num(module_assign(util, m))}")
        v = module_assign(util, "ALPHA_NUM")
        need(isinstance(v, ast.Constant) and isinstance(v.value, bytes), "ALPHA_NUM is not a bytes literal")
        out.append(f"def sg_ALPHA_NUM : List Nat := [{', '.join(str(b) for b in v.value)}]")
        imports = [a.name for s in util.body if isinstance(s, ast.Import) for a in s.names if (a.asname or a.name) == "re"]
        need(imports == ["re"], "`re` is not the module re")
        return "\n".join(out)

    # =================================================================================================================
    # regular expressions: symbolic evaluation of the bytes expression, then a parse into sg_Pat
    # =================================================================================================================
    BYTECONST = {"ALPHA_NUM": "sg_ALPHA_NUM"}

    def pat_tokens(node, penv, env):
        """bytes-valued expression -> token list: ('c', byte) | ('esc', lean const) | ('num', lean term)"""
        if isinstance(node, ast.Constant) and isinstance(node.value, bytes):
            return [("c", b) for b in node.value]
        if isinstance(node, ast.BinOp) and isinstance(node.op, ast.Add):
            return pat_tokens(node.left, penv, env) + pat_tokens(node.right, penv, env)
        if isinstance(node, ast.Name):
            need(node.id in penv and penv[node.id][0] == "raw", f"pattern piece {node.id} is not an uncompiled bytes expression")
            return penv[node.id][1]
        if isinstance(node, ast.Call) and not node.keywords:
            f = unp(node.func)
            if f == "re.escape" and len(node.args) == 1 and isinstance(node.args[0], ast.Name) and node.args[0].id in BYTECONST \
                    and node.args[0].id not in penv and node.args[0].id not in env:
                return [("esc", BYTECONST[node.args[0].id])]
            if isinstance(node.func, ast.Attribute) and node.func.attr == "encode" and len(node.args) <= 1:
                inner = node.func.value
                enc = node.args[0].value if node.args and isinstance(node.args[0], ast.Constant) else ("utf-8" if not node.args else None)
                need(enc in ("ascii", "utf-8", "utf8", "latin-1"), "encoding of the repeat count")
                need(isinstance(inner, ast.Call) and unp(inner.func) == "str" and len(inner.args) == 1 and not inner.keywords
                     and isinstance(inner.args[0], ast.Name), "repeat count is not str(NAME).encode(...)")
                nm = inner.args[0].id
                need(nm in env and env[nm][1] == "nat", f"repeat count {nm} is not a natural-number variable")
                return [("num", env[nm][0])]
        raise U("pattern expression " + unp(node)[:50])

    def parse_pat(tokens):
        pos = [0]

        def peek(k=0):
            return tokens[pos[0] + k] if pos[0] + k < len(tokens) else None

        def eat_c(ch):
            t = peek()
            if t == ("c", ord(ch)):
                pos[0] += 1
                return True
            return False
        anchored = eat_c("^")
        if peek() == ("c", ord("\\")) and peek(1) == ("c", ord("d")):
            pos[0] += 2
            cls = "sg_Cls.digits"
        elif peek() == ("c", ord("[")) and peek(1) is not None and peek(1)[0] == "esc" and peek(2) == ("c", ord("]")):
            cls = f"(sg_Cls.set {peek(1)[1]})"
            pos[0] += 3
        else:
            raise U("character class of the pattern is neither \\d nor [re.escape(CONST)]")
        rest = tokens[pos[0]:]
        C = lambda s: [("c", ord(x)) for x in s]  # noqa
        if rest == C("+$"):
            need(anchored, "C+$ without ^")
            return f"(sg_Pat.anchoredPlus {cls})"
        if rest == C("*\\Z"):
            need(anchored, "C*\\Z without ^")
            return f"(sg_Pat.anchoredStarZ {cls})"
        if len(rest) == 4 and rest[0] == ("c", ord("{")) and rest[1][0] == "num" and rest[2:] == C(",}"):
            need(not anchored, "^C{n,}")
            return f"(sg_Pat.atLeast {cls} {rest[1][1]})"
        raise U("quantifier / anchoring of the pattern")

    def compiled(node, penv, env):
        need(isinstance(node, ast.Call) and unp(node.func) == "re.compile" and len(node.args) == 1 and not node.keywords, "not re.compile(PATTERN)")
        return parse_pat(pat_tokens(node.args[0], penv, env))

    # =================================================================================================================
    # expressions.  env: Python name -> (Lean term, type); types: bytes nat bool optnat match matchval pat chunks qrdata arg none
    # =================================================================================================================
    SIG = {}          # callee -> (lean name, [(param, default node or None)]) ; filled by the emitters in dependency order

    def bind_args(call, callee):
        need(callee in SIG, f"call of {callee} before its translation")
        lean, params = SIG[callee]
        need(not any(isinstance(a, ast.Starred) for a in call.args) and all(k.arg for k in call.keywords), "star arguments")
        need(len(call.args) <= len(params), "too many arguments for " + callee)
        got = {}
        for (p, _), a in zip(params, call.args):
            got[p] = a
        for k in call.keywords:
            need(k.arg in dict(params) and k.arg not in got, f"keyword {k.arg} of {callee}")
            got[k.arg] = k.value
        out = []
        for (p, d) in params:
            if p in got:
                out.append(got[p])
            else:
                need(d is not None, f"missing argument {p} of {callee}")
                out.append(d)
        return lean, out

    def ex(node, env):
        if isinstance(node, ast.Constant):
            v = node.value
            if isinstance(v, bool):
                return ("true" if v else "false"), "bool"
            if v is None:
                return "none", "none"
            if isinstance(v, int) and v >= 0:
                return str(v), "nat"
            raise U("constant " + repr(v))
        if isinstance(node, ast.Name):
            if node.id in env:
                return env[node.id]
            if node.id in MODCONST:
                return MODCONST[node.id]
            raise U("free name " + node.id)
        if isinstance(node, ast.UnaryOp) and isinstance(node.op, ast.Not):
            return f"(!{truthy(node.operand, env)})", "bool"
        if isinstance(node, ast.BoolOp):
            op = " && " if isinstance(node.op, ast.And) else " || "
            return "(" + op.join(truthy(v, env) for v in node.values) + ")", "bool"
        if isinstance(node, ast.Compare):
            need(len(node.ops) == 1, "chained comparison")
            op, right = node.ops[0], node.comparators[0]
            a, ta = ex(node.left, env)
            if isinstance(op, (ast.In, ast.NotIn)):
                need(isinstance(right, (ast.Tuple, ast.List, ast.Set)) and ta == "nat", "`in` shape")
                alts = []
                for e in right.elts:
                    b, tb = ex(e, env)
                    need(tb == "nat", "`in` over non-numbers")
                    alts.append(f"decide ({a} = {b})")
                t = "(" + " || ".join(alts) + ")"
                return (t if isinstance(op, ast.In) else f"(!{t})"), "bool"
            b, tb = ex(right, env)
            sym = {ast.Lt: "<", ast.LtE: "≤", ast.Gt: ">", ast.GtE: "≥", ast.Eq: "=", ast.NotEq: "≠"}.get(type(op))
            need(sym is not None and ta == "nat" and tb == "nat", "comparison " + unp(node)[:40])
            return f"decide ({a} {sym} {b})", "bool"
        if isinstance(node, ast.IfExp):
            a, ta = ex(node.body, env)
            b, tb = ex(node.orelse, env)
            need(ta == tb, "conditional expression of two types")
            return f"(if {truthy(node.test, env)} then {a} else {b})", ta
        if isinstance(node, ast.Tuple):
            parts = [ex(e, env) for e in node.elts]
            return "(" + ", ".join(t for t, _ in parts) + ")", "tuple:" + ",".join(ty for _, ty in parts)
        if isinstance(node, ast.Subscript):
            a, ta = ex(node.value, env)
            s = node.slice
            need(ta == "bytes" and isinstance(s, ast.Slice) and s.step is None, "subscript " + unp(node)[:40])

            def idx(n):
                t, ty = ex(n, env)
                need(ty == "nat", "slice bound is not a natural number")
                return t
            if s.lower is None and s.upper is not None:
                return f"(sg_slice_to {a} {idx(s.upper)})", "bytes"
            if s.lower is not None and s.upper is not None:
                return f"(sg_slice {a} {idx(s.lower)} {idx(s.upper)})", "bytes"
            if s.lower is not None and s.upper is None:
                return f"(sg_slice_from {a} {idx(s.lower)})", "bytes"
            raise U("slice [:]")
        if isinstance(node, ast.Call):
            f = unp(node.func)
            plain = not node.keywords and not any(isinstance(a, ast.Starred) for a in node.args)
            if f == "len" and plain and len(node.args) == 1 and "len" not in env:
                a, ta = ex(node.args[0], env)
                need(ta == "bytes", "len of a " + ta)
                return f"{a}.length", "nat"
            if f == "isinstance" and plain and len(node.args) == 2 and unp(node.args[1]) == "bytes":
                a, ta = ex(node.args[0], env)
                need(ta == "bytes", "isinstance(_, bytes) of a " + ta)
                return f"(py.isinstance_bytes {a})", "bool"
            if f == "str" or (isinstance(node.func, ast.Attribute) and node.func.attr == "encode"):
                need(isinstance(node.func, ast.Attribute) and plain and len(node.args) == 1 and isinstance(node.args[0], ast.Constant)
                     and node.args[0].value in ("utf-8", "utf8"), "not str(X).encode('utf-8')")
                inner = node.func.value
                need(isinstance(inner, ast.Call) and unp(inner.func) == "str" and len(inner.args) == 1 and not inner.keywords, "not str(X).encode('utf-8')")
                a, ta = ex(inner.args[0], env)
                need(ta == "bytes", "str() of a " + ta)
                return f"(py.str_encode {a})", "bytes"
            if isinstance(node.func, ast.Attribute) and isinstance(node.func.value, ast.Name) and node.func.value.id in env:
                a, ta = env[node.func.value.id]
                meth = node.func.attr
                if ta == "bytes" and meth == "isdigit" and plain and not node.args:
                    return f"(sg_py_isdigit {a})", "bool"
                if ta == "matchval" and meth in ("start", "end") and plain and not node.args:
                    return f"{a}.{1 if meth == 'start' else 2}", "nat"
                raise U(f"method {meth} of a {ta}")
            if f == "RE_ALPHA_NUM.match" and plain and len(node.args) == 1:
                need("sg_RE_ALPHA_NUM" in DONE, "RE_ALPHA_NUM untranslated")
                a, ta = ex(node.args[0], env)
                need(ta == "bytes", "match on a " + ta)
                return f"(py.re_match sg_RE_ALPHA_NUM {a})", "match"
            if f == "re.search" and plain and len(node.args) == 2:
                p, tp = ex(node.args[0], env)
                a, ta = ex(node.args[1], env)
                need(tp == "pat" and ta == "bytes", "re.search(pattern, bytes) expected")
                return f"(py.re_search {p} {a})", "match"
            for callee, ty in (("to_bytestring", "bytes"), ("optimal_mode", "nat"), ("_optimal_split", "chunks")):
                if f in (callee, "util." + callee):
                    lean, args = bind_args(node, callee)
                    ts = [ex(a, env)[0] for a in args]
                    return f"({lean} py {' '.join(ts)})", ty
            raise U("call " + unp(node)[:50])
        raise U("expression " + unp(node)[:50])

    def mex(node, env):
        """expression that may raise: (term, type, monadic?)"""
        if isinstance(node, ast.Call):
            f = unp(node.func)
            for callee, ty in (("QRData", "qrdata"), ("optimal_data_chunks", "qrlist")):
                if f in (callee, "util." + callee):
                    lean, args = bind_args(node, callee)
                    ts = []
                    for (p, _), a in zip(SIG[callee][1], args):
                        t, tt = ex(a, env)
                        if p == "mode":
                            need(tt in ("nat", "none", "optnat"), "mode argument of type " + tt)
                            t = f"(some {t})" if tt == "nat" else t
                        elif p == "check_data":
                            need(tt == "bool", "check_data argument")
                        elif p == "data":
                            need(tt == "bytes", "data argument of type " + tt)
                        elif p == "minimum":
                            need(tt == "nat", "minimum argument")
                        else:
                            raise U("parameter " + p)
                        ts.append(t)
                    return f"({lean} py {' '.join(ts)})", ty, True
        t, ty = ex(node, env)
        return t, ty, False

    def truthy(node, env):
        t, ty = ex(node, env)
        if ty == "bool":
            return t
        if ty == "bytes":
            return f"(!{t}.isEmpty)"
        if ty == "nat":
            return f"decide ({t} ≠ 0)"
        if ty == "match":
            return f"{t}.isSome"
        raise U(f"truth value of a {ty}: {unp(node)[:40]}")

    def cond_split(test, env):
        """('if', cond, env, env) or ('match', scrutinee, then_is_none, (pattern_some, env_some), (pattern_none, env_none))"""
        neg = False
        core = test
        if isinstance(core, ast.UnaryOp) and isinstance(core.op, ast.Not):
            neg, core = True, core.operand
        if isinstance(core, ast.Name) and core.id in env and env[core.id][1] == "match":
            e2 = dict(env)
            e2[core.id] = (ln(core.id), "matchval")
            e0 = {k: v for k, v in env.items() if k != core.id}
            return "match", env[core.id][0], neg, (f"some {ln(core.id)}", e2), ("none", e0)
        if isinstance(test, ast.Compare) and len(test.ops) == 1 and isinstance(test.ops[0], (ast.Is, ast.IsNot)) \
                and isinstance(test.comparators[0], ast.Constant) and test.comparators[0].value is None \
                and isinstance(test.left, ast.Name) and test.left.id in env and env[test.left.id][1] == "optnat":
            nm = test.left.id
            e2 = dict(env)
            e2[nm] = (ln(nm), "nat")
            e0 = {k: v for k, v in env.items() if k != nm}
            return "match", env[nm][0], isinstance(test.ops[0], ast.Is), (f"some {ln(nm)}", e2), ("none", e0)
        if isinstance(test, ast.Call) and unp(test.func) == "isinstance" and len(test.args) == 2 and not test.keywords \
                and isinstance(test.args[0], ast.Name) and test.args[0].id in env and env[test.args[0].id][1] == "arg":
            need(unp(test.args[1]) in ("util.QRData", "QRData"), "isinstance against " + unp(test.args[1]))
            nm = test.args[0].id
            e1, e2 = dict(env), dict(env)
            e1[nm] = (ln(nm), "qrdata")
            e2[nm] = (ln(nm), "bytes")
            # then-branch = the QRData alternative; expressed as a match with "none" := .inl
            return "match", env[nm][0], True, (f".inr {ln(nm)}", e2), (f".inl {ln(nm)}", e1)
        return "if", truthy(test, env), env, env

    def branch(test, env, then_fn, else_fn, indent):
        """then_fn(env) / else_fn(env) give the Lean text of the two branches"""
        sp = "  " * indent
        c = cond_split(test, env)
        if c[0] == "if":
            return f"if {c[1]} then\n{sp}  {then_fn(c[2])}\n{sp}else\n{sp}  {else_fn(c[3])}"
        _, scrut, then_is_none, (psome, esome), (pnone, enone) = c
        tn, ts = (then_fn(enone), else_fn(esome)) if then_is_none else (else_fn(enone), then_fn(esome))
        return f"match {scrut} with\n{sp}| {pnone} =>\n{sp}  {tn}\n{sp}| {psome} =>\n{sp}  {ts}"

    DONE = set()

    def params_of(fn, skip_self=False):
        a = fn.args
        need(not a.vararg and not a.kwarg and not a.kwonlyargs and not a.posonlyargs, "signature of " + fn.name)
        args = a.args[1:] if skip_self else a.args
        if skip_self:
            need(a.args and a.args[0].arg == "self", "first parameter is not self")
        defaults = [None] * (len(args) - len(a.defaults)) + list(a.defaults)
        need(len(defaults) == len(args), "defaults of " + fn.name)
        return [(x.arg, d) for x, d in zip(args, defaults)]

    def no_decorators(fn):
        need(not fn.decorator_list, "decorated function " + fn.name)

    def no_nested_scopes(fn):
        for n in ast.walk(fn):
            if n is not fn and isinstance(n, (ast.FunctionDef, ast.Lambda, ast.ClassDef, ast.Global, ast.Nonlocal, ast.AsyncFunctionDef,
                                              ast.Try, ast.With, ast.Delete, ast.NamedExpr, ast.YieldFrom, ast.Await)):
                raise U("unsupported construct " + type(n).__name__ + " in " + fn.name)

    # =================================================================================================================
    # straight-line code with if / raise / assignments (to_bytestring, optimal_mode, QRData.__init__, add_data)
    # =================================================================================================================
    def target_name(t):
        if isinstance(t, ast.Name):
            return t.id
        if isinstance(t, ast.Attribute) and isinstance(t.value, ast.Name) and t.value.id == "self":
            return "self." + t.attr
        raise U("assignment target " + unp(t))

    def assigned(stmts):
        out = []
        for s in stmts:
            if isinstance(s, ast.Assign):
                need(len(s.targets) == 1, "multiple targets")
                n = target_name(s.targets[0])
                if n not in out:
                    out.append(n)
            elif isinstance(s, ast.If):
                for n in assigned(s.body) + assigned(s.orelse):
                    if n not in out:
                        out.append(n)
            elif isinstance(s, ast.Expr) and isinstance(s.value, ast.Call) and isinstance(s.value.func, ast.Attribute) \
                    and s.value.func.attr in ("append", "extend"):
                n = target_name(s.value.func.value)
                if n not in out:
                    out.append(n)
            elif isinstance(s, (ast.Raise, ast.Return)):
                pass
            else:
                raise U("statement " + type(s).__name__)
        return out

    def monadic(stmts):
        for s in stmts:
            for n in ast.walk(s):
                if isinstance(n, ast.Raise):
                    return True
                if isinstance(n, ast.Call) and unp(n.func) in ("QRData", "util.QRData", "optimal_data_chunks", "util.optimal_data_chunks"):
                    return True
        return False

    def block(stmts, env, k, indent, mon):
        """Lean text for the statements followed by the continuation k(env); mon: the block lives in `Except ε`"""
        sp = "  " * indent
        if not stmts:
            return k(env)
        s, rest = stmts[0], stmts[1:]
        if isinstance(s, ast.Return):
            need(not rest, "code after return")
            need(s.value is not None, "bare return")
            t, ty = ex(s.value, env)
            return k({**env, "#return": (t, ty)})
        if isinstance(s, ast.Raise):
            need(mon and not rest, "raise position")
            e = s.exc
            need(s.cause is None and isinstance(e, ast.Call) and isinstance(e.func, ast.Name) and e.func.id in ("TypeError", "ValueError"),
                 "raises " + unp(s)[:40])
            return f"throw py.{e.func.id}"
        if isinstance(s, ast.Assign):
            need(len(s.targets) == 1, "multiple targets")
            n = target_name(s.targets[0])
            t, ty, m = mex(s.value, env)
            e2 = {**env, n: (ln(n), ty)}
            if ty == "none":
                t = "(none : Option κ)"
            if m:
                need(mon, "raising call in a pure block")
                return f"{t} >>= fun {ln(n)} =>\n{sp}" + block(rest, e2, k, indent, mon)
            return f"let {ln(n)} := {t}\n{sp}" + block(rest, e2, k, indent, mon)
        if isinstance(s, ast.Expr) and isinstance(s.value, ast.Call) and isinstance(s.value.func, ast.Attribute) \
                and s.value.func.attr in ("append", "extend"):
            c = s.value
            n = target_name(c.func.value)
            need(n in env and env[n][1] == "qrlist" and len(c.args) == 1 and not c.keywords, "append/extend shape")
            t, ty, m = mex(c.args[0], env)
            need(ty == ("qrdata" if c.func.attr == "append" else "qrlist"), f"{c.func.attr} of a {ty}")
            v = "t" if m else t
            upd = f"let {ln(n)} := {env[n][0]} ++ " + (f"[{v}]" if c.func.attr == "append" else v)
            e2 = {**env, n: (ln(n), "qrlist")}
            if m:
                need(mon, "raising call in a pure block")
                return f"{t} >>= fun t =>\n{sp}{upd}\n{sp}" + block(rest, e2, k, indent, mon)
            return f"{upd}\n{sp}" + block(rest, e2, k, indent, mon)
        if isinstance(s, ast.If):
            # `if c: raise X` keeps the rest as the else-branch
            if len(s.body) == 1 and isinstance(s.body[0], ast.Raise) and not s.orelse:
                need(mon, "raise in a pure block")
                return branch(s.test, env, lambda e: block(s.body, e, k, indent + 1, mon),
                              lambda e: block(rest, e, k, indent + 1, mon), indent)
            if any(isinstance(x, ast.Return) for x in ast.walk(s)):
                # `if c: return e` ... : the rest is the else-branch
                need(not s.orelse and isinstance(s.body[-1], ast.Return), "return inside a two-armed if")
                return branch(s.test, env, lambda e: block(s.body, e, k, indent + 1, mon),
                              lambda e: block(rest, e, k, indent + 1, mon), indent)
            vs = assigned(s.body + s.orelse)
            need(vs, "if without effect")
            m = monadic(s.body + s.orelse)
            need(mon or not m, "raising if in a pure block")
            types = {}

            def fin(e):
                for v in vs:
                    need(v in e, f"{v} is not assigned on every path")
                    if v in types:
                        need(types[v] == e[v][1] or {types[v], e[v][1]} <= {"none", "optnat"}, f"{v} gets two types")
                    types[v] = e[v][1]
                tup = e[vs[0]][0] if len(vs) == 1 else "(" + ", ".join(e[v][0] for v in vs) + ")"
                return f"pure {tup}" if m else tup
            both = branch(s.test, env, lambda e: block(s.body, e, fin, indent + 1, m),
                          lambda e: block(s.orelse, e, fin, indent + 1, m), indent)
            pat = ln(vs[0]) if len(vs) == 1 else "(" + ", ".join(ln(v) for v in vs) + ")"
            e2 = dict(env)
            for v in vs:
                e2[v] = (ln(v), types[v])
            if m:
                return f"(({both}) : Except ε _) >>= fun {pat} =>\n{sp}" + block(rest, e2, k, indent, mon)
            return f"let {pat} := ({both})\n{sp}" + block(rest, e2, k, indent, mon)
        raise U("statement " + type(s).__name__ + ": " + unp(s)[:40])

    # ---- to_bytestring
    def to_bytestring():
        fn = find_func(util, "to_bytestring")
        no_decorators(fn); no_nested_scopes(fn)
        ps = params_of(fn)
        need(len(ps) == 1 and ps[0][1] is None, "signature")
        p = ps[0][0]
        env = {p: (ln(p), "bytes")}

        def k(e):
            need("#return" in e and e["#return"][1] == "bytes", "does not return the byte string")
            return e["#return"][0]
        body = block(strip_doc(fn.body), env, k, 1, False)
        SIG["to_bytestring"] = ("sg_to_bytestring", ps)
        DONE.add("sg_to_bytestring")
        return (f"/-- `util.to_bytestring` (the argument is represented by its bytes; whether it *is* a bytes object is `py.isinstance_bytes`) -/\n"
                f"def sg_to_bytestring {{ε : Type}} (py : sg_Py ε) ({ln(p)} : List Nat) : List Nat :=\n  {body}")

    # ---- RE_ALPHA_NUM, optimal_mode
    def optimal_mode():
        v = module_assign(util, "RE_ALPHA_NUM")
        pat = compiled(v, {}, {})
        DONE.add("sg_RE_ALPHA_NUM")
        fn = find_func(util, "optimal_mode")
        no_decorators(fn); no_nested_scopes(fn)
        ps = params_of(fn)
        need(len(ps) == 1 and ps[0][1] is None, "signature")
        p = ps[0][0]
        env = {p: (ln(p), "bytes")}

        def k(e):
            need("#return" in e and e["#return"][1] == "nat", "does not return a mode")
            return e["#return"][0]
        body = block(strip_doc(fn.body), env, k, 1, False)
        SIG["optimal_mode"] = ("sg_optimal_mode", ps)
        DONE.add("sg_optimal_mode")
        return (f"/-- `util.RE_ALPHA_NUM` -/\ndef sg_RE_ALPHA_NUM : sg_Pat := {pat}\n"
                f"/-- `util.optimal_mode` -/\n"
                f"def sg_optimal_mode {{ε : Type}} (py : sg_Py ε) ({ln(p)} : List Nat) : Nat :=\n  {body}")

    # ---- QRData.__init__
    def qrdata_init():
        need("sg_optimal_mode" in DONE and "sg_to_bytestring" in DONE, "callees untranslated")
        fn = find_func(util, "QRData.__init__")
        no_decorators(fn); no_nested_scopes(fn)
        ps = params_of(fn, skip_self=True)
        need([p for p, _ in ps] == ["data", "mode", "check_data"], "parameters of QRData.__init__")
        need(ps[0][1] is None and ps[1][1] is not None and ps[2][1] is not None, "defaults of QRData.__init__")
        env = {"data": ("data", "bytes"), "mode": ("mode", "optnat"), "check_data": ("check_data", "bool")}

        def k(e):
            need("#return" not in e, "__init__ returns a value")
            need("self.mode" in e and e["self.mode"][1] == "nat" and "self.data" in e and e["self.data"][1] == "bytes", "self.mode / self.data not set")
            extra = [n for n in e if n.startswith("self.") and n not in ("self.mode", "self.data")]
            need(not extra, "further attributes " + ", ".join(extra))
            return f"pure {{ mode := {e['self.mode'][0]}, data := {e['self.data'][0]} }}"
        body = block(strip_doc(fn.body), env, k, 1, True)
        cls = find_func(util, "QRData")
        need(not cls.bases and not cls.decorator_list and not cls.keywords, "QRData has base classes / decorators")
        need(not any(isinstance(s, ast.FunctionDef) and s.name in ("__new__", "__setattr__", "__getattribute__", "__getattr__") for s in cls.body),
             "QRData customises construction / attribute access")
        SIG["QRData"] = ("sg_qrdata_init", ps)
        DONE.add("sg_qrdata_init")
        return ("/-- `util.QRData.__init__(self, data, mode, check_data)`: the object it leaves, or the exception -/\n"
                "def sg_qrdata_init {ε : Type} (py : sg_Py ε) (data : List Nat) (mode : Option Nat) (check_data : Bool) : Except ε sg_QRData :=\n  "
                + body)

    # =================================================================================================================
    # _optimal_split: `while` loop of a generator
    # =================================================================================================================
    def is_yield(s):
        return isinstance(s, ast.Expr) and isinstance(s.value, ast.Yield) and s.value.value is not None

    def yielded(s, env):
        t, ty = ex(s.value.value, env)
        need(ty == "tuple:bool,bytes", "yields " + ty)
        return t

    def loop_body(stmts, env, carried, indent):
        """statements of the while body -> Lean term of type Bool × carried × yields (left by break?, carried value, yielded)"""
        sp = "  " * indent
        if not stmts:
            return f"(false, {env[carried][0]}, ys)"
        s, rest = stmts[0], stmts[1:]
        if isinstance(s, ast.Break):
            need(not rest, "code after break")
            need(carried in env, "carried variable undefined at break")
            return f"(true, {env[carried][0]}, ys)"
        if isinstance(s, ast.Assign):
            need(len(s.targets) == 1, "multiple targets")
            t = s.targets[0]
            if isinstance(t, ast.Tuple):
                need(isinstance(s.value, ast.Tuple) and len(s.value.elts) == len(t.elts) and all(isinstance(x, ast.Name) for x in t.elts), "tuple assignment")
                names = [x.id for x in t.elts]
                need(len(set(names)) == len(names), "repeated target")
                vals = [ex(v, env) for v in s.value.elts]          # all values are evaluated before any binding
                out, e2 = "", dict(env)
                for n, (v, ty) in zip(names, vals):
                    out += f"let {ln(n)} := {v}\n{sp}"
                    e2[n] = (ln(n), ty)
                # a value must not mention an earlier target of the same statement (sequential lets would differ)
                for i, v in enumerate(s.value.elts):
                    used = {x.id for x in ast.walk(v) if isinstance(x, ast.Name)}
                    need(not (used & set(names[:i])), "tuple assignment reads its own targets")
                return out + loop_body(rest, e2, carried, indent)
            need(isinstance(t, ast.Name), "assignment target")
            v, ty = ex(s.value, env)
            return f"let {ln(t.id)} := {v}\n{sp}" + loop_body(rest, {**env, t.id: (ln(t.id), ty)}, carried, indent)
        if is_yield(s):
            return f"let ys := ys ++ [{yielded(s, env)}]\n{sp}" + loop_body(rest, env, carried, indent)
        if isinstance(s, ast.If):
            need(not s.orelse, "else in the loop body")
            if len(s.body) == 1 and isinstance(s.body[0], ast.Break):
                return branch(s.test, env, lambda e: loop_body(s.body, e, carried, indent + 1),
                              lambda e: loop_body(rest, e, carried, indent + 1), indent)
            if len(s.body) == 1 and is_yield(s.body[0]):
                return (f"let ys := ys ++ (if {truthy(s.test, env)} then [{yielded(s.body[0], env)}] else [])\n{sp}"
                        + loop_body(rest, env, carried, indent))
        raise U("loop statement " + unp(s)[:40])

    def optimal_split():
        fn = find_func(util, "_optimal_split")
        no_decorators(fn); no_nested_scopes(fn)
        ps = params_of(fn)
        need(len(ps) == 2 and all(d is None for _, d in ps) and sorted(p for p, _ in ps) == ["data", "pattern"], "parameters of _optimal_split")
        body = strip_doc(fn.body)
        need(len(body) == 2 and isinstance(body[0], ast.While) and not body[0].orelse, "expected `while ...:` then one statement")
        w, tail = body
        need(isinstance(w.test, ast.Name) and w.test.id == "data", "loop condition is not the carried byte string")
        env = {"data": ("data", "bytes"), "pattern": ("pattern", "pat")}
        for n in ast.walk(w):
            if isinstance(n, ast.Name) and isinstance(n.ctx, ast.Store):
                need(n.id != "pattern", "pattern is reassigned")
        cond = truthy(w.test, env)
        lb = loop_body(w.body, env, "data", 1)
        need(isinstance(tail, ast.If) and not tail.orelse and len(tail.body) == 1 and is_yield(tail.body[0]), "statement after the loop")
        after = f"let ys := ys ++ (if {truthy(tail.test, env)} then [{yielded(tail.body[0], env)}] else [])"
        sig = " ".join(f"({ln(p)} : {'List Nat' if p == 'data' else 'sg_Pat'})" for p, _ in ps)
        SIG["_optimal_split"] = ("sg_optimal_split", ps)
        DONE.add("sg_optimal_split")
        return (f"/-- `_optimal_split`: the condition of `while data:` -/\n"
                f"def sg_split_cond (data : List Nat) : Bool := {cond}\n"
                f"/-- one pass through the body of `while data:`: (left by `break`?, `data` afterwards, values yielded) -/\n"
                f"def sg_split_body {{ε : Type}} (py : sg_Py ε) (pattern : sg_Pat) (data : List Nat) : Bool × List Nat × List (Bool × List Nat) :=\n"
                f"  let ys : List (Bool × List Nat) := []\n  {lb}\n"
                f"/-- the `while` loop with `fuel` iterations granted: (`data` at exit, values yielded) -/\n"
                f"def sg_split_loop {{ε : Type}} (py : sg_Py ε) (pattern : sg_Pat) : Nat → List Nat → List Nat × List (Bool × List Nat)\n"
                f"  | 0, data => (data, [])\n"
                f"  | fuel + 1, data =>\n"
                f"    if sg_split_cond data then\n"
                f"      match sg_split_body py pattern data with\n"
                f"      | (true, data, ys) => (data, ys)\n"
                f"      | (false, data, ys) => ((sg_split_loop py pattern fuel data).1, ys ++ (sg_split_loop py pattern fuel data).2)\n"
                f"    else (data, [])\n"
                f"/-- `util._optimal_split` as the list of yielded pairs -/\n"
                f"def sg_optimal_split {{ε : Type}} (py : sg_Py ε) {sig} : List (Bool × List Nat) :=\n"
                f"  let r := sg_split_loop py pattern (py.fuel data) data\n"
                f"  let data := r.1\n  let ys := r.2\n  {after}\n  ys")

    # =================================================================================================================
    # optimal_data_chunks: pattern construction + nested generator loops
    # =================================================================================================================
    def gen_block(stmts, env, indent):
        """statements of a generator body -> term of type Except ε (List sg_QRData)"""
        sp = "  " * indent
        need(stmts, "empty generator block")
        s, rest = stmts[0], stmts[1:]
        if isinstance(s, ast.Assign):
            need(len(s.targets) == 1 and isinstance(s.targets[0], ast.Name) and rest, "assignment in generator")
            v, ty = ex(s.value, env)
            n = s.targets[0].id
            return f"let {ln(n)} := {v}\n{sp}" + gen_block(rest, {**env, n: (ln(n), ty)}, indent)
        if is_yield(s):
            t, ty, m = mex(s.value.value, env)
            need(ty == "qrdata" and m, "yields a " + ty)
            one = f"({t} >>= fun q => pure [q])"
        elif isinstance(s, ast.If):
            need(s.orelse, "one-armed if in generator")
            one = "(" + branch(s.test, env, lambda e: gen_block(s.body, e, indent + 1), lambda e: gen_block(s.orelse, e, indent + 1), indent) + ")"
        elif isinstance(s, ast.For):
            need(not s.orelse and isinstance(s.target, ast.Tuple) and len(s.target.elts) == 2 and all(isinstance(x, ast.Name) for x in s.target.elts),
                 "for target")
            a, b = (x.id for x in s.target.elts)
            need(a != b, "for target repeats a name")
            it, ty = ex(s.iter, env)
            need(ty == "chunks", "loop over a " + ty)
            e2 = {**env, a: (ln(a), "bool"), b: (ln(b), "bytes")}
            one = (f"(sg_for_yield {it} (fun (x : Bool × List Nat) =>\n{sp}  let {ln(a)} := x.1\n{sp}  let {ln(b)} := x.2\n{sp}  "
                   + gen_block(s.body, e2, indent + 1) + "))")
        else:
            raise U("generator statement " + unp(s)[:40])
        if not rest:
            return one
        return f"{one} >>= fun ys1 =>\n{sp}({gen_block(rest, env, indent)}) >>= fun ys2 => pure (ys1 ++ ys2)"

    def optimal_data_chunks():
        need({"sg_optimal_split", "sg_qrdata_init", "sg_to_bytestring"} <= DONE, "callees untranslated")
        fn = find_func(util, "optimal_data_chunks")
        no_decorators(fn); no_nested_scopes(fn)
        ps = params_of(fn)
        need([p for p, _ in ps] == ["data", "minimum"] and ps[0][1] is None, "parameters of optimal_data_chunks")
        dflt = ps[1][1]
        need(isinstance(dflt, ast.Constant) and isinstance(dflt.value, int) and not isinstance(dflt.value, bool) and dflt.value >= 0, "default of minimum")
        env = {"data": ("data", "bytes"), "minimum": ("minimum", "nat")}
        penv = {}
        lines = []
        body = strip_doc(fn.body)
        i = 0
        # 1. plain assignments up to the pattern `if`
        while i < len(body) and isinstance(body[i], ast.Assign):
            s = body[i]
            need(len(s.targets) == 1 and isinstance(s.targets[0], ast.Name), "assignment target")
            n = s.targets[0].id
            try:
                toks = pat_tokens(s.value, penv, env)
                penv[n] = ("raw", toks)
                env.pop(n, None)
            except U:
                if penv and any(isinstance(x, ast.Call) and unp(x.func) in ("_optimal_split",) for x in ast.walk(s.value)):
                    break
                v, ty = ex(s.value, env)
                lines.append(f"let {ln(n)} := {v}")
                env[n] = (ln(n), ty)
                penv.pop(n, None)
            i += 1
        need(i < len(body) and isinstance(body[i], ast.If), "expected the `if len(data) <= minimum` pattern choice")
        choice = body[i]
        i += 1
        cond = truthy(choice.test, env)

        def pat_branch(stmts):
            pe = dict(penv)
            for s in stmts:
                need(isinstance(s, ast.Assign) and len(s.targets) == 1 and isinstance(s.targets[0], ast.Name), "pattern branch statement")
                n = s.targets[0].id
                need(n not in env, f"{n} is also a value variable")
                if isinstance(s.value, ast.Call) and unp(s.value.func) == "re.compile":
                    pe[n] = ("pat", compiled(s.value, pe, env))
                else:
                    pe[n] = ("raw", pat_tokens(s.value, pe, env))
            return pe
        need(choice.orelse, "pattern choice without else")
        p1, p2 = pat_branch(choice.body), pat_branch(choice.orelse)
        pats = sorted(n for n in set(p1) | set(p2) if (p1.get(n, ("",))[0] == "pat" or p2.get(n, ("",))[0] == "pat"))
        for n in pats:
            need(n in p1 and n in p2 and p1[n][0] == "pat" and p2[n][0] == "pat", f"{n} is compiled in one branch only")
            lines.append(f"let {ln(n)} := if {cond} then {p1[n][1]} else {p2[n][1]}")
            env[n] = (ln(n), "pat")
        # 2. the rest: assignments of generators and the loops
        rest = body[i:]
        while rest and isinstance(rest[0], ast.Assign):
            s = rest[0]
            need(len(s.targets) == 1 and isinstance(s.targets[0], ast.Name), "assignment target")
            v, ty = ex(s.value, env)
            n = s.targets[0].id
            lines.append(f"let {ln(n)} := {v}")
            env[n] = (ln(n), ty)
            rest = rest[1:]
        final = gen_block(rest, env, 1)
        SIG["optimal_data_chunks"] = ("sg_optimal_data_chunks", ps)
        DONE.add("sg_optimal_data_chunks")
        return (f"def sg_optimal_data_chunks_default_minimum : Nat := {dflt.value}\n"
                f"/-- `util.optimal_data_chunks(data, minimum)` as the list of yielded QRData objects -/\n"
                f"def sg_optimal_data_chunks {{ε : Type}} (py : sg_Py ε) (data : List Nat) (minimum : Nat) : Except ε (List sg_QRData) :=\n  "
                + "\n  ".join(lines) + "\n  " + final)

    # =================================================================================================================
    # QRCode.add_data
    # =================================================================================================================
    def add_data():
        need({"sg_optimal_data_chunks", "sg_qrdata_init"} <= DONE, "callees untranslated")
        fn = find_func(main, "QRCode.add_data")
        no_decorators(fn); no_nested_scopes(fn)
        ps = params_of(fn, skip_self=True)
        need([p for p, _ in ps] == ["data", "optimize"] and ps[0][1] is None, "parameters of add_data")
        dflt = ps[1][1]
        need(isinstance(dflt, ast.Constant) and isinstance(dflt.value, int) and not isinstance(dflt.value, bool) and dflt.value >= 0, "default of optimize")
        imp = [s for s in main.body if isinstance(s, ast.ImportFrom) and any((a.asname or a.name) == "util" for a in s.names)]
        need(len(imp) == 1 and imp[0].module == "qrcode" and [a.name for a in imp[0].names if (a.asname or a.name) == "util"] == ["util"],
             "`util` is not qrcode.util")
        env = {"data": ("data", "arg"), "optimize": ("optimize", "nat"),
               "self.data_list": ("self_data_list", "qrlist"), "self.data_cache": ("self_data_cache", "cache")}

        def k(e):
            need("#return" not in e, "add_data returns a value")
            need(e["self.data_list"][1] == "qrlist" and e["self.data_cache"][1] in ("cache", "none"), "state types")
            extra = [n for n in e if n.startswith("self.") and n not in ("self.data_list", "self.data_cache")]
            need(not extra, "further attributes " + ", ".join(extra))
            return f"pure ({e['self.data_list'][0]}, {e['self.data_cache'][0]})"
        body = block(strip_doc(fn.body), env, k, 1, True)
        return (f"def sg_add_data_default_optimize : Nat := {dflt.value}\n"
                "/-- `QRCode.add_data(self, data, optimize)`: `data` is a QRData object (`.inl`) or a byte string (`.inr`);\n"
                "    the result is (`self.data_list`, `self.data_cache`) afterwards -/\n"
                "def sg_add_data {ε κ : Type} (py : sg_Py ε) (self_data_list : List sg_QRData) (self_data_cache : Option κ)\n"
                "    (data : sg_QRData ⊕ List Nat) (optimize : Nat) : Except ε (List sg_QRData × Option κ) :=\n  " + body)

    api.emit("sg_prelude", prelude)
    api.emit("sg_to_bytestring", to_bytestring)
    api.emit("sg_optimal_mode", optimal_mode)
    api.emit("sg_qrdata_init", qrdata_init)
    api.emit("sg_optimal_split", optimal_split)
    api.emit("sg_optimal_data_chunks", optimal_data_chunks)
    api.emit("sg_add_data", add_data)
