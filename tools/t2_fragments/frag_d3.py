"""T2 fragments, package D3: `util._lost_point_level3` COMPLETE and `util.lost_point` (the sum of the four levels).

Everything printed below comes from the AST of the current source; what is fixed text is only the *semantics* of the Python
constructs (documented here, pinned by the bridge theorems of lean/QR/Proofs/SourceTieD3.lean):

  * `R = range(e)`            -> `l3f_range<i>_stop (modules_count : Nat) : Int := <e over Int>`; the range is
                                 `List.range stop.toNat` (empty for a stop <= 0).  A subtraction is never translated over Nat.
  * `for o in R: <prologue>; for x in it: <body>`  with `it = iter(R')` created in the prologue  -> `l3f_pass`:
        a fold of the outer variable over range R, the inner loop being the state machine `l3f_iter_run` over the POSITION of
        the iterator `it`: the `for` takes the item `x = pos` and leaves the iterator at `pos + 1` (`let it_pos := (x + 1)`),
        every `next(it, None)` in the body advances it once more (`let it_pos := (it_pos + 1)`; on an exhausted iterator
        `next(it, None)` does nothing - a position >= stop is terminal either way), and the loop ends when `pos >= stop`.
  * a list of Booleans is a function `Nat -> Bool`, the matrix a function `Nat -> Nat -> Bool`:  `modules[a][b]` ->
    `(modules a b)`; an alias `this_row = modules[e]` made in the prologue is inlined: `this_row[b]` -> `(modules e b)`.
    Index arithmetic is translated from the AST (`+`, `*`, constants, the two loop variables), so a transposition
    (`modules[col][row + 10]`) or an off-by-one changes the generated term.  Truthiness of a cell = the cell.
  * `lost_point += k` -> `let lost_point := (lost_point + k)`.
  * `lost_point(modules)`: `len`, the four callees are PARAMETERS of the generated function (named `py<callee>`, in sorted order
    of the distinct callee names), the statements become nested `let`s in source order.

Shape checks (anything else -> Untranslatable): signature, statement count / order / kind at every level, loop targets, the
iterator that `for` and `next` use is the one created by `iter(...)` in the same outer body, the dead store `col = 0` targets the
inner loop variable, the returned name is the accumulator.
Generated names all start with `l3f_`.
"""
import ast
import json
import re


def fragments(api):
    Untranslatable = api.Untranslatable
    find_func, strip_doc = api.find_func, api.strip_doc
    util = api.trees["util"]

    def is_name(node, ident=None):
        return isinstance(node, ast.Name) and (ident is None or node.id == ident)

    def int_const(node):
        if isinstance(node, ast.Constant) and not isinstance(node.value, bool) and isinstance(node.value, int) and node.value >= 0:
            return node.value
        return None

    def single_target(s):
        if isinstance(s, ast.Assign) and len(s.targets) == 1 and isinstance(s.targets[0], ast.Name):
            return s.targets[0].id
        return None

    def plain_call(node, fname, nargs):
        return (isinstance(node, ast.Call) and is_name(node.func, fname) and len(node.args) == nargs and not node.keywords
                and not any(isinstance(a, ast.Starred) for a in node.args))

    # -------------------------------------------------------------------------------------------------------- expressions
    def nat(node, env):
        """index arithmetic over Nat: constants, bound names, + and *"""
        c = int_const(node)
        if c is not None:
            return str(c)
        if isinstance(node, ast.Name):
            if node.id in env:
                return env[node.id]
            raise Untranslatable("free name " + node.id)
        if isinstance(node, ast.BinOp) and isinstance(node.op, (ast.Add, ast.Mult)):
            op = "+" if isinstance(node.op, ast.Add) else "*"
            return f"({nat(node.left, env)} {op} {nat(node.right, env)})"
        raise Untranslatable("Nat expression " + ast.unparse(node)[:60])

    def int_expr(node, env):
        """range bounds over Int: constants, bound names (cast), + - *"""
        c = int_const(node)
        if c is not None:
            return f"({c} : Int)"
        if isinstance(node, ast.Name):
            if node.id in env:
                return f"({env[node.id]} : Int)"
            raise Untranslatable("free name " + node.id)
        if isinstance(node, ast.BinOp) and isinstance(node.op, (ast.Add, ast.Sub, ast.Mult)):
            op = {ast.Add: "+", ast.Sub: "-", ast.Mult: "*"}[type(node.op)]
            return f"({int_expr(node.left, env)} {op} {int_expr(node.right, env)})"
        if isinstance(node, ast.UnaryOp) and isinstance(node.op, ast.USub):
            return f"(-{int_expr(node.operand, env)})"
        raise Untranslatable("Int expression " + ast.unparse(node)[:60])

    def cell(node, env, aliases, mat):
        if isinstance(node, ast.Subscript):
            v = node.value
            if isinstance(v, ast.Name) and v.id in aliases:
                return f"({mat} {aliases[v.id]} {nat(node.slice, env)})"
            if isinstance(v, ast.Subscript) and is_name(v.value, mat):
                return f"({mat} {nat(v.slice, env)} {nat(node.slice, env)})"
        raise Untranslatable("condition " + ast.unparse(node)[:60])

    def boolean(node, env, aliases, mat):
        if isinstance(node, ast.BoolOp):
            op = " && " if isinstance(node.op, ast.And) else " || "
            return "(" + op.join(boolean(v, env, aliases, mat) for v in node.values) + ")"
        if isinstance(node, ast.UnaryOp) and isinstance(node.op, ast.Not):
            return f"(!{boolean(node.operand, env, aliases, mat)})"
        return cell(node, env, aliases, mat)

    # --------------------------------------------------------------------------------------------------------- statements
    def block(stmts, final, acc, itname, env, aliases, mat):
        """inner-loop body -> Lean term ending in `final`; loop-carried: `it_pos`, the accumulator"""
        if not stmts:
            return final
        s, rest = stmts[0], stmts[1:]
        go = lambda ss: block(ss, final, acc, itname, env, aliases, mat)
        if isinstance(s, ast.Continue):
            return final
        if isinstance(s, ast.AugAssign) and isinstance(s.op, ast.Add) and is_name(s.target, acc):
            return f"let {acc} := ({acc} + {nat(s.value, dict(env, **{acc: acc}))}); {go(rest)}"
        if isinstance(s, ast.If):
            return (f"if {boolean(s.test, env, aliases, mat)} then ({go(list(s.body) + rest)}) "
                    f"else ({go(list(s.orelse) + rest)})")
        if isinstance(s, ast.Expr) and isinstance(s.value, ast.Call) and is_name(s.value.func, "next"):
            c = s.value
            if not (len(c.args) == 2 and not c.keywords and is_name(c.args[0], itname)
                    and isinstance(c.args[1], ast.Constant) and c.args[1].value is None):
                raise Untranslatable("next() call " + ast.unparse(s)[:50])
            return f"let it_pos := (it_pos + 1); {go(rest)}"
        raise Untranslatable("statement " + ast.unparse(s)[:50])

    # =====================================================================================================================
    # _lost_point_level3
    # =====================================================================================================================
    def level3():
        fn = find_func(util, "_lost_point_level3")
        a = fn.args
        if [x.arg for x in a.args] != ["modules", "modules_count"] or a.vararg or a.kwarg or a.kwonlyargs or a.defaults \
                or a.posonlyargs or fn.decorator_list:
            raise Untranslatable("signature of _lost_point_level3")
        mat, cnt = "modules", "modules_count"
        body = strip_doc(fn.body)
        if len(body) != 6:
            raise Untranslatable(f"{len(body)} top-level statements (expected: range, range, init, for, for, return)")
        # ---- the two ranges
        ranges, out = {}, []
        for i in (0, 1):
            v = single_target(body[i])
            if v is None or not plain_call(body[i].value, "range", 1) or v in ranges or v in (mat, cnt):
                raise Untranslatable("statement %d is not `<name> = range(<e>)`" % i)
            ranges[v] = i
            out.append(f"def l3f_range{i}_stop ({cnt} : Nat) : Int := {int_expr(body[i].value.args[0], {cnt: cnt})}")
        # ---- accumulator
        acc = single_target(body[2])
        if acc is None or int_const(body[2].value) is None or acc in ranges or acc in (mat, cnt):
            raise Untranslatable("statement 2 is not `<acc> = <const>`")
        out.append(f"def l3f_init : Nat := {int_const(body[2].value)}")
        if not (isinstance(body[5], ast.Return) and is_name(body[5].value, acc)):
            raise Untranslatable("last statement is not `return " + acc + "`")
        names = [f"range0={list(ranges)[0]}", f"range1={list(ranges)[1]}", f"acc={acc}"]
        # ---- the two passes
        passes = []
        for tag, outer in (("row", body[3]), ("col", body[4])):
            if not (isinstance(outer, ast.For) and not outer.orelse and is_name(outer.target) and is_name(outer.iter)
                    and outer.iter.id in ranges):
                raise Untranslatable(tag + " pass: not `for <v> in <range name>`")
            ov = outer.target.id
            if not outer.body or not isinstance(outer.body[-1], ast.For):
                raise Untranslatable(tag + " pass: the outer body does not end with the inner loop")
            inner, prologue = outer.body[-1], outer.body[:-1]
            if inner.orelse or not is_name(inner.target) or not is_name(inner.iter):
                raise Untranslatable(tag + " pass: inner loop shape")
            iv = inner.target.id
            reserved = {mat, cnt, acc, "it_pos"} | set(ranges)
            if ov == iv or ov in reserved or iv in reserved:
                raise Untranslatable(tag + " pass: loop variables " + ov + ", " + iv)
            aliases, itname, itrange, dead, kinds = {}, None, None, None, []
            for s in prologue:
                v = single_target(s)
                if v is None or v in reserved or v == ov:
                    raise Untranslatable(tag + " pass: prologue statement " + ast.unparse(s)[:50])
                if isinstance(s.value, ast.Subscript) and is_name(s.value.value, mat) and v not in aliases and v != iv and v != itname:
                    aliases[v] = nat(s.value.slice, {ov: ov})
                    kinds.append("alias " + v)
                elif plain_call(s.value, "iter", 1) and is_name(s.value.args[0]) and s.value.args[0].id in ranges \
                        and itname is None and v != iv and v not in aliases:
                    itname, itrange = v, ranges[s.value.args[0].id]
                    kinds.append("iter " + v)
                elif v == iv and int_const(s.value) is not None and dead is None:
                    dead = int_const(s.value)        # `col = 0` before `for col in ...`: overwritten by the loop, never read
                    kinds.append("init " + v)
                else:
                    raise Untranslatable(tag + " pass: prologue statement " + ast.unparse(s)[:50])
            if itname is None or inner.iter.id != itname:
                raise Untranslatable(tag + " pass: the inner loop does not run over the iterator made by iter(...)")
            env = {ov: ov, iv: iv}
            term = block(list(inner.body), f"(it_pos, {acc})", acc, itname, env, aliases, mat)
            out.append(f"def l3f_{tag}_prologue : List String := [{', '.join(json.dumps(k) for k in kinds)}]")
            if dead is not None:
                out.append(f"def l3f_{tag}_dead_init : Nat := {dead}")
            out.append(f"def l3f_{tag}_step ({mat} : Nat → Nat → Bool) ({ov} {iv} : Nat) ({acc} : Nat) : Nat × Nat :=\n"
                       f"  let it_pos := ({iv} + 1); {term}")
            passes.append((tag, ranges[outer.iter.id], itrange))
            names += [f"{tag}.outer={ov}", f"{tag}.inner={iv}", f"{tag}.iter={itname}"]
        out.append(f"def l3f_names : List String := [{', '.join(json.dumps(k) for k in names)}]")
        # ---- fixed semantics of the constructs + the function assembled in statement order
        out.append("/-- `for x in it: body` over `it = iter(range(stop))` as a state machine over the iterator position "
                   "(see the plugin's header) -/\n"
                   "def l3f_iter_run (stop : Nat) (step : Nat → Nat → Nat × Nat) : Nat → Nat → Nat → Nat\n"
                   "  | 0, _, acc => acc\n"
                   "  | fuel + 1, pos, acc => if pos < stop then l3f_iter_run stop step fuel (step pos acc).1 (step pos acc).2 else acc")
        out.append("/-- `for o in range(outer_stop): it = iter(range(inner_stop)); for x in it: step o x` -/\n"
                   "def l3f_pass (outer_stop inner_stop : Int) (step : Nat → Nat → Nat → Nat × Nat) (acc : Nat) : Nat :=\n"
                   "  (List.range outer_stop.toNat).foldl (fun acc o => l3f_iter_run inner_stop.toNat (step o) inner_stop.toNat 0 acc) acc")
        lines = [f"let {acc} := l3f_init"]
        for tag, ro, ri in passes:
            lines.append(f"let {acc} := l3f_pass (l3f_range{ro}_stop {cnt}) (l3f_range{ri}_stop {cnt}) (l3f_{tag}_step {mat}) {acc}")
        out.append(f"def l3f_level3 ({mat} : Nat → Nat → Bool) ({cnt} : Nat) : Nat :=\n  " + "\n  ".join(lines) + f"\n  {acc}")
        return "\n".join(out)
    api.emit("l3f_level3", level3)

    # =====================================================================================================================
    # lost_point
    # =====================================================================================================================
    def lost_point():
        fn = find_func(util, "lost_point")
        a = fn.args
        if [x.arg for x in a.args] != ["modules"] or a.vararg or a.kwarg or a.kwonlyargs or a.defaults or a.posonlyargs \
                or fn.decorator_list:
            raise Untranslatable("signature of lost_point")
        body = strip_doc(fn.body)
        if len(body) < 2 or not isinstance(body[-1], ast.Return) or not is_name(body[-1].value):
            raise Untranslatable("lost_point does not end with `return <name>`")
        types = {"modules": "α"}            # Python name -> "α" (the matrix) | "Nat"
        lets, callees = [], []

        def call(node):
            if not (isinstance(node, ast.Call) and is_name(node.func) and re.fullmatch(r"_lost_point_level\d+", node.func.id)
                    and len(node.args) == 2 and not node.keywords and all(is_name(x) for x in node.args)):
                raise Untranslatable("call " + ast.unparse(node)[:60])
            x, y = node.args[0].id, node.args[1].id
            if types.get(x) != "α" or types.get(y) != "Nat":
                raise Untranslatable("argument types of " + ast.unparse(node)[:60])
            callees.append(node.func.id)
            return f"(py{node.func.id} {x} {y})"

        for s in body[:-1]:
            v = single_target(s)
            if v is not None and v != "modules":
                if plain_call(s.value, "len", 1) and is_name(s.value.args[0]) and types.get(s.value.args[0].id) == "α":
                    e = f"(len {s.value.args[0].id})"
                elif int_const(s.value) is not None:
                    e = str(int_const(s.value))
                else:
                    e = call(s.value)
                if types.get(v, "Nat") != "Nat":
                    raise Untranslatable("assignment to " + v)
                types[v] = "Nat"
                lets.append(f"let {v} := {e}")
            elif isinstance(s, ast.AugAssign) and isinstance(s.op, ast.Add) and is_name(s.target) and types.get(s.target.id) == "Nat":
                v = s.target.id
                e = str(int_const(s.value)) if int_const(s.value) is not None else call(s.value)
                lets.append(f"let {v} := ({v} + {e})")
            else:
                raise Untranslatable("statement " + ast.unparse(s)[:50])
        ret = body[-1].value.id
        if types.get(ret) != "Nat":
            raise Untranslatable("returned name " + ret)
        params = " ".join("py" + c for c in sorted(set(callees)))
        if not params:
            raise Untranslatable("no callee")
        return (f"def l3f_lost_point_callees : List String := [{', '.join(json.dumps(c) for c in callees)}]\n"
                f"def l3f_lost_point {{α : Type}} (len : α → Nat) ({params} : α → Nat → Nat) (modules : α) : Nat :=\n  "
                + "\n  ".join(lets) + f"\n  {ret}")
    api.emit("l3f_lost_point", lost_point)
