"""T2 fragments, list C.

C1  QRCode.map_data complete (this section); the sections C2..C7 below are independent closures (`_c2` ... `_c7`), each
    self-contained, run one after the other by `fragments(api)`.

Every emitter reads the Python AST of the current source and prints Lean definitions (namespace QR.Gen.Code); every structural
assumption about the surrounding statements is checked, otherwise the fragment is Untranslatable.
"""
import ast
import json


# =========================================================================================================================
# C1  qrcode/main.py  QRCode.map_data
# =========================================================================================================================
def _c1(api):
    Tr, U = api.Tr, api.Untranslatable
    find_func, strip_doc = api.find_func, api.strip_doc
    main = api.trees["main"]

    BITOPS = {ast.LShift: "<<<", ast.RShift: ">>>", ast.BitOr: "|||", ast.BitAnd: "&&&", ast.BitXor: "^^^"}
    CMP = {ast.Eq: "=", ast.NotEq: "≠", ast.Lt: "<", ast.LtE: "≤", ast.Gt: ">", ast.GtE: "≥"}

    def need(cond, why):
        if not cond:
            raise U(why)

    def unp(node):
        return ast.unparse(node)

    class TrS(Tr):
        """Int expressions over the loop state; bit operators are evaluated over Nat (`x >> k` -> `x >>> k.toNat`: Python
        raises for k < 0, the bridging proof shows 0 <= k); `data[e]` -> `(dataAt e)` : Nat; `mask_func(a, b)` -> `(maskf a b)`;
        Bool-valued local variables are looked up in `bools`."""

        def __init__(self, env, bools=None, data=None, maskvar=None):
            Tr.__init__(self, dict(env), "Int")
            self.bools, self.data, self.maskvar = dict(bools or {}), data, maskvar

        def is_bits(self, node):
            return isinstance(node, ast.BinOp) and type(node.op) in BITOPS

        def nat(self, node):
            if isinstance(node, ast.Constant) and type(node.value) is int and node.value >= 0:
                return str(node.value)
            if isinstance(node, ast.Name) and node.id in self.env:
                return f"({self.env[node.id]}).toNat"
            if isinstance(node, ast.Subscript) and isinstance(node.value, ast.Name) and node.value.id == self.data \
                    and not isinstance(node.slice, ast.Slice):
                return f"(dataAt {self.num(node.slice)})"
            if self.is_bits(node):
                return f"({self.nat(node.left)} {BITOPS[type(node.op)]} {self.nat(node.right)})"
            raise U("operand of a bit operator: " + unp(node)[:40])

        def num(self, node):
            if self.is_bits(node):
                return f"((({self.nat(node)}) : Nat) : Int)"
            if isinstance(node, ast.Subscript):
                return f"((({self.nat(node)}) : Nat) : Int)"
            if isinstance(node, ast.Name) and node.id in self.bools:
                raise U("Boolean variable used as a number: " + node.id)
            return Tr.num(self, node)

        def boolean(self, node):
            if isinstance(node, ast.Compare) and len(node.ops) == 1 and type(node.ops[0]) in CMP \
                    and (self.is_bits(node.left) or self.is_bits(node.comparators[0])):
                return f"decide ({self.nat(node.left)} {CMP[type(node.ops[0])]} {self.nat(node.comparators[0])})"
            if isinstance(node, ast.Call) and isinstance(node.func, ast.Name) and node.func.id == self.maskvar \
                    and len(node.args) == 2 and not node.keywords:
                return f"(maskf {self.num(node.args[0])} {self.num(node.args[1])})"
            if isinstance(node, ast.Name) and node.id in self.bools:
                return self.bools[node.id]
            if isinstance(node, ast.Name) and node.id in self.env:
                return f"decide ({self.env[node.id]} ≠ 0)"
            return Tr.boolean(self, node)

    def target_value(s):
        """`v = e` / `v op= e` -> (v, expression node of the stored value)"""
        if isinstance(s, ast.Assign) and len(s.targets) == 1 and isinstance(s.targets[0], ast.Name):
            return s.targets[0].id, s.value
        if isinstance(s, ast.AugAssign) and isinstance(s.target, ast.Name):
            return s.target.id, ast.BinOp(left=ast.Name(id=s.target.id, ctx=ast.Load()), op=s.op, right=s.value)
        raise U("statement " + unp(s)[:50])

    def assigned(stmts):
        out = []
        for s in stmts:
            if isinstance(s, ast.If):
                vs = assigned(s.body) + assigned(s.orelse)
            else:
                vs = [target_value(s)[0]]
            for v in vs:
                if v not in out:
                    out.append(v)
        return out

    def tuple_of(vs):
        return vs[0] if len(vs) == 1 else "(" + ", ".join(vs) + ")"

    def proj(t, k, n):
        """k-th component of the right-nested n-tuple t"""
        return t + ".2" * k + (".1" if k < n - 1 else "")

    def block(stmts, tr, kinds, depth=0):
        """straight-line code (`v = e`, `v op= e`, `if c: ... else: ...`) over the variables of `kinds` (name -> Int | Bool):
        a chain of sequential `let`s (without the final result)"""
        text = ""
        for s in stmts:
            if isinstance(s, ast.If):
                mod = assigned(s.body) + [v for v in assigned(s.orelse) if v not in assigned(s.body)]
                need(mod and all(v in kinds for v in mod), "branch assigns " + str(mod))
                cond = tr.boolean(s.test)
                then = block(s.body, tr, kinds, depth + 1) + tuple_of(mod)
                els = block(s.orelse, tr, kinds, depth + 1) + tuple_of(mod)
                if len(mod) == 1:
                    text += f"let {mod[0]} := (if {cond} then ({then}) else ({els})); "
                else:
                    t = f"t{depth}"
                    text += f"let {t} := (if {cond} then ({then}) else ({els})); "
                    text += "".join(f"let {v} := {proj(t, k, len(mod))}; " for k, v in enumerate(mod))
                continue
            v, val = target_value(s)
            need(v in kinds, "assignment of the unexpected variable " + v)
            rhs = tr.num(val) if kinds[v] == "Int" else tr.boolean(val)
            text += f"let {v} : {kinds[v]} := {rhs}; "
        return text

    def cell(node, tr):
        """`self.modules[R][C]` -> (R, C)"""
        need(isinstance(node, ast.Subscript) and isinstance(node.value, ast.Subscript) and unp(node.value.value) == "self.modules"
             and not isinstance(node.slice, ast.Slice) and not isinstance(node.value.slice, ast.Slice),
             "not a module cell: " + unp(node)[:40])
        return f"({tr.num(node.value.slice)}, {tr.num(node.slice)})"

    STATE = ["inc", "row", "bitIndex", "byteIndex"]

    def map_data():
        fn = find_func(main, "QRCode.map_data")
        params = [a.arg for a in fn.args.args]
        need(len(params) == 3 and params[0] == "self" and not fn.args.defaults and not fn.args.kwonlyargs
             and fn.args.vararg is None and fn.args.kwarg is None, "signature of map_data")
        _, data, maskp = params
        body = strip_doc(fn.body)
        need(len(body) >= 2 and isinstance(body[-1], ast.For) and not body[-1].orelse, "shape: assignments ; for")
        ints, aux = [], []
        lenvar = maskvar = None
        for s in body[:-1]:
            need(isinstance(s, ast.Assign) and len(s.targets) == 1 and isinstance(s.targets[0], ast.Name),
                 "statement before the column loop: " + unp(s)[:50])
            v = s.targets[0].id
            if isinstance(s.value, ast.Call):
                c = s.value
                need(len(c.args) == 1 and not c.keywords, "auxiliary call " + unp(c)[:40])
                if unp(c.func) == "len" and unp(c.args[0]) == data and lenvar is None:
                    lenvar = v
                elif unp(c.func).endswith("mask_func") and unp(c.args[0]) == maskp and maskvar is None:
                    maskvar = v
                else:
                    raise U("auxiliary call " + unp(c)[:40])
                aux.append((v, unp(c)))
            else:
                ints.append(s)
        need(lenvar is not None and maskvar is not None, "no `x = len(data)` / `f = util.mask_func(mask_pattern)`")
        need(sorted(assigned(ints)) == sorted(STATE) and len(ints) == len(STATE),
             "state variables " + str(assigned(ints)) + ", expected " + str(STATE))
        kinds = {v: "Int" for v in STATE}
        tr0 = TrS({"self.modules_count": "n"})
        for v in STATE:                       # an initial value may mention an earlier one
            pass
        tr_init = TrS({"self.modules_count": "n"})
        init_text = ""
        for s in ints:
            v, val = target_value(s)
            init_text += f"let {v} : Int := {tr_init.num(val)}; "
            tr_init.env[v] = v
        out = [f"def map_init (n : Int) : Int × Int × Int × Int := {init_text}{tuple_of(STATE)}",
               "def map_aux_calls : List (String × String) := [" + ", ".join(f"({json.dumps(a)}, {json.dumps(b)})" for a, b in aux) + "]"]

        # ---- the column loop
        loop = body[-1]
        need(isinstance(loop.target, ast.Name), "column loop target")
        col = loop.target.id
        need(col not in STATE and col != lenvar, "column variable")
        need(len(loop.body) >= 1 and isinstance(loop.body[-1], ast.While) and not loop.body[-1].orelse, "column loop does not end in `while`")
        wl = loop.body[-1]
        need(isinstance(wl.test, ast.Constant) and wl.test.value is True, "inner loop is not `while True`")
        pre, tuples = [], {}
        for s in loop.body[:-1]:
            if isinstance(s, ast.Assign) and len(s.targets) == 1 and isinstance(s.targets[0], ast.Name) \
                    and isinstance(s.value, (ast.Tuple, ast.List)):
                need(s is loop.body[-2], "the tuple of columns is not assigned immediately before the `while`")
                tuples[s.targets[0].id] = s.value
            else:
                pre.append(s)
        trc = TrS({"self.modules_count": "n", col: col})
        need(all(v == col for v in assigned(pre)), "column loop prelude assigns " + str(assigned(pre)))
        out.append(f"def map_col_pre (n col : Int) : Int := {block(pre, trc, {col: 'Int'})}{col}")

        # ---- while True: for c in <cols>: ... ; <row update> ; if <exit>: ... break
        wb = wl.body
        need(len(wb) >= 2 and isinstance(wb[0], ast.For) and not wb[0].orelse and isinstance(wb[0].target, ast.Name)
             and isinstance(wb[-1], ast.If) and not wb[-1].orelse, "shape of the `while True` body")
        inner, mid, ex = wb[0], wb[1:-1], wb[-1]
        c = inner.target.id
        need(c not in STATE and c not in (col, lenvar), "inner loop variable")
        it = inner.iter
        if isinstance(it, ast.Name) and it.id in tuples:
            it = tuples[it.id]
        else:
            need(not tuples, "unused tuple assignment before the `while`")
        if isinstance(it, (ast.Tuple, ast.List)):
            need(not any(isinstance(e, ast.Starred) for e in it.elts), "starred element")
            cvals = [trc.num(e) for e in it.elts]
        elif isinstance(it, ast.Call) and unp(it.func) == "range" and len(it.args) == 1 and not it.keywords \
                and isinstance(it.args[0], ast.Constant) and type(it.args[0].value) is int and 0 <= it.args[0].value <= 8:
            cvals = [str(k) for k in range(it.args[0].value)]
        else:
            raise U("inner loop iterates over " + unp(inner.iter)[:40])
        out.append(f"def map_c_values (n col : Int) : List Int := [{', '.join(cvals)}]")

        env = {"self.modules_count": "n", lenvar: "dataLen", col: col, c: c}
        env.update({v: v for v in STATE})
        B = f"(n dataLen {col} {c} {' '.join(STATE)} : Int)"
        need(len({"n", "dataLen", col, c, "dark", "maskf", "dataAt"} | set(STATE)) == 7 + len(STATE), "variable names clash")
        need(len(inner.body) == 1 and isinstance(inner.body[0], ast.If) and not inner.body[0].orelse, "cell loop body is not a single `if`")
        test = inner.body[0]
        need(isinstance(test.test, ast.Compare) and len(test.test.ops) == 1 and isinstance(test.test.ops[0], ast.Is)
             and isinstance(test.test.comparators[0], ast.Constant) and test.test.comparators[0].value is None,
             "cell test is not `… is None`: " + unp(test.test)[:40])
        tr = TrS(env, data=data, maskvar=maskvar)
        out.append(f"def map_cell_test {B} : Int × Int := {cell(test.test.left, tr)}")
        # statements of the cell: Boolean block ; the write ; state block
        wpos = [k for k, s in enumerate(test.body) if isinstance(s, ast.Assign) and len(s.targets) == 1
                and isinstance(s.targets[0], ast.Subscript)]
        need(len(wpos) == 1, f"{len(wpos)} subscript assignments in the cell body (expected the single module write)")
        before, write, after = test.body[:wpos[0]], test.body[wpos[0]], test.body[wpos[0] + 1:]
        bvars = assigned(before)
        need(bvars and all(v not in env and v not in STATE for v in bvars), "variables of the value block: " + str(bvars))
        first = before[0]
        need(not isinstance(first, ast.If) and target_value(first)[0] == bvars[0] and len(bvars) == 1,
             "the value block does not start by initialising its single Boolean variable")
        trb = TrS(env, bools={bvars[0]: bvars[0]}, data=data, maskvar=maskvar)
        out.append(f"def map_dark (maskf : Int → Int → Bool) (dataAt : Int → Nat) {B} : Bool := "
                   f"{block(before, trb, {bvars[0]: 'Bool'})}{trb.boolean(write.value)}")
        out.append(f"def map_cell_write {B} : Int × Int := {cell(write.targets[0], tr)}")
        avars = assigned(after)
        need(all(v in ("bitIndex", "byteIndex") for v in avars), "after the write the cell body assigns " + str(avars))
        out.append(f"def map_bits_step {B} : Int × Int := {block(after, tr, kinds)}(bitIndex, byteIndex)")

        # ---- row update, exit test, turn
        envr = {k: v for k, v in env.items() if k != c}
        trr = TrS(envr)
        BR = f"(n dataLen {col} {' '.join(STATE)} : Int)"
        need(all(v in ("inc", "row") for v in assigned(mid)), "between the cell loop and the exit test: " + str(assigned(mid)))
        out.append(f"def map_row_step {BR} : Int × Int := {block(mid, trr, kinds)}(inc, row)")
        out.append(f"def map_row_exit {BR} : Bool := {trr.boolean(ex.test)}")
        need(len(ex.body) >= 1 and isinstance(ex.body[-1], ast.Break), "the exit branch does not end in `break`")
        need(not any(isinstance(x, (ast.Break, ast.Continue, ast.Return)) for s in wb for x in ast.walk(s) if x is not ex.body[-1]),
             "further break / continue / return inside the `while True`")
        need(all(v in ("inc", "row") for v in assigned(ex.body[:-1])), "the exit branch assigns " + str(assigned(ex.body[:-1])))
        out.append(f"def map_row_turn {BR} : Int × Int := {block(ex.body[:-1], trr, kinds)}(inc, row)")
        return "\n".join(out)
    api.emit("map_data", map_data)


# =====================================================================================================================
# C2   (worker plugin frag_c2.py, embedded unchanged as a closure)
# =====================================================================================================================
def _c2(api):
    """T2 fragments, item C2: util.QRData.write (complete) and util.BitBuffer (__init__, get, put, __len__, put_bit).

Every Lean term is produced from a node of the Python AST by the expression translator `TrM` below (a self-contained copy of
the mixed Nat/Int translator of frag_a.py, extended by `len(<list variable>)` and `math.floor(a / k)`); every assumption
about the statement shapes is checked, otherwise the fragment is Untranslatable.

Conventions of the generated definitions
  * Python exceptions: the definitions live in `Except ε`; the exception *values* (`IndexError`, `KeyError`, `NotFound`) are
    parameters, so the bridging theorem chooses the Model's error constructors.  Statements are sequenced with `>>=` in
    Python's evaluation order (statement order, arguments left to right).
  * `self.buffer` is a `List Nat`, `self.length` a `Nat`; a method of BitBuffer maps the pair to the new pair.
  * builtins whose semantics is not arithmetic are *parameters*: `int(<bytes>)` -> `int_`, `ALPHA_NUM.find(<bytes>)` ->
    `find_bytes`; `ALPHA_NUM.find(<int>)` is `List.idxOf?` on the translated bytes literal, where Python's result -1 is reported
    as the exception value `NotFound` (the Model rejects such characters; Python would go on with a negative number).
  * calls of other translated methods (`self.put_bit`, `buffer.put`) are applications of a function parameter.
"""
    import ast
    import json


    def fragments(api):
        Tr, Untranslatable = api.Tr, api.Untranslatable
        find_func, strip_doc = api.find_func, api.strip_doc
        util = api.trees["util"]

        NATOPS = {ast.Add: "+", ast.Mult: "*", ast.FloorDiv: "/", ast.Mod: "%", ast.LShift: "<<<", ast.RShift: ">>>",
                  ast.BitOr: "|||", ast.BitAnd: "&&&", ast.BitXor: "^^^"}
        INTOPS = {ast.Add: "+", ast.Sub: "-", ast.Mult: "*"}
        CMP = {ast.Eq: "=", ast.NotEq: "≠", ast.Lt: "<", ast.LtE: "≤", ast.Gt: ">", ast.GtE: "≥"}
        BIT = (ast.LShift, ast.RShift, ast.BitOr, ast.BitAnd, ast.BitXor)
        KEYWORDS = {"def", "fun", "let", "in", "if", "then", "else", "match", "with", "do", "end", "at", "from", "have", "show",
                    "open", "variable", "theorem", "namespace", "section", "instance", "class", "structure", "where", "by"}

        def ident(name):
            if name in KEYWORDS or not name.isidentifier():
                raise Untranslatable("variable name " + name)
            return name

        def has_sub(node):
            """does the integer expression contain a subtraction outside shift amounts (those are `(… : Int).toNat`)?"""
            if isinstance(node, ast.BinOp):
                if isinstance(node.op, (ast.LShift, ast.RShift)):
                    return has_sub(node.left)
                return isinstance(node.op, ast.Sub) or has_sub(node.left) or has_sub(node.right)
            if isinstance(node, ast.UnaryOp):
                return isinstance(node.op, ast.USub) or has_sub(node.operand)
            if isinstance(node, ast.Constant):
                return isinstance(node.value, int) and not isinstance(node.value, bool) and node.value < 0
            return False

        def any_sub(node):
            return any(isinstance(n, ast.BinOp) and isinstance(n.op, ast.Sub) or isinstance(n, ast.UnaryOp) and isinstance(n.op, ast.USub)
                       for n in ast.walk(node))

        def pos_const(node):
            return (isinstance(node, ast.Constant) and isinstance(node.value, int) and not isinstance(node.value, bool)
                    and node.value > 0)

        class TrM(Tr):
            """env: name -> Nat term; bools: name -> Bool term; lists: name -> `List Nat` term (only `len(x)` reads them)"""

            def __init__(self, env, bools=None, lists=None):
                Tr.__init__(self, dict(env), "Nat", {})
                self.bools, self.lists = dict(bools or {}), dict(lists or {})

            def num(self, node):
                if isinstance(node, ast.Constant):
                    if isinstance(node.value, bool) or not isinstance(node.value, int):
                        raise Untranslatable("constant " + repr(node.value))
                    if node.value < 0:
                        raise Untranslatable("negative constant in a Nat context")
                    return str(node.value)
                if isinstance(node, (ast.Name, ast.Attribute)):
                    n = self.name_of(node)
                    if n in self.env:
                        return self.env[n]
                    raise Untranslatable("free name " + n)
                if isinstance(node, ast.Call):
                    f = ast.unparse(node.func)
                    if node.keywords:
                        raise Untranslatable("keyword arguments")
                    if f == "len" and len(node.args) == 1 and isinstance(node.args[0], (ast.Name, ast.Attribute)) \
                            and self.name_of(node.args[0]) in self.lists:
                        return f"{self.lists[self.name_of(node.args[0])]}.length"
                    if f == "math.floor" and len(node.args) == 1 and isinstance(node.args[0], ast.BinOp) \
                            and isinstance(node.args[0].op, ast.Div) and pos_const(node.args[0].right):
                        # floor of a true division by a positive constant = floor division (exact below 2**53)
                        return f"({self.num(node.args[0].left)} / {node.args[0].right.value})"
                    raise Untranslatable("call " + ast.unparse(node)[:50])
                if isinstance(node, ast.BinOp):
                    if isinstance(node.op, ast.Sub):
                        raise Untranslatable("subtraction in a Nat context: " + ast.unparse(node)[:50])
                    if type(node.op) not in NATOPS:
                        raise Untranslatable("operator " + type(node.op).__name__)
                    if isinstance(node.op, (ast.LShift, ast.RShift)) and any_sub(node.right):
                        return f"({self.num(node.left)} {NATOPS[type(node.op)]} ({self.int(node.right)}).toNat)"
                    return f"({self.num(node.left)} {NATOPS[type(node.op)]} {self.num(node.right)})"
                raise Untranslatable("expression " + ast.unparse(node)[:60])

            def int(self, node):
                if isinstance(node, ast.Constant):
                    if isinstance(node.value, bool) or not isinstance(node.value, int):
                        raise Untranslatable("constant " + repr(node.value))
                    return f"({node.value} : Int)"
                if isinstance(node, ast.UnaryOp) and isinstance(node.op, ast.USub):
                    return f"(-{self.int(node.operand)})"
                if isinstance(node, ast.BinOp) and type(node.op) in INTOPS:
                    return f"({self.int(node.left)} {INTOPS[type(node.op)]} {self.int(node.right)})"
                return f"(({self.num(node)} : Nat) : Int)"

            def boolean(self, node):
                if isinstance(node, ast.BoolOp):
                    op = " && " if isinstance(node.op, ast.And) else " || "
                    return "(" + op.join(self.boolean(v) for v in node.values) + ")"
                if isinstance(node, ast.UnaryOp) and isinstance(node.op, ast.Not):
                    return f"(!{self.boolean(node.operand)})"
                if isinstance(node, ast.Constant) and isinstance(node.value, bool):
                    return "true" if node.value else "false"
                if isinstance(node, ast.Compare):
                    parts, left = [], node.left
                    for op, right in zip(node.ops, node.comparators):
                        if type(op) not in CMP:
                            raise Untranslatable("comparison " + type(op).__name__)
                        if has_sub(left) or has_sub(right):
                            parts.append(f"decide ({self.int(left)} {CMP[type(op)]} {self.int(right)})")
                        else:
                            parts.append(f"decide ({self.num(left)} {CMP[type(op)]} {self.num(right)})")
                        left = right
                    return parts[0] if len(parts) == 1 else "(" + " && ".join(parts) + ")"
                if isinstance(node, (ast.Name, ast.Attribute)):
                    n = self.name_of(node)
                    if n in self.bools:
                        return self.bools[n]
                    raise Untranslatable("truth value of " + n)
                raise Untranslatable("condition " + ast.unparse(node)[:60])

        def is_range(node, nargs):
            return (isinstance(node, ast.Call) and ast.unparse(node.func) == "range" and not node.keywords
                    and len(node.args) in nargs)

        def module_assign(name):
            hits = [s for s in util.body if isinstance(s, ast.Assign) and len(s.targets) == 1
                    and isinstance(s.targets[0], ast.Name) and s.targets[0].id == name]
            if len(hits) != 1:
                raise Untranslatable(f"{len(hits)} module-level assignments of {name}")
            return hits[0].value

        def method(qual, params):
            fn = find_func(util, qual)
            a = fn.args
            if a.vararg or a.kwarg or a.kwonlyargs or a.defaults or a.posonlyargs or [x.arg for x in a.args] != params:
                raise Untranslatable("signature of " + qual)
            if fn.decorator_list:
                raise Untranslatable("decorated " + qual)
            return strip_doc(fn.body)

        def is_self_attr(node, attr):
            return isinstance(node, ast.Attribute) and isinstance(node.value, ast.Name) and node.value.id == "self" and node.attr == attr

        # =====================================================================================================================
        # BitBuffer
        # =====================================================================================================================
        def bb_init():
            body = method("BitBuffer.__init__", ["self"])
            if len(body) != 2:
                raise Untranslatable(f"{len(body)} statements")
            vals = {}
            for s in body:
                if isinstance(s, ast.AnnAssign) and s.value is not None:
                    t, v = s.target, s.value
                elif isinstance(s, ast.Assign) and len(s.targets) == 1:
                    t, v = s.targets[0], s.value
                else:
                    raise Untranslatable("statement " + ast.unparse(s)[:40])
                if is_self_attr(t, "buffer") and isinstance(v, ast.List):
                    vals["buffer"] = "[" + ", ".join(TrM({}).num(e) for e in v.elts) + "]"
                elif is_self_attr(t, "length"):
                    vals["length"] = TrM({}).num(v)
                else:
                    raise Untranslatable("statement " + ast.unparse(s)[:40])
            if sorted(vals) != ["buffer", "length"]:
                raise Untranslatable("fields " + str(sorted(vals)))
            return f"def bb_init : List Nat × Nat := ({vals['buffer']}, {vals['length']})"
        api.emit("bb_init", bb_init)

        def bb_len():
            body = method("BitBuffer.__len__", ["self"])
            if not (len(body) == 1 and isinstance(body[0], ast.Return) and body[0].value is not None):
                raise Untranslatable("body is not a single return")
            tr = TrM({"self.length": "length"}, lists={"self.buffer": "buffer"})
            return f"def bb_len (buffer : List Nat) (length : Nat) : Nat := {tr.num(body[0].value)}"
        api.emit("bb_len", bb_len)

        def buffer_reads(node):
            """the distinct `self.buffer[<index>]` loads inside an expression"""
            seen = {}
            for n in ast.walk(node):
                if isinstance(n, ast.Subscript) and is_self_attr(n.value, "buffer"):
                    if isinstance(n.slice, ast.Slice):
                        raise Untranslatable("slice of self.buffer")
                    seen[ast.unparse(n)] = n
            return seen

        class TrRead(TrM):
            """TrM in which one `self.buffer[ix]` load is bound to the Lean variable `x`"""

            def __init__(self, env, bools, lists, key):
                TrM.__init__(self, env, bools, lists)
                self.key = key

            def num(self, node):
                if isinstance(node, ast.Subscript) and ast.unparse(node) == self.key:
                    return "x"
                return TrM.num(self, node)

        def bb_get():
            body = method("BitBuffer.get", ["self", "index"])
            env = {"self.length": "length", "index": "index"}
            lists = {"self.buffer": "buffer"}
            lets = ""
            for s in body[:-1]:
                if not (isinstance(s, ast.Assign) and len(s.targets) == 1 and isinstance(s.targets[0], ast.Name)):
                    raise Untranslatable("statement " + ast.unparse(s)[:40])
                v = ident(s.targets[0].id)
                lets += f"let {v} := {TrM(env, lists=lists).num(s.value)}; "
                env[v] = v
            r = body[-1] if body else None
            if not (isinstance(r, ast.Return) and r.value is not None):
                raise Untranslatable("no final return")
            reads = buffer_reads(r.value)
            if len(reads) != 1:
                raise Untranslatable(f"{len(reads)} distinct loads of self.buffer in the result")
            (key, rd), = reads.items()
            ix = TrM(env, lists=lists).num(rd.slice)
            val = TrRead(env, {}, lists, key).boolean(r.value)
            return ("def bb_get {ε : Type} (IndexError : ε) (buffer : List Nat) (length : Nat) (index : Nat) : Except ε Bool := "
                    f"{lets}match buffer[{ix}]? with | some x => Except.ok ({val}) | none => Except.error IndexError")
        api.emit("bb_get", bb_get)

        def bb_put():
            body = method("BitBuffer.put", ["self", "num", "length"])
            if not (len(body) == 1 and isinstance(body[0], ast.For) and not body[0].orelse and isinstance(body[0].target, ast.Name)
                    and is_range(body[0].iter, (1,))):
                raise Untranslatable("body is not a single `for v in range(e)`")
            lp = body[0]
            i = ident(lp.target.id)
            if i in ("num", "length", "self"):
                raise Untranslatable("loop variable shadows a parameter")
            bound = TrM({"num": "num", "length": "length"}).num(lp.iter.args[0])
            if not (len(lp.body) == 1 and isinstance(lp.body[0], ast.Expr) and isinstance(lp.body[0].value, ast.Call)):
                raise Untranslatable("loop body is not one call")
            call = lp.body[0].value
            if not (ast.unparse(call.func) == "self.put_bit" and len(call.args) == 1 and not call.keywords):
                raise Untranslatable("loop body calls " + ast.unparse(call.func))
            arg = TrM({"num": "num", "length": "length", i: i}).boolean(call.args[0])
            return ("def bb_put {ε σ : Type} (put_bit : σ → Bool → Except ε σ) (self : σ) (num length : Nat) : Except ε σ := "
                    f"(List.range {bound}).foldlM (fun self ({i} : Nat) => put_bit self ({arg})) self")
        api.emit("bb_put", bb_put)

        def bb_put_bit():
            body = method("BitBuffer.put_bit", ["self", "bit"])
            env = {"self.length": "length"}
            bools = {"bit": "bit"}
            lists = {"self.buffer": "buffer"}

            def tr():
                return TrM(env, bools, lists)
            out = ""
            for s in body:
                if isinstance(s, ast.Assign) and len(s.targets) == 1 and isinstance(s.targets[0], ast.Name):
                    v = ident(s.targets[0].id)
                    if v in ("buffer", "length", "bit", "x"):
                        raise Untranslatable("local name " + v)
                    out += f"let {v} := {tr().num(s.value)}; "
                    env[v] = v
                elif isinstance(s, ast.AugAssign) and is_self_attr(s.target, "length") and isinstance(s.op, ast.Add):
                    out += f"let length := (length + {tr().num(s.value)}); "
                elif isinstance(s, ast.If) and not s.orelse and len(s.body) == 1:
                    b = s.body[0]
                    if isinstance(b, ast.Expr) and isinstance(b.value, ast.Call) and ast.unparse(b.value.func) == "self.buffer.append" \
                            and len(b.value.args) == 1 and not b.value.keywords:
                        out += f"let buffer := (if {tr().boolean(s.test)} then buffer ++ [{tr().num(b.value.args[0])}] else buffer); "
                    elif isinstance(b, ast.AugAssign) and isinstance(b.target, ast.Subscript) and is_self_attr(b.target.value, "buffer") \
                            and not isinstance(b.target.slice, ast.Slice) and type(b.op) in NATOPS:
                        ix = tr().num(b.target.slice)
                        upd = f"(x {NATOPS[type(b.op)]} {tr().num(b.value)})"
                        out += (f"(if {tr().boolean(s.test)} then (match buffer[{ix}]? with | some x => Except.ok (buffer.set {ix} {upd}) "
                                f"| none => Except.error IndexError) else Except.ok buffer) >>= fun buffer => ")
                    else:
                        raise Untranslatable("conditional statement " + ast.unparse(b)[:50])
                else:
                    raise Untranslatable("statement " + ast.unparse(s)[:50])
            return ("def bb_put_bit {ε : Type} (IndexError : ε) (buffer : List Nat) (length : Nat) (bit : Bool) : Except ε (List Nat × Nat) := "
                    f"{out}Except.ok (buffer, length)")
        api.emit("bb_put_bit", bb_put_bit)

        # =====================================================================================================================
        # QRData.write
        # =====================================================================================================================
        MODES = ["MODE_NUMBER", "MODE_ALPHA_NUM", "MODE_8BIT_BYTE"]

        def qw_consts():
            tr = TrM({})
            out = [f"def qw_{m} : Nat := {tr.num(module_assign(m))}" for m in MODES]
            d = module_assign("NUMBER_LENGTH")
            if not (isinstance(d, ast.Dict) and all(k is not None for k in d.keys)):
                raise Untranslatable("NUMBER_LENGTH is not a dict literal")
            out.append("def qw_NUMBER_LENGTH : List (Nat × Nat) := ["
                       + ", ".join(f"({tr.num(k)}, {tr.num(v)})" for k, v in zip(d.keys, d.values)) + "]")
            a = module_assign("ALPHA_NUM")
            if not (isinstance(a, ast.Constant) and isinstance(a.value, bytes)):
                raise Untranslatable("ALPHA_NUM is not a bytes literal")
            out.append("def qw_ALPHA_NUM : List Nat := [" + ", ".join(str(b) for b in a.value) + "]")
            return "\n".join(out)
        api.emit("qw_consts", qw_consts)

        def qw_prims():
            # the meaning given to Python's range / slicing / dict and list subscripts / bytes.find(int); fixed text (no source)
            return (
                "/-- Python `range(a, b, s)` for `0 ≤ a`, `0 < s` -/\n"
                "def qw_range (a b s : Nat) : List Nat := (List.range ((b - a + s - 1) / s)).map fun (k : Nat) => a + s * k\n"
                "/-- Python `l[lo:hi]` for `0 ≤ lo`, `0 ≤ hi` -/\n"
                "def qw_slice (l : List Nat) (lo hi : Nat) : List Nat := (l.take hi).drop lo\n"
                "/-- Python `d[k]` on a dict literal -/\n"
                "def qw_lookup {ε : Type} (KeyError : ε) (d : List (Nat × Nat)) (k : Nat) : Except ε Nat := "
                "match d.lookup k with | some v => Except.ok v | none => Except.error KeyError\n"
                "/-- Python `l[k]` for `0 ≤ k` -/\n"
                "def qw_index {ε : Type} (IndexError : ε) (l : List Nat) (k : Nat) : Except ε Nat := "
                "match l[k]? with | some v => Except.ok v | none => Except.error IndexError\n"
                "/-- Python `b.find(c)` for an int `c`; the result -1 is reported as `NotFound` -/\n"
                "def qw_find_in {ε : Type} (NotFound : ε) (b : List Nat) (c : Nat) : Except ε Nat := "
                "match b.idxOf? c with | some i => Except.ok i | none => Except.error NotFound")
        api.emit("qw_prims", qw_prims)

        def qw_write():
            body = method("QRData.write", ["self", "buffer"])
            counter = [0]

            def fresh():
                counter[0] += 1
                return f"t{counter[0]}"

            class Ctx:
                def __init__(self, env, lists):
                    self.env, self.lists = dict(env), dict(lists)

                def tr(self):
                    return TrM(self.env, {}, self.lists)

            def list_var(ctx, node):
                if isinstance(node, (ast.Name, ast.Attribute)):
                    try:
                        n = ctx.tr().name_of(node)
                    except Untranslatable:
                        return None
                    return ctx.lists.get(n)
                return None

            def lift(node, ctx, binds):
                """replace the effectful sub-expressions (in evaluation order) by fresh variables bound with `>>=`"""
                if isinstance(node, ast.BinOp):
                    l = lift(node.left, ctx, binds)
                    r = lift(node.right, ctx, binds)
                    return ast.BinOp(left=l, op=node.op, right=r)
                if isinstance(node, ast.Call):
                    f = ast.unparse(node.func)
                    if node.keywords:
                        raise Untranslatable("keyword arguments")
                    if f == "len":
                        return node
                    if f == "int" and len(node.args) == 1 and list_var(ctx, node.args[0]):
                        v = fresh()
                        binds.append((f"(int_ {list_var(ctx, node.args[0])})", v))
                        ctx.env[v] = v
                        return ast.Name(id=v, ctx=ast.Load())
                    if f == "ALPHA_NUM.find" and len(node.args) == 1:
                        if list_var(ctx, node.args[0]):
                            v = fresh()
                            binds.append((f"(find_bytes {list_var(ctx, node.args[0])})", v))
                        else:
                            a = lift(node.args[0], ctx, binds)
                            v = fresh()
                            binds.append((f"(qw_find_in NotFound qw_ALPHA_NUM {ctx.tr().num(a)})", v))
                        ctx.env[v] = v
                        return ast.Name(id=v, ctx=ast.Load())
                    raise Untranslatable("call " + ast.unparse(node)[:50])
                if isinstance(node, ast.Subscript):
                    if isinstance(node.slice, ast.Slice):
                        raise Untranslatable("slice in a number: " + ast.unparse(node)[:40])
                    if isinstance(node.value, ast.Name) and node.value.id == "NUMBER_LENGTH":
                        k = lift(node.slice, ctx, binds)
                        v = fresh()
                        binds.append((f"(qw_lookup KeyError qw_NUMBER_LENGTH {ctx.tr().num(k)})", v))
                    elif list_var(ctx, node.value):
                        k = lift(node.slice, ctx, binds)
                        v = fresh()
                        binds.append((f"(qw_index IndexError {list_var(ctx, node.value)} {ctx.tr().num(k)})", v))
                    else:
                        raise Untranslatable("subscript " + ast.unparse(node)[:40])
                    ctx.env[v] = v
                    return ast.Name(id=v, ctx=ast.Load())
                return node

            def eff_num(node, ctx):
                binds = []
                n2 = lift(node, ctx, binds)
                return "".join(f"{e} >>= fun {v} => " for e, v in binds), ctx.tr().num(n2)

            def slice_of(node, ctx):
                if not (isinstance(node, ast.Subscript) and isinstance(node.slice, ast.Slice) and list_var(ctx, node.value)
                        and node.slice.step is None and node.slice.lower is not None and node.slice.upper is not None):
                    return None
                return f"(qw_slice {list_var(ctx, node.value)} {ctx.tr().num(node.slice.lower)} {ctx.tr().num(node.slice.upper)})"

            def block(stmts, ctx):
                """the statements as a term of type `Except ε σ` (the buffer after them)"""
                if not stmts:
                    return "Except.ok buffer"
                s, rest = stmts[0], stmts[1:]
                if isinstance(s, ast.Assign) and len(s.targets) == 1 and isinstance(s.targets[0], ast.Name):
                    v = ident(s.targets[0].id)
                    if v in ("buffer", "put", "int_", "find_bytes", "mode", "KeyError", "IndexError", "NotFound") or v.startswith("qw_"):
                        raise Untranslatable("local name " + v)
                    sl = slice_of(s.value, ctx)
                    if sl is not None:
                        ctx.lists[v] = v
                        ctx.env.pop(v, None)
                        return f"let {v} := {sl}; {block(rest, ctx)}"
                    if list_var(ctx, s.value):
                        src = list_var(ctx, s.value)
                        ctx.lists[v] = v
                        ctx.env.pop(v, None)
                        return f"let {v} := {src}; {block(rest, ctx)}"
                    pre, t = eff_num(s.value, ctx)
                    ctx.env[v] = v
                    ctx.lists.pop(v, None)
                    return f"{pre}let {v} := {t}; {block(rest, ctx)}"
                if isinstance(s, ast.Expr) and isinstance(s.value, ast.Call) and ast.unparse(s.value.func) == "buffer.put":
                    c = s.value
                    if len(c.args) != 2 or c.keywords:
                        raise Untranslatable("arguments of buffer.put")
                    p1, a1 = eff_num(c.args[0], ctx)
                    p2, a2 = eff_num(c.args[1], ctx)
                    call = f"put buffer {a1} {a2}"
                    if rest:
                        return f"{p1}{p2}({call}) >>= fun buffer => {block(rest, ctx)}"
                    return f"{p1}{p2}{call}"
                if isinstance(s, ast.If):
                    if rest:
                        raise Untranslatable("statements after an `if`")
                    test = ctx.tr().boolean(s.test)
                    c1, c2 = Ctx(ctx.env, ctx.lists), Ctx(ctx.env, ctx.lists)
                    return f"(if {test} then {block(s.body, c1)} else {block(s.orelse, c2)})"
                if isinstance(s, ast.For) and not s.orelse and isinstance(s.target, ast.Name):
                    if rest:
                        raise Untranslatable("statements after a loop")
                    v = ident(s.target.id)
                    c1 = Ctx(ctx.env, ctx.lists)
                    if is_range(s.iter, (3,)):
                        if not pos_const(s.iter.args[2]):
                            raise Untranslatable("range step is not a positive constant")
                        a, b, st = (ctx.tr().num(x) for x in s.iter.args)
                        c1.env[v] = v
                        c1.lists.pop(v, None)
                        return f"(qw_range {a} {b} {st}).foldlM (fun buffer ({v} : Nat) => {block(s.body, c1)}) buffer"
                    if list_var(ctx, s.iter):
                        c1.env[v] = v
                        c1.lists.pop(v, None)
                        return f"({list_var(ctx, s.iter)}).foldlM (fun buffer ({v} : Nat) => {block(s.body, c1)}) buffer"
                    raise Untranslatable("loop over " + ast.unparse(s.iter)[:40])
                raise Untranslatable("statement " + ast.unparse(s)[:50])

            env = {"self.mode": "mode"}
            env.update({m: "qw_" + m for m in MODES})
            ctx = Ctx(env, {"self.data": "data"})
            return ("def qw_write {ε σ : Type} (KeyError IndexError NotFound : ε) (int_ find_bytes : List Nat → Except ε Nat) "
                    "(put : σ → Nat → Nat → Except ε σ) (mode : Nat) (data : List Nat) (buffer : σ) : Except ε σ := "
                    + block(body, ctx))
        api.emit("qw_write", qw_write)

    fragments(api)


# =====================================================================================================================
# C3   (worker plugin frag_c3.py, embedded unchanged as a closure)
# =====================================================================================================================
def _c3(api):
    """T2 fragments, list C item 3: the penalty scanners of qrcode/util.py

  _lost_point_level2  COMPLETE   (ranges, row aliases, the `next(iter, None)` skip, the four comparisons, weight, init, return)
  _lost_point_level4  COMPLETE   (dark count, the float expression as an EXACT fraction, int(), `* 10`)
  _lost_point_level1  the parts the fragments l1_threshold / l1_term / l1_range do not cover: ranges, container creation, the
                      row / column scanners' init, step (`container[length] += 1`), flush, the index of the final sum and the
                      `lost_point += sum(...)` / `return`.

Every Lean term is produced from an AST node by the expression translator `TrP` / the statement translator `block`; every
structural assumption is checked (otherwise Untranslatable).  Generated names start with lp1_ / lp2_ / lp4_.

Conventions
  * Python ints known to be non-negative (indices, lengths, counters) are Lean `Nat`; a subtraction is never translated
    over Nat: `range(modules_count - 1)` is translated over Int (the semantics takes `.toNat`: an empty range for a stop <= 0).
  * A list of booleans is a Lean function `Nat -> Bool` (`this_row[e]` -> `(this_row e)`), the module matrix a function
    `Nat -> Nat -> Bool` (`modules[r][c]` -> `(modules r c)`); an alias `this_row = modules[row]` becomes `(modules row)`.
    (Index errors / negative indices are outside the translation: the bridging theorems instantiate the accessors with
    `getD` on an n x n matrix, where every index used is in range.)
  * A loop body is translated to a Lean function from the values of the loop-carried variables to their new values (a
    tuple, in the order given in the def's result type); statements become nested `let` / `if`, `continue` ends the body,
    `next(<the loop's own iterator>, None)` sets the extra Boolean `skip` (the pending extra advance of the iterator).
  * `container[e] += k` on a Python list -> `container.modify e (fun x => x + k)`.
  * float expressions (level 4) are translated to an exact fraction num/den of Int terms:  float(e) = e/1,  a/b, a*b, a-b,
    a+b, abs(a) by the field laws,  int(a) = Int.tdiv num den (truncation toward zero).  ASSUMPTION (not provable here):
    the IEEE-754 double evaluation of the Python expression yields the same integer as this exact evaluation.
"""
    import ast
    import json


    def fragments(api):
        Tr, Untranslatable = api.Tr, api.Untranslatable
        find_func, strip_doc = api.find_func, api.strip_doc
        util = api.trees["util"]

        # ------------------------------------------------------------------------------------------------------ expressions
        class TrP(Tr):
            """Nat / Bool translator with cell accessors.
        env   : Python name -> Lean Nat term
        bools : Python name -> Lean Bool term
        rows  : Python name of a list of booleans      -> Lean term of type Nat -> Bool
        mats  : Python name of a list of lists of them -> Lean term of type Nat -> Nat -> Bool
        lists : Python name of a list of ints          -> Lean term of type List Nat   (`x[e]` -> `(x.getD e 0)`)"""

            def __init__(self, env, bools=None, rows=None, mats=None, lists=None):
                Tr.__init__(self, dict(env), "Nat", {})
                self.bools, self.rows, self.mats, self.lists = dict(bools or {}), dict(rows or {}), dict(mats or {}), dict(lists or {})

            def num(self, node):
                if isinstance(node, ast.Constant):
                    if isinstance(node.value, bool) or not isinstance(node.value, int) or node.value < 0:
                        raise Untranslatable("constant " + repr(node.value) + " in a Nat context")
                    return str(node.value)
                if isinstance(node, ast.Name):
                    if node.id in self.env:
                        return self.env[node.id]
                    raise Untranslatable("free name " + node.id)
                if isinstance(node, ast.BinOp):
                    ops = {ast.Add: "+", ast.Mult: "*", ast.FloorDiv: "/", ast.Mod: "%"}
                    if type(node.op) not in ops:
                        raise Untranslatable("operator " + type(node.op).__name__ + " in a Nat context: " + ast.unparse(node)[:40])
                    return f"({self.num(node.left)} {ops[type(node.op)]} {self.num(node.right)})"
                if isinstance(node, ast.Subscript) and isinstance(node.value, ast.Name) and node.value.id in self.lists:
                    return f"({self.lists[node.value.id]}.getD {self.num(node.slice)} 0)"
                raise Untranslatable("Nat expression " + ast.unparse(node)[:60])

            def cell(self, node):
                """`row[e]` / `mat[r][c]` -> Lean Bool term, or None"""
                if not isinstance(node, ast.Subscript):
                    return None
                v = node.value
                if isinstance(v, ast.Name) and v.id in self.rows:
                    return f"({self.rows[v.id]} {self.num(node.slice)})"
                if isinstance(v, ast.Subscript) and isinstance(v.value, ast.Name) and v.value.id in self.mats:
                    return f"({self.mats[v.value.id]} {self.num(v.slice)} {self.num(node.slice)})"
                return None

            def is_bool(self, node):
                return (isinstance(node, ast.Name) and node.id in self.bools) or self.cell(node) is not None

            def boolean(self, node):
                if isinstance(node, ast.BoolOp):
                    op = " && " if isinstance(node.op, ast.And) else " || "
                    return "(" + op.join(self.boolean(v) for v in node.values) + ")"
                if isinstance(node, ast.UnaryOp) and isinstance(node.op, ast.Not):
                    return f"(!{self.boolean(node.operand)})"
                if isinstance(node, ast.Name) and node.id in self.bools:
                    return self.bools[node.id]
                c = self.cell(node)
                if c is not None:
                    return c
                if isinstance(node, ast.Compare) and len(node.ops) == 1:
                    op, l, r = node.ops[0], node.left, node.comparators[0]
                    if self.is_bool(l) or self.is_bool(r):
                        if not (self.is_bool(l) and self.is_bool(r)):
                            raise Untranslatable("comparison of a Boolean with a non-Boolean: " + ast.unparse(node)[:50])
                        if isinstance(op, ast.Eq):
                            return f"({self.boolean(l)} == {self.boolean(r)})"
                        if isinstance(op, ast.NotEq):
                            return f"({self.boolean(l)} != {self.boolean(r)})"
                        raise Untranslatable("ordering of Booleans: " + ast.unparse(node)[:50])
                    cmp = {ast.Eq: "=", ast.NotEq: "≠", ast.Lt: "<", ast.LtE: "≤", ast.Gt: ">", ast.GtE: "≥"}
                    if type(op) not in cmp:
                        raise Untranslatable("comparison " + type(op).__name__)
                    return f"decide ({self.num(l)} {cmp[type(op)]} {self.num(r)})"
                raise Untranslatable("condition " + ast.unparse(node)[:60])

        # ------------------------------------------------------------------------------------------------------- statements
        def block(stmts, tr, types, final, it=None):
            """sequential statements -> Lean term; `types`: variable -> "Nat" | "Bool" | "List"; `final`: the result tuple.
        `it` = name of the iterator the enclosing `for` runs over (for `next(it, None)`)."""
            if not stmts:
                return final
            s, rest = stmts[0], stmts[1:]
            go = lambda ss: block(ss, tr, types, final, it)
            if isinstance(s, ast.Continue):
                return final
            if isinstance(s, ast.Assign) and len(s.targets) == 1 and isinstance(s.targets[0], ast.Name):
                v = s.targets[0].id
                if types.get(v) == "Nat":
                    e = tr.num(s.value)
                elif types.get(v) == "Bool":
                    e = tr.boolean(s.value)
                else:
                    raise Untranslatable("assignment to " + v)
                return f"let {v} := {e}; {go(rest)}"
            if isinstance(s, ast.AugAssign) and isinstance(s.op, ast.Add):
                t = s.target
                if isinstance(t, ast.Name) and types.get(t.id) == "Nat":
                    return f"let {t.id} := ({tr.num(t)} + {tr.num(s.value)}); {go(rest)}"
                if isinstance(t, ast.Subscript) and isinstance(t.value, ast.Name) and types.get(t.value.id) == "List":
                    c = t.value.id
                    return f"let {c} := ({c}.modify {tr.num(t.slice)} (fun x => x + {tr.num(s.value)})); {go(rest)}"
                raise Untranslatable("augmented assignment " + ast.unparse(s)[:50])
            if isinstance(s, ast.If):
                return f"if {tr.boolean(s.test)} then ({go(list(s.body) + rest)}) else ({go(list(s.orelse) + rest)})"
            if isinstance(s, ast.Expr) and isinstance(s.value, ast.Call) and ast.unparse(s.value.func) == "next":
                a = s.value.args
                if not (it is not None and len(a) == 2 and not s.value.keywords and isinstance(a[0], ast.Name) and a[0].id == it
                        and isinstance(a[1], ast.Constant) and a[1].value is None and types.get("skip") == "Bool"):
                    raise Untranslatable("next() call " + ast.unparse(s)[:50])
                return f"let skip := true; {go(rest)}"
            raise Untranslatable("statement " + ast.unparse(s)[:50])

        def is_zero_assign(s, name):
            return (isinstance(s, ast.Assign) and len(s.targets) == 1 and isinstance(s.targets[0], ast.Name) and s.targets[0].id == name
                    and isinstance(s.value, ast.Constant) and not isinstance(s.value, bool) and isinstance(s.value.value, int))

        def named_assign(s):
            if isinstance(s, ast.Assign) and len(s.targets) == 1 and isinstance(s.targets[0], ast.Name):
                return s.targets[0].id
            return None

        def check_signature(fn):
            if [a.arg for a in fn.args.args] != ["modules", "modules_count"] or fn.args.vararg or fn.args.kwarg or fn.args.kwonlyargs \
                    or fn.args.defaults:
                raise Untranslatable("signature of " + fn.name)

        def int_range_stop(call):
            """`range(e)` with e over modules_count, possibly with a subtraction -> Lean Int term"""
            if not (isinstance(call, ast.Call) and ast.unparse(call.func) == "range" and len(call.args) == 1 and not call.keywords):
                raise Untranslatable("range " + ast.unparse(call)[:40])
            return Tr({"modules_count": "(n : Int)"}, "Int").num(call.args[0])

        def nat_range(call, tr):
            if not (isinstance(call, ast.Call) and ast.unparse(call.func) == "range" and 1 <= len(call.args) <= 2 and not call.keywords):
                raise Untranslatable("range " + ast.unparse(call)[:40])
            if len(call.args) == 1:
                return f"(0, {tr.num(call.args[0])})"
            return f"({tr.num(call.args[0])}, {tr.num(call.args[1])})"

        # ===================================================================================================================
        # _lost_point_level2
        # ===================================================================================================================
        def level2():
            fn = find_func(util, "_lost_point_level2")
            check_signature(fn)
            body = strip_doc(fn.body)
            if not (len(body) == 4 and is_zero_assign(body[0], "lost_point") and named_assign(body[1]) is not None
                    and isinstance(body[2], ast.For) and not body[2].orelse
                    and isinstance(body[3], ast.Return) and isinstance(body[3].value, ast.Name) and body[3].value.id == "lost_point"):
                raise Untranslatable("shape is not `lost_point = c; R = range(..); for ..; return lost_point`")
            rname, rcall = named_assign(body[1]), body[1].value
            stop = int_range_stop(rcall)
            outer = body[2]
            if not (isinstance(outer.iter, ast.Name) and outer.iter.id == rname and isinstance(outer.target, ast.Name)):
                raise Untranslatable("outer loop does not run over " + rname)
            row = outer.target.id
            # outer body: row aliases, `it = iter(R)`, the inner loop
            tr0 = TrP({row: row})
            aliases, itname, inner = {}, None, None
            for s in outer.body:
                if inner is not None:
                    raise Untranslatable("statement after the inner loop")
                v = named_assign(s)
                if v is not None and isinstance(s.value, ast.Subscript) and isinstance(s.value.value, ast.Name) \
                        and s.value.value.id == "modules":
                    aliases[v] = tr0.num(s.value.slice)
                elif v is not None and isinstance(s.value, ast.Call) and ast.unparse(s.value.func) == "iter" and len(s.value.args) == 1 \
                        and isinstance(s.value.args[0], ast.Name) and s.value.args[0].id == rname and itname is None:
                    itname = v
                elif isinstance(s, ast.For) and not s.orelse:
                    inner = s
                else:
                    raise Untranslatable("outer-loop statement " + ast.unparse(s)[:50])
            if inner is None or itname is None or not (isinstance(inner.iter, ast.Name) and inner.iter.id == itname
                                                       and isinstance(inner.target, ast.Name)):
                raise Untranslatable("inner loop does not run over iter(" + rname + ")")
            if sorted(aliases) != ["next_row", "this_row"]:
                raise Untranslatable("row aliases " + str(sorted(aliases)))
            col = inner.target.id
            tr = TrP({col: col, "lost_point": "lost_point"}, bools={"top_right": "top_right", "skip": "skip"},
                     rows={"this_row": "this_row", "next_row": "next_row"})
            types = {"top_right": "Bool", "lost_point": "Nat", "skip": "Bool"}
            term = block(list(inner.body), tr, types, "(skip, lost_point)", it=itname)
            return (f"def lp2_init : Nat := {body[0].value.value}\n"
                    f"def lp2_range_stop (n : Nat) : Int := {stop}\n"
                    f"def lp2_this_row ({row} : Nat) : Nat := {aliases['this_row']}\n"
                    f"def lp2_next_row ({row} : Nat) : Nat := {aliases['next_row']}\n"
                    f"def lp2_body (this_row next_row : Nat → Bool) ({col} : Nat) (lost_point : Nat) : Bool × Nat :=\n"
                    f"  let skip := false; {term}")
        api.emit("lp2", level2)

        # ===================================================================================================================
        # _lost_point_level1
        # ===================================================================================================================
        def level1():
            fn = find_func(util, "_lost_point_level1")
            check_signature(fn)
            body = strip_doc(fn.body)
            if not (len(body) == 7 and is_zero_assign(body[0], "lost_point") and named_assign(body[1]) is not None
                    and named_assign(body[2]) == "container" and isinstance(body[3], ast.For) and isinstance(body[4], ast.For)
                    and not body[3].orelse and not body[4].orelse
                    and isinstance(body[5], ast.AugAssign) and isinstance(body[5].op, ast.Add) and isinstance(body[5].target, ast.Name)
                    and body[5].target.id == "lost_point"
                    and isinstance(body[6], ast.Return) and isinstance(body[6].value, ast.Name) and body[6].value.id == "lost_point"):
                raise Untranslatable("shape is not `lost_point = c; R = range; container = ..; for; for; lost_point += ..; return lost_point`")
            trn = TrP({"modules_count": "n"})
            rname, rcall = named_assign(body[1]), body[1].value
            rng = nat_range(rcall, trn)
            # container = [0] * (modules_count + 1)
            cv = body[2].value
            if not (isinstance(cv, ast.BinOp) and isinstance(cv.op, ast.Mult) and isinstance(cv.left, ast.List) and len(cv.left.elts) == 1
                    and isinstance(cv.left.elts[0], ast.Constant) and isinstance(cv.left.elts[0].value, int)
                    and not isinstance(cv.left.elts[0].value, bool) and cv.left.elts[0].value >= 0):
                raise Untranslatable("container creation " + ast.unparse(cv)[:40])
            out = [f"def lp1_init : Nat := {body[0].value.value}",
                   f"def lp1_range (n : Nat) : Nat × Nat := {rng}",
                   f"def lp1_container (n : Nat) : List Nat := List.replicate {trn.num(cv.right)} {cv.left.elts[0].value}"]

            def scanner(outer, tag):
                if not (isinstance(outer.iter, ast.Name) and outer.iter.id == rname and isinstance(outer.target, ast.Name)):
                    raise Untranslatable(tag + ": outer loop does not run over " + rname)
                o = outer.target.id
                k = next((i for i, s in enumerate(outer.body) if isinstance(s, ast.For)), None)
                if k is None or outer.body[k].orelse:
                    raise Untranslatable(tag + ": no inner loop")
                inner = outer.body[k]
                if not (isinstance(inner.iter, ast.Name) and inner.iter.id == rname and isinstance(inner.target, ast.Name)):
                    raise Untranslatable(tag + ": inner loop does not run over " + rname)
                i = inner.target.id
                if i == o:
                    raise Untranslatable(tag + ": loop variables coincide")
                pre, post = list(outer.body[:k]), list(outer.body[k + 1:])
                tr = TrP({o: o, "length": "length"}, bools={"previous_color": "previous_color"}, mats={"modules": "modules"},
                         lists={})
                # a row alias `this_row = modules[row]` in the prologue
                pre2 = []
                for s in pre:
                    v = named_assign(s)
                    if v is not None and v not in ("length", "previous_color") and isinstance(s.value, ast.Subscript) \
                            and isinstance(s.value.value, ast.Name) and s.value.value.id == "modules":
                        tr.rows[v] = f"(modules {tr.num(s.value.slice)})"
                    else:
                        pre2.append(s)
                types = {"length": "Nat", "previous_color": "Bool", "container": "List"}
                tri = TrP({o: o}, mats=tr.mats, rows=tr.rows)          # the prologue may not read the loop-carried variables
                init = block(pre2, tri, {"length": "Nat", "previous_color": "Bool"}, "(previous_color, length)")
                assigned = {named_assign(s) for s in pre2}
                if assigned != {"length", "previous_color"}:
                    raise Untranslatable(tag + ": prologue assigns " + str(sorted(map(str, assigned))))
                trs = TrP({o: o, i: i, "length": "length"}, bools=tr.bools, mats=tr.mats, rows=tr.rows)
                step = block(list(inner.body), trs, types, "(previous_color, length, container)")
                flush = block(post, TrP({o: o, "length": "length"}, bools=tr.bools, mats=tr.mats, rows=tr.rows), types, "container")
                return [f"def lp1_{tag}_init (modules : Nat → Nat → Bool) ({o} : Nat) : Bool × Nat :=\n  {init}",
                        f"def lp1_{tag}_step (modules : Nat → Nat → Bool) ({o} {i} : Nat) (previous_color : Bool) (length : Nat) "
                        f"(container : List Nat) : Bool × Nat × List Nat :=\n  {step}",
                        f"def lp1_{tag}_flush (modules : Nat → Nat → Bool) ({o} : Nat) (previous_color : Bool) (length : Nat) "
                        f"(container : List Nat) : List Nat :=\n  {flush}"]
            out += scanner(body[3], "row")
            out += scanner(body[4], "col")
            # lost_point += sum(container[each_length] * (each_length - 2) for each_length in range(5, modules_count + 1))
            v = body[5].value
            if not (isinstance(v, ast.Call) and ast.unparse(v.func) == "sum" and len(v.args) == 1 and not v.keywords
                    and isinstance(v.args[0], ast.GeneratorExp) and len(v.args[0].generators) == 1):
                raise Untranslatable("final sum " + ast.unparse(v)[:40])
            g = v.args[0].generators[0]
            if g.ifs or g.is_async or not isinstance(g.target, ast.Name):
                raise Untranslatable("generator of the final sum")
            idx = [n for n in ast.walk(v.args[0].elt) if isinstance(n, ast.Subscript)]
            if not (len(idx) == 1 and isinstance(idx[0].value, ast.Name) and idx[0].value.id == "container"):
                raise Untranslatable("container access in the final sum")
            out.append(f"def lp1_sum_index ({g.target.id} : Nat) : Nat := {TrP({g.target.id: g.target.id}).num(idx[0].slice)}")
            out.append(f"def lp1_sum_var : String := {json.dumps(g.target.id)}")
            out.append("def lp1_total (lost_point s : Nat) : Nat := (lost_point + s)")
            return "\n".join(out)
        api.emit("lp1", level1)

        # ===================================================================================================================
        # _lost_point_level4
        # ===================================================================================================================
        class Frac:
            def __init__(self, n, d):
                self.n, self.d = n, d

        def level4():
            fn = find_func(util, "_lost_point_level4")
            check_signature(fn)
            body = strip_doc(fn.body)
            if not (len(body) >= 2 and all(named_assign(s) is not None for s in body[:-1]) and isinstance(body[-1], ast.Return)
                    and body[-1].value is not None):
                raise Untranslatable("shape is not `v = e`*; return e")
            # dark_count = sum(map(sum, modules))
            s0 = body[0]
            v = s0.value
            if not (named_assign(s0) == "dark_count" and isinstance(v, ast.Call) and ast.unparse(v.func) == "sum" and len(v.args) == 1
                    and not v.keywords and isinstance(v.args[0], ast.Call) and ast.unparse(v.args[0].func) == "map"
                    and len(v.args[0].args) == 2 and isinstance(v.args[0].args[0], ast.Name) and v.args[0].args[0].id == "sum"
                    and isinstance(v.args[0].args[1], ast.Name) and v.args[0].args[1].id == "modules"):
                raise Untranslatable("dark_count is not sum(map(sum, modules))")
            out = ["def lp4_dark_count (modules : List (List Bool)) : Nat := ((modules.map fun row => (row.map Bool.toNat).sum).sum)"]
            ints = {"dark_count": "dark_count", "modules_count": "modules_count"}      # Int-valued Python names
            fracs = {}                                                                  # float-valued Python names -> Frac

            def isint(node):
                try:
                    integer(node)
                    return True
                except Untranslatable:
                    return False

            def integer(node):
                """int-valued expression -> Lean Int term"""
                if isinstance(node, ast.Constant):
                    if isinstance(node.value, bool) or not isinstance(node.value, int):
                        raise Untranslatable("constant " + repr(node.value))
                    return f"({node.value} : Int)"
                if isinstance(node, ast.Name):
                    if node.id in ints:
                        return ints[node.id]
                    raise Untranslatable("not an int: " + node.id)
                if isinstance(node, ast.UnaryOp) and isinstance(node.op, ast.USub):
                    return f"(-{integer(node.operand)})"
                if isinstance(node, ast.BinOp):
                    if isinstance(node.op, ast.Pow):
                        e = node.right
                        if not (isinstance(e, ast.Constant) and isinstance(e.value, int) and not isinstance(e.value, bool) and e.value >= 0):
                            raise Untranslatable("exponent " + ast.unparse(e))
                        return f"({integer(node.left)} ^ {e.value})"
                    ops = {ast.Add: "+", ast.Sub: "-", ast.Mult: "*"}
                    if type(node.op) in ops:
                        return f"({integer(node.left)} {ops[type(node.op)]} {integer(node.right)})"
                    raise Untranslatable("int operator " + type(node.op).__name__)
                if isinstance(node, ast.Call) and ast.unparse(node.func) == "int" and len(node.args) == 1 and not node.keywords:
                    if isint(node.args[0]):
                        return integer(node.args[0])
                    q = frac(node.args[0])
                    return f"(Int.tdiv {q.n} {q.d})"                 # int(float): truncation toward zero
                if isinstance(node, ast.Call) and ast.unparse(node.func) == "abs" and len(node.args) == 1 and isint(node.args[0]):
                    return f"((({integer(node.args[0])}).natAbs : Nat) : Int)"
                raise Untranslatable("int expression " + ast.unparse(node)[:50])

            def frac(node):
                """real-valued expression -> exact fraction of Lean Int terms"""
                if isinstance(node, ast.Name) and node.id in fracs:
                    return fracs[node.id]
                if isinstance(node, ast.Call) and ast.unparse(node.func) == "float" and len(node.args) == 1 and not node.keywords:
                    return Frac(integer(node.args[0]), "(1 : Int)")
                if isinstance(node, ast.Call) and ast.unparse(node.func) == "abs" and len(node.args) == 1 and not node.keywords \
                        and not isint(node.args[0]):
                    q = frac(node.args[0])
                    return Frac(f"((({q.n}).natAbs : Nat) : Int)", f"((({q.d}).natAbs : Nat) : Int)")
                if isinstance(node, ast.BinOp) and isinstance(node.op, (ast.Div, ast.Mult, ast.Add, ast.Sub)):
                    a, b = frac(node.left), frac(node.right)
                    if isinstance(node.op, ast.Div):
                        return Frac(f"({a.n} * {b.d})", f"({a.d} * {b.n})")
                    if isinstance(node.op, ast.Mult):
                        return Frac(f"({a.n} * {b.n})", f"({a.d} * {b.d})")
                    sign = "+" if isinstance(node.op, ast.Add) else "-"
                    return Frac(f"(({a.n} * {b.d}) {sign} ({b.n} * {a.d}))", f"({a.d} * {b.d})")
                return Frac(integer(node), "(1 : Int)")

            params = "(dark_count modules_count : Int)"
            for s in body[1:-1]:
                name = named_assign(s)
                if name in ints or name in fracs:
                    raise Untranslatable("reassignment of " + name)
                if isint(s.value):
                    out.append(f"def lp4_{name} {params} : Int := {integer(s.value)}")
                    ints[name] = f"(lp4_{name} dark_count modules_count)"
                else:
                    q = frac(s.value)
                    out.append(f"def lp4_{name}_num {params} : Int := {q.n}")
                    out.append(f"def lp4_{name}_den {params} : Int := {q.d}")
                    fracs[name] = Frac(f"(lp4_{name}_num dark_count modules_count)", f"(lp4_{name}_den dark_count modules_count)")
            out.append(f"def lp4_result {params} : Int := {integer(body[-1].value)}")
            return "\n".join(out)
        api.emit("lp4", level4)

    fragments(api)


# =====================================================================================================================
# C4   (worker plugin frag_c4.py, embedded unchanged as a closure)
# =====================================================================================================================
def _c4(api):
    """T2 fragments, list C item 4: qrcode/image/styles/colormasks.py.

extrap_num, interp_num, extrap_color, interp_color, get_bg_pixel, the loop structure of QRColorMask.apply_mask, the fast-path
condition (and the two branches) of SolidFillColorMask.apply_mask, and the normalisation expressions of the four gradient
masks' get_fg_pixel.  All generated names start with `cm_`.

NUMBERS.  The Python code computes with floats (`/`, `*`, `+`, `-`, `int()`, `math.sqrt`).  Like QR/Model/Styled.lean, the
translation reads every float operation as the EXACT operation on rationals (Lean core `Rat`): colour channels, pixel
coordinates and image sizes are Python ints (Lean `Int` / `Nat`), an int sub-expression is computed in `Int` and cast to `Rat`
where Python converts it to float (true division, or arithmetic with a float operand).  `int(e)` is truncation toward zero
(`cm_py_int`).  `math.sqrt` has no rational counterpart: an expression with square roots is translated symbolically to a
pair (q, r) of rationals denoting the real number q * sqrt(r)  (sqrt(a) -> (1, a); products / quotients componentwise).

Every Lean term below is produced from a node of the AST by the typed expression translator `RT`; statement shapes are checked
(otherwise the fragment is Untranslatable).  The only constant text is `cm_prelude`: the meaning of the Python/Pillow
primitives int(), abs(), zip()-iteration, range(), Image.getpixel / putpixel on an image seen as a function of (x, y).
"""
    import ast
    import json


    def fragments(api):
        Untranslatable = api.Untranslatable
        find_func, strip_doc = api.find_func, api.strip_doc
        REL = "qrcode/image/styles/colormasks.py"
        cache = {}

        def tree():
            if "t" not in cache:
                try:
                    cache["t"] = api.parse(REL)
                except Exception as e:  # noqa
                    raise Untranslatable(f"{REL} does not parse: {e}")
            return cache["t"]

        LEAN_KEYWORDS = {"at", "from", "in", "fun", "end", "open", "show", "have", "then", "else", "if", "do", "let", "by", "match",
                         "with", "def", "theorem", "where", "instance", "structure", "class", "namespace", "section", "import",
                         "return", "for", "mut", "using", "calc", "Type", "Prop", "Sort", "set_option", "variable", "universe",
                         "image", "fg"}
        LT = {"Int": "Int", "Nat": "Nat", "Rat": "Rat", "ListInt": "List Int", "ListRat": "List Rat", "OptRat": "Option Rat"}

        def ident(name, reserved=()):
            if not (name.isidentifier() and name.isascii()) or (name in LEAN_KEYWORDS and name not in reserved) or name.startswith("cm_"):
                raise Untranslatable("name not usable as a Lean binder: " + name)
            return name

        def params(fn, n):
            """positional parameter names after `self`"""
            a = fn.args
            if a.vararg or a.kwarg or a.kwonlyargs or a.posonlyargs or a.defaults:
                raise Untranslatable("parameter list of " + fn.name)
            names = [x.arg for x in a.args]
            if len(names) != n + 1 or names[0] != "self":
                raise Untranslatable(f"{fn.name}: expected (self, {n} parameters), got {names}")
            return names[1:]

        NUM = ("Int", "Nat", "Rat")
        OPS = {ast.Add: "+", ast.Sub: "-", ast.Mult: "*"}
        CMP = {ast.Eq: "=", ast.NotEq: "≠", ast.Lt: "<", ast.LtE: "≤", ast.Gt: ">", ast.GtE: "≥"}

        class RT:
            """typed expression translator.
        env   : Python name / dotted path -> (Lean term, type)     type in Int Nat Rat ListInt ListRat OptRat
        funcs : unparsed callee -> (Lean head term, number of leading Python arguments to drop (must be the name `image`),
                                    argument types, result type)
        """

            def __init__(self, env, funcs=None):
                self.env, self.funcs = dict(env), dict(funcs or {})

            def bind(self, name, term, ty):
                r = RT(self.env, self.funcs)
                r.env[name] = (term, ty)
                return r

            def name_of(self, node):
                if isinstance(node, ast.Name):
                    return node.id
                if isinstance(node, ast.Attribute):
                    return self.name_of(node.value) + "." + node.attr
                raise Untranslatable("unsupported name " + ast.unparse(node)[:60])

            def lookup(self, node):
                n = self.name_of(node)
                if n not in self.env:
                    raise Untranslatable("free name " + n)
                return self.env[n]

            @staticmethod
            def intconst(node):
                return isinstance(node, ast.Constant) and isinstance(node.value, int) and not isinstance(node.value, bool)

            def has_sqrt(self, node):
                return any(isinstance(n, ast.Call) and ast.unparse(n.func) == "math.sqrt" for n in ast.walk(node))

            # ---- type inference
            def typ(self, node):
                if isinstance(node, ast.Constant):
                    if self.intconst(node):
                        return "Int"
                    if node.value is None:
                        return "None"
                    raise Untranslatable("constant " + repr(node.value))
                if isinstance(node, (ast.Name, ast.Attribute)):
                    return self.lookup(node)[1]
                if isinstance(node, ast.UnaryOp) and isinstance(node.op, ast.USub):
                    return self.numtyp(node.operand)
                if isinstance(node, ast.BinOp):
                    lt, rt = self.numtyp(node.left), self.numtyp(node.right)
                    if isinstance(node.op, ast.Div):
                        return "Rat"
                    if isinstance(node.op, ast.Pow):
                        if not (self.intconst(node.right) and node.right.value >= 0):
                            raise Untranslatable("power with a non-literal exponent")
                        return "Rat" if lt == "Rat" else "Int"
                    if type(node.op) in OPS:
                        return "Rat" if "Rat" in (lt, rt) else "Int"
                    raise Untranslatable("operator " + type(node.op).__name__)
                if isinstance(node, ast.Subscript):
                    if self.typ(node.value) == "ListInt" and self.numtyp(node.slice) in ("Int", "Nat"):
                        return "Int"
                    raise Untranslatable("subscript " + ast.unparse(node)[:40])
                if isinstance(node, ast.Tuple):
                    if all(self.intconst(e) for e in node.elts):
                        return "ListInt"
                    raise Untranslatable("tuple " + ast.unparse(node)[:40])
                if isinstance(node, ast.Call):
                    if node.keywords:
                        raise Untranslatable("keyword arguments")
                    f = ast.unparse(node.func)
                    if f in self.funcs:
                        return self.funcs[f][3]
                    if f == "abs" and len(node.args) == 1:
                        return self.numtyp(node.args[0])
                    if f in ("max", "min") and len(node.args) == 2:
                        return "Rat" if "Rat" in (self.numtyp(node.args[0]), self.numtyp(node.args[1])) else "Int"
                    if f == "int" and len(node.args) == 1:
                        self.numtyp(node.args[0])
                        return "Int"
                    if f == "len" and len(node.args) == 1 and self.typ(node.args[0]) in ("ListInt", "ListRat"):
                        return "Int"
                    if f == "sum" and len(node.args) == 1 and self.typ(node.args[0]) == "ListRat":
                        return "Rat"
                    raise Untranslatable("call " + ast.unparse(node)[:50])
                raise Untranslatable("expression " + ast.unparse(node)[:60])

            def numtyp(self, node):
                t = self.typ(node)
                if t not in NUM:
                    raise Untranslatable(f"{ast.unparse(node)[:40]} : {t} used as a number")
                return "Int" if t == "Nat" else t

            # ---- terms
            def call(self, node):
                f = ast.unparse(node.func)
                head, drop, tys, _ = self.funcs[f]
                args = list(node.args)
                for _ in range(drop):
                    if not (args and isinstance(args[0], ast.Name) and args[0].id == "image"):
                        raise Untranslatable(f"{f}: first argument is not `image`")
                    args = args[1:]
                if len(args) != len(tys):
                    raise Untranslatable(f"{f}: {len(args)} arguments, expected {len(tys)}")
                return "(" + " ".join([head] + [self.term(a, t) for a, t in zip(args, tys)]) + ")"

            def int(self, node):
                """Lean term of type Int for an int-typed Python expression"""
                if self.numtyp(node) != "Int":
                    raise Untranslatable("not an int: " + ast.unparse(node)[:40])
                if self.intconst(node):
                    return f"({node.value} : Int)"
                if isinstance(node, (ast.Name, ast.Attribute)):
                    term, ty = self.lookup(node)
                    return term if ty == "Int" else f"(({term} : Nat) : Int)"
                if isinstance(node, ast.UnaryOp):
                    return f"(-{self.int(node.operand)})"
                if isinstance(node, ast.BinOp):
                    if isinstance(node.op, ast.Pow):
                        return f"({self.int(node.left)} ^ {node.right.value})"
                    return f"({self.int(node.left)} {OPS[type(node.op)]} {self.int(node.right)})"
                if isinstance(node, ast.Subscript):
                    return f"({self.term(node.value, 'ListInt')}[{self.nat(node.slice)}]!)"
                if isinstance(node, ast.Call):
                    f = ast.unparse(node.func)
                    if f in self.funcs:
                        return self.call(node)
                    if f == "abs":
                        return f"((({self.int(node.args[0])}).natAbs : Nat) : Int)"
                    if f in ("max", "min"):
                        return f"({f} {self.int(node.args[0])} {self.int(node.args[1])})"
                    if f == "int":
                        a = node.args[0]
                        return self.int(a) if self.numtyp(a) == "Int" else f"(cm_py_int {self.rat(a)})"
                    if f == "len":
                        return f"((({self.term(node.args[0], self.typ(node.args[0]))}).length : Nat) : Int)"
                raise Untranslatable("int expression " + ast.unparse(node)[:60])

            def nat(self, node):
                """index expression: a variable of type Nat"""
                if isinstance(node, ast.Name) and self.lookup(node)[1] == "Nat":
                    return self.lookup(node)[0]
                raise Untranslatable("index " + ast.unparse(node)[:40])

            def rat(self, node):
                """Lean term of type Rat: the exact value of a Python int/float expression.  A maximal int-typed subexpression is
            computed in Int and cast (that is where Python converts to float); an int literal becomes a Rat literal."""
                if self.has_sqrt(node):
                    raise Untranslatable("math.sqrt outside a q*sqrt(r) product/quotient: " + ast.unparse(node)[:50])
                if self.numtyp(node) == "Int":
                    if self.intconst(node):
                        return f"({node.value} : Rat)"
                    return f"(({self.int(node)} : Int) : Rat)"
                if isinstance(node, (ast.Name, ast.Attribute)):
                    return self.lookup(node)[0]
                if isinstance(node, ast.UnaryOp):
                    return f"(-{self.rat(node.operand)})"
                if isinstance(node, ast.BinOp):
                    if isinstance(node.op, ast.Pow):
                        return f"({self.rat(node.left)} ^ {node.right.value})"
                    op = "/" if isinstance(node.op, ast.Div) else OPS[type(node.op)]
                    return f"({self.rat(node.left)} {op} {self.rat(node.right)})"
                if isinstance(node, ast.Call):
                    f = ast.unparse(node.func)
                    if f in self.funcs:
                        return self.call(node)
                    if f == "abs":
                        return f"(cm_abs {self.rat(node.args[0])})"
                    if f in ("max", "min"):
                        return f"({f} {self.rat(node.args[0])} {self.rat(node.args[1])})"
                    if f == "sum":
                        return f"({self.term(node.args[0], 'ListRat')}).sum"
                raise Untranslatable("float expression " + ast.unparse(node)[:60])

            def surd(self, node):
                """(q, r): the real number q * sqrt(r), for products / quotients of rationals and math.sqrt(rational)"""
                if not self.has_sqrt(node):
                    return self.rat(node), "(1 : Rat)"
                if isinstance(node, ast.Call) and ast.unparse(node.func) == "math.sqrt" and len(node.args) == 1 and not node.keywords:
                    return "(1 : Rat)", self.rat(node.args[0])
                if isinstance(node, ast.BinOp) and isinstance(node.op, (ast.Mult, ast.Div)):
                    (q1, r1), (q2, r2) = self.surd(node.left), self.surd(node.right)
                    op = "*" if isinstance(node.op, ast.Mult) else "/"
                    ls, rs = self.has_sqrt(node.left), self.has_sqrt(node.right)
                    # sqrt(a) * sqrt(b) = sqrt(a*b), sqrt(a) / sqrt(b) = sqrt(a/b); a rational factor only touches q
                    r = f"({r1} {op} {r2})" if (ls and rs) else (r1 if ls else (r2 if op == "*" else f"((1 : Rat) / {r2})"))
                    return f"({q1} {op} {q2})", r
                raise Untranslatable("math.sqrt under " + type(node).__name__ + ": " + ast.unparse(node)[:50])

            def term(self, node, ty):
                """Lean term of the requested type"""
                if ty == "Rat":
                    return self.rat(node)
                if ty == "Int":
                    return self.int(node)
                if ty == "Nat":
                    return self.nat(node)
                if ty == "Pix":               # a coordinate pair (x, y) of Nat variables
                    if isinstance(node, ast.Tuple) and len(node.elts) == 2:
                        return f"({self.nat(node.elts[0])}, {self.nat(node.elts[1])})"
                    raise Untranslatable("pixel coordinate " + ast.unparse(node)[:40])
                got = self.typ(node)
                if got != ty:
                    raise Untranslatable(f"{ast.unparse(node)[:40]} : {got}, expected {ty}")
                if isinstance(node, (ast.Name, ast.Attribute)):
                    return self.lookup(node)[0]
                if isinstance(node, ast.Tuple):
                    return "[" + ", ".join(str(e.value) for e in node.elts) + "]"
                if isinstance(node, ast.Call) and ast.unparse(node.func) in self.funcs:
                    return self.call(node)
                raise Untranslatable(f"{ty} expression " + ast.unparse(node)[:60])

            # ---- conditions
            def boolean(self, node):
                if isinstance(node, ast.BoolOp):
                    op = " && " if isinstance(node.op, ast.And) else " || "
                    return "(" + op.join(self.boolean(v) for v in node.values) + ")"
                if isinstance(node, ast.UnaryOp) and isinstance(node.op, ast.Not):
                    t = None
                    try:
                        t = self.typ(node.operand)
                    except Untranslatable:
                        pass
                    if t in ("ListRat", "ListInt"):          # `not xs`: the list is empty
                        return f"({self.term(node.operand, t)}).isEmpty"
                    return f"(!{self.boolean(node.operand)})"
                if isinstance(node, ast.Compare) and len(node.ops) == 1:
                    op, l, r = node.ops[0], node.left, node.comparators[0]
                    if isinstance(op, (ast.Is, ast.IsNot)):
                        if not (isinstance(r, ast.Constant) and r.value is None and self.typ(l) == "OptRat"):
                            raise Untranslatable("identity comparison " + ast.unparse(node)[:40])
                        return f"({self.term(l, 'OptRat')}).{'isNone' if isinstance(op, ast.Is) else 'isSome'}"
                    if type(op) not in CMP:
                        raise Untranslatable("comparison " + type(op).__name__)
                    lt, rt = self.typ(l), self.typ(r)
                    if lt == rt == "ListInt" and isinstance(op, (ast.Eq, ast.NotEq)):
                        return f"decide ({self.term(l, 'ListInt')} {CMP[type(op)]} {self.term(r, 'ListInt')})"
                    if self.numtyp(l) == "Int" and self.numtyp(r) == "Int":
                        return f"decide ({self.int(l)} {CMP[type(op)]} {self.int(r)})"
                    return f"decide ({self.rat(l)} {CMP[type(op)]} {self.rat(r)})"
                raise Untranslatable("condition " + ast.unparse(node)[:60])

        def result(node, rt, ret):
            if ret == "OptRat":
                if node is None or (isinstance(node, ast.Constant) and node.value is None):
                    return "none"
                return f"some {rt.rat(node)}"
            if node is None:
                raise Untranslatable("bare return")
            return rt.term(node, ret)

        def chain(stmts, rt, ret):
            """`x = e` / `if c: ... else: ...` / `return e` -> let / if-then-else / value"""
            if not stmts:
                raise Untranslatable("falls off the end")
            s = stmts[0]
            if isinstance(s, ast.Return):
                return result(s.value, rt, ret)
            if isinstance(s, ast.If):
                then = chain(s.body, rt, ret)
                rest = chain(s.orelse if s.orelse else stmts[1:], rt, ret)
                return f"(if {rt.boolean(s.test)} then {then} else {rest})"
            if isinstance(s, ast.Assign) and len(s.targets) == 1 and isinstance(s.targets[0], ast.Name):
                n = ident(s.targets[0].id)
                ty = rt.typ(s.value)
                ty = "Int" if ty == "Nat" else ty
                if ty not in LT:
                    raise Untranslatable("assignment of a " + ty)
                return f"(let {n} : {LT[ty]} := {rt.term(s.value, ty)}; {chain(stmts[1:], rt.bind(n, n, ty), ret)})"
            raise Untranslatable("statement " + type(s).__name__)

        # ------------------------------------------------------------------ prelude (meaning of the Python / Pillow primitives)
        def prelude():
            return "\n".join([
                "/-- Python `int(x)` on a float read as a rational: truncation toward zero -/",
                "def cm_py_int (q : Rat) : Int := if q ≥ 0 then q.floor else -((-q).floor)",
                "/-- Python `abs(x)` -/",
                "def cm_abs (q : Rat) : Rat := if q < 0 then -q else q",
                "/-- `for a, b, c in zip(as, bs, cs): acc = f(acc, a, b, c)` (zip stops at the shortest list) -/",
                "def cm_zip3_foldl {α : Type} (f : α → Int → Int → Int → α) : α → List Int → List Int → List Int → α",
                "  | acc, a :: as, b :: bs, c :: cs => cm_zip3_foldl f (f acc a b c) as bs cs",
                "  | acc, _, _, _ => acc",
                "/-- `range(a, b)` -/",
                "def cm_range (a b : Nat) : List Nat := List.range' a (b - a)",
                "/-- `image.getpixel((x, y))`, `image.putpixel((x, y), v)` on an image seen as a function of x and y -/",
                "def cm_getpixel (image : Nat → Nat → List Int) (p : Nat × Nat) : List Int := image p.1 p.2",
                "def cm_putpixel (image : Nat → Nat → List Int) (p : Nat × Nat) (v : List Int) : Nat → Nat → List Int :=",
                "  fun a b => if a = p.1 ∧ b = p.2 then v else image a b",
            ])
        api.emit("cm_prelude", prelude)

        # ------------------------------------------------------------------ extrap_num / interp_num
        def extrap_num():
            fn = find_func(tree(), "QRColorMask.extrap_num")
            a = [ident(x) for x in params(fn, 3)]
            rt = RT({x: (x, "Int") for x in a})
            return f"def cm_extrap_num ({' '.join(a)} : Int) : Option Rat := {chain(strip_doc(fn.body), rt, 'OptRat')}"
        api.emit("cm_extrap_num", extrap_num)

        def interp_num():
            fn = find_func(tree(), "QRColorMask.interp_num")
            a = [ident(x) for x in params(fn, 3)]
            rt = RT({a[0]: (a[0], "Int"), a[1]: (a[1], "Int"), a[2]: (a[2], "Rat")})
            return f"def cm_interp_num ({a[0]} {a[1]} : Int) ({a[2]} : Rat) : Int := {chain(strip_doc(fn.body), rt, 'Int')}"
        api.emit("cm_interp_num", interp_num)

        F_INTERP_NUM = {"self.interp_num": ("cm_interp_num", 0, ["Int", "Int", "Rat"], "Int")}
        F_EXTRAP_NUM = {"self.extrap_num": ("cm_extrap_num", 0, ["Int", "Int", "Int"], "OptRat")}

        # ------------------------------------------------------------------ interp_color
        def rng(node, rt):
            """range(b) / range(a, b) -> cm_range a b (bounds of type Nat: names bound to Nat, or len(list))"""
            if not (isinstance(node, ast.Call) and ast.unparse(node.func) == "range" and not node.keywords and 1 <= len(node.args) <= 2):
                raise Untranslatable("range " + ast.unparse(node)[:40])

            def bound(b):
                if isinstance(b, ast.Constant) and RT.intconst(b) and b.value >= 0:
                    return str(b.value)
                if isinstance(b, ast.Name):
                    return rt.nat(b)
                if isinstance(b, ast.Call) and ast.unparse(b.func) == "len" and len(b.args) == 1 and rt.typ(b.args[0]) in ("ListInt", "ListRat"):
                    return f"({rt.term(b.args[0], rt.typ(b.args[0]))}).length"
                raise Untranslatable("range bound " + ast.unparse(b)[:40])
            lo = "0" if len(node.args) == 1 else bound(node.args[0])
            return f"(cm_range {lo} {bound(node.args[-1])})"

        def interp_color():
            fn = find_func(tree(), "QRColorMask.interp_color")
            a = [ident(x) for x in params(fn, 3)]
            body = strip_doc(fn.body)
            if not (len(body) == 1 and isinstance(body[0], ast.Return) and isinstance(body[0].value, ast.Call)
                    and ast.unparse(body[0].value.func) == "tuple" and len(body[0].value.args) == 1
                    and isinstance(body[0].value.args[0], ast.GeneratorExp)):
                raise Untranslatable("interp_color is not `return tuple(<generator>)`")
            g = body[0].value.args[0]
            if not (len(g.generators) == 1 and not g.generators[0].ifs and not g.generators[0].is_async
                    and isinstance(g.generators[0].target, ast.Name)):
                raise Untranslatable("generator shape")
            i = ident(g.generators[0].target.id)
            rt = RT({a[0]: (a[0], "ListInt"), a[1]: (a[1], "ListInt"), a[2]: (a[2], "Rat")}, F_INTERP_NUM)
            r = rng(g.generators[0].iter, rt)
            elt = rt.bind(i, i, "Nat").int(g.elt)
            return (f"def cm_interp_color ({a[0]} {a[1]} : List Int) ({a[2]} : Rat) : List Int := "
                    f"{r}.map fun {i} => {elt}")
        api.emit("cm_interp_color", interp_color)

        # ------------------------------------------------------------------ extrap_color
        def extrap_color():
            fn = find_func(tree(), "QRColorMask.extrap_color")
            a = [ident(x) for x in params(fn, 3)]
            body = strip_doc(fn.body)
            if len(body) < 3:
                raise Untranslatable("extrap_color: expected init / loop / result")
            init, loop, tail = body[0], body[1], body[2:]
            if not (isinstance(init, ast.Assign) and len(init.targets) == 1 and isinstance(init.targets[0], ast.Name)
                    and isinstance(init.value, ast.List) and not init.value.elts):
                raise Untranslatable("first statement is not `<acc> = []`")
            acc = ident(init.targets[0].id)
            if not (isinstance(loop, ast.For) and not loop.orelse and isinstance(loop.target, ast.Tuple) and len(loop.target.elts) == 3
                    and all(isinstance(e, ast.Name) for e in loop.target.elts)
                    and isinstance(loop.iter, ast.Call) and ast.unparse(loop.iter.func) == "zip" and len(loop.iter.args) == 3
                    and not loop.iter.keywords and all(isinstance(e, ast.Name) and e.id in a for e in loop.iter.args)):
                raise Untranslatable("loop is not `for a, b, c in zip(<three parameters>)`")
            vs = [ident(e.id) for e in loop.target.elts]
            if len(set(vs + [acc])) != 4:
                raise Untranslatable("loop variables not distinct")
            lists = [e.id for e in loop.iter.args]
            rt = RT({v: (v, "Int") for v in vs}, F_EXTRAP_NUM).bind(acc, acc, "ListRat")
            lb = loop.body
            if not (len(lb) == 2 and isinstance(lb[0], ast.Assign) and len(lb[0].targets) == 1 and isinstance(lb[0].targets[0], ast.Name)
                    and isinstance(lb[1], ast.If)):
                raise Untranslatable("loop body is not `<v> = ...; if <v> is [not] None: ...`")
            ev = ident(lb[0].targets[0].id)
            if rt.typ(lb[0].value) != "OptRat":
                raise Untranslatable("loop body does not start with an extrap_num call")
            scrut = rt.term(lb[0].value, "OptRat")
            t = lb[1].test
            if not (isinstance(t, ast.Compare) and len(t.ops) == 1 and isinstance(t.ops[0], (ast.Is, ast.IsNot))
                    and isinstance(t.left, ast.Name) and t.left.id == ev
                    and isinstance(t.comparators[0], ast.Constant) and t.comparators[0].value is None):
                raise Untranslatable("test is not `<v> is [not] None`")

            def branch(stmts, have_value):
                """a sequence of `<acc>.append(<v>)` statements"""
                out = acc
                for s in stmts:
                    if isinstance(s, ast.Pass):
                        continue
                    if not (isinstance(s, ast.Expr) and isinstance(s.value, ast.Call) and ast.unparse(s.value.func) == acc + ".append"
                            and len(s.value.args) == 1 and not s.value.keywords):
                        raise Untranslatable("branch statement " + ast.unparse(s)[:40])
                    x = s.value.args[0]
                    if isinstance(x, ast.Name) and x.id == ev:
                        if not have_value:
                            raise Untranslatable("appends None")
                        out = f"({out} ++ [{ev}])"
                    else:
                        out = f"({out} ++ [{rt.rat(x)}])"
                return out
            is_not = isinstance(t.ops[0], ast.IsNot)
            some_b = branch(lb[1].body if is_not else lb[1].orelse, True)
            none_b = branch(lb[1].orelse if is_not else lb[1].body, False)
            rt2 = RT({acc: (acc, "ListRat")})
            res = chain(tail, rt2, "OptRat")
            return "\n".join([
                f"def cm_extrap_color_init : List Rat := []",
                f"def cm_extrap_color_step ({acc} : List Rat) ({' '.join(vs)} : Int) : List Rat :=\n"
                f"  match {scrut} with\n  | some {ev} => {some_b}\n  | none => {none_b}",
                f"def cm_extrap_color_result ({acc} : List Rat) : Option Rat := {res}",
                f"def cm_extrap_color ({' '.join(a)} : List Int) : Option Rat :=\n"
                f"  cm_extrap_color_result (cm_zip3_foldl cm_extrap_color_step cm_extrap_color_init {' '.join(lists)})"])
        api.emit("cm_extrap_color", extrap_color)

        # ------------------------------------------------------------------ get_bg_pixel, SolidFillColorMask.get_fg_pixel
        def pixel_getter(qual, lean, attr_params):
            def f():
                fn = find_func(tree(), qual)
                a = params(fn, 3)
                if a[0] != "image":
                    raise Untranslatable("first parameter is not `image`")
                x, y = ident(a[1]), ident(a[2])
                env = {x: (x, "Nat"), y: (y, "Nat")}
                for p in attr_params:
                    env["self." + p] = (p, "ListInt")
                return (f"def {lean} ({' '.join(attr_params)} : List Int) ({x} {y} : Nat) : List Int := "
                        f"{chain(strip_doc(fn.body), RT(env), 'ListInt')}")
            return f
        api.emit("cm_get_bg_pixel", pixel_getter("QRColorMask.get_bg_pixel", "cm_get_bg_pixel", ["back_color"]))
        api.emit("cm_solid_get_fg_pixel", pixel_getter("SolidFillColorMask.get_fg_pixel", "cm_solid_get_fg_pixel", ["front_color"]))

        # ------------------------------------------------------------------ QRColorMask.apply_mask
        def size_unpack(s):
            """`a, b = image.size` -> (a, b)"""
            if not (isinstance(s, ast.Assign) and len(s.targets) == 1 and isinstance(s.targets[0], ast.Tuple) and len(s.targets[0].elts) == 2
                    and all(isinstance(e, ast.Name) for e in s.targets[0].elts) and ast.unparse(s.value) == "image.size"):
                raise Untranslatable("first statement is not `<a>, <b> = image.size`")
            return s.targets[0].elts[0].id, s.targets[0].elts[1].id

        def apply_mask():
            fn = find_func(tree(), "QRColorMask.apply_mask")
            if params(fn, 1) != ["image"]:
                raise Untranslatable("parameter is not `image`")
            body = strip_doc(fn.body)
            if len(body) != 2:
                raise Untranslatable("apply_mask: expected the size unpacking and one loop nest")
            w, h = size_unpack(body[0])
            outer = body[1]
            if not (isinstance(outer, ast.For) and not outer.orelse and isinstance(outer.target, ast.Name) and len(outer.body) == 1):
                raise Untranslatable("outer loop shape")
            inner = outer.body[0]
            if not (isinstance(inner, ast.For) and not inner.orelse and isinstance(inner.target, ast.Name) and len(inner.body) == 2):
                raise Untranslatable("inner loop shape")
            ov, iv = ident(outer.target.id), ident(inner.target.id)
            if ov == iv:
                raise Untranslatable("loop variables coincide")
            funcs = {"self.extrap_color": ("cm_extrap_color", 0, ["ListInt", "ListInt", "ListInt"], "OptRat"),
                     "self.interp_color": ("cm_interp_color", 0, ["ListInt", "ListInt", "Rat"], "ListInt"),
                     "self.get_bg_pixel": ("cm_get_bg_pixel back_color", 1, ["Nat", "Nat"], "ListInt"),
                     "self.get_fg_pixel": ("fg", 1, ["Nat", "Nat"], "ListInt"),
                     "image.getpixel": ("cm_getpixel image", 0, ["Pix"], "ListInt")}
            size = RT({w: ("size0", "Nat"), h: ("size1", "Nat")})
            r_out = rng(outer.iter, size)
            r_in = rng(inner.iter, size.bind(ov, ov, "Nat"))
            rt = RT({"self.back_color": ("back_color", "ListInt"), "self.paint_color": ("paint_color", "ListInt"),
                     ov: (ov, "Nat"), iv: (iv, "Nat")}, funcs)
            asg, test = inner.body
            if not (isinstance(asg, ast.Assign) and len(asg.targets) == 1 and isinstance(asg.targets[0], ast.Name)
                    and rt.typ(asg.value) == "OptRat" and isinstance(test, ast.If)):
                raise Untranslatable("pixel body is not `<v> = self.extrap_color(...); if <v> is [not] None: ... else: ...`")
            nv = ident(asg.targets[0].id)
            t = test.test
            if not (isinstance(t, ast.Compare) and len(t.ops) == 1 and isinstance(t.ops[0], (ast.Is, ast.IsNot))
                    and isinstance(t.left, ast.Name) and t.left.id == nv
                    and isinstance(t.comparators[0], ast.Constant) and t.comparators[0].value is None):
                raise Untranslatable("test is not `<v> is [not] None`")

            def branch(stmts, r):
                """a sequence of image.putpixel((a, b), colour) statements"""
                out = "image"
                for s in stmts:
                    if isinstance(s, ast.Pass):
                        continue
                    if not (isinstance(s, ast.Expr) and isinstance(s.value, ast.Call) and ast.unparse(s.value.func) == "image.putpixel"
                            and len(s.value.args) == 2 and not s.value.keywords):
                        raise Untranslatable("branch statement " + ast.unparse(s)[:40])
                    if out != "image":
                        raise Untranslatable("more than one putpixel in a branch")      # (later reads would see the first write)
                    out = f"(cm_putpixel {out} {r.term(s.value.args[0], 'Pix')} {r.term(s.value.args[1], 'ListInt')})"
                return out
            is_not = isinstance(t.ops[0], ast.IsNot)
            some_b = branch(test.body if is_not else test.orelse, rt.bind(nv, nv, "Rat"))
            none_b = branch(test.orelse if is_not else test.body, rt)
            sig = "(back_color paint_color : List Int) (fg : Nat → Nat → List Int)"
            img = "(image : Nat → Nat → List Int)"
            return "\n".join([
                f"def cm_apply_mask_body {sig} {img} ({ov} {iv} : Nat) : Nat → Nat → List Int :=\n"
                f"  match {rt.term(asg.value, 'OptRat')} with\n  | some {nv} => {some_b}\n  | none => {none_b}",
                f"def cm_apply_mask {sig} (size0 size1 : Nat) {img} : Nat → Nat → List Int :=\n"
                f"  {r_out}.foldl (fun image {ov} => {r_in}.foldl (fun image {iv} => "
                f"cm_apply_mask_body back_color paint_color fg image {ov} {iv}) image) image"])
        api.emit("cm_apply_mask", apply_mask)

        # ------------------------------------------------------------------ SolidFillColorMask.apply_mask
        def solid():
            fn = find_func(tree(), "SolidFillColorMask.apply_mask")
            if params(fn, 1) != ["image"]:
                raise Untranslatable("parameter is not `image`")
            body = strip_doc(fn.body)
            if not (len(body) == 1 and isinstance(body[0], ast.If)):
                raise Untranslatable("SolidFillColorMask.apply_mask is not a single if/else")
            rt = RT({"self.back_color": ("back_color", "ListInt"), "self.front_color": ("front_color", "ListInt")})

            def branch(stmts):
                ss = [s for s in stmts if not isinstance(s, ast.Pass)]
                if not ss:
                    return "image"
                if len(ss) == 1 and isinstance(ss[0], ast.Expr) and ast.unparse(ss[0].value) == "QRColorMask.apply_mask(self, image)":
                    return "cm_apply_mask back_color paint_color (cm_solid_get_fg_pixel front_color) size0 size1 image"
                raise Untranslatable("branch " + ast.unparse(ss[0])[:50])
            return "\n".join([
                f"def cm_solid_fast_path (back_color front_color : List Int) : Bool := {rt.boolean(body[0].test)}",
                "def cm_solid_apply_mask (back_color front_color paint_color : List Int) (size0 size1 : Nat) "
                "(image : Nat → Nat → List Int) : Nat → Nat → List Int :=\n"
                f"  if cm_solid_fast_path back_color front_color then {branch(body[0].body)} else {branch(body[0].orelse)}"])
        api.emit("cm_solid_apply_mask", solid)

        # ------------------------------------------------------------------ gradient masks: get_fg_pixel
        def gradient(cls, kind, ends):
            def f():
                fn = find_func(tree(), cls + ".get_fg_pixel")
                a = params(fn, 3)
                if a[0] != "image":
                    raise Untranslatable("first parameter is not `image`")
                x, y = ident(a[1]), ident(a[2])
                body = strip_doc(fn.body)
                if len(body) < 2:
                    raise Untranslatable("get_fg_pixel shape")
                w, h = size_unpack(body[0])
                env = {x: (x, "Int"), y: (y, "Int"), w: ("size0", "Int"), h: ("size1", "Int")}
                rt = RT(env)
                stmts = body[1:]
                # optional `<v> = <normalisation>` before the return
                nvar = None
                if len(stmts) == 2 and isinstance(stmts[0], ast.Assign) and len(stmts[0].targets) == 1 and isinstance(stmts[0].targets[0], ast.Name):
                    nvar, nexpr = stmts[0].targets[0].id, stmts[0].value
                    stmts = stmts[1:]
                r = stmts[0]
                if not (len(stmts) == 1 and isinstance(r, ast.Return) and isinstance(r.value, ast.Call)
                        and ast.unparse(r.value.func) == "self.interp_color" and len(r.value.args) == 3 and not r.value.keywords):
                    raise Untranslatable("does not end in `return self.interp_color(c1, c2, norm)`")
                c1, c2, n = r.value.args
                # the two end colours: FIXED binders in the order (first end, second end) of the class's role names, so that
                # swapping the attributes in the call changes the meaning of the generated definition, not only its binder names
                cols = list(ends)
                crt = RT({"self." + c: (c, "ListInt") for c in cols + ["back_color"]})
                cargs = [crt.term(c1, "ListInt"), crt.term(c2, "ListInt")]
                if nvar is not None:
                    if not (isinstance(n, ast.Name) and n.id == nvar):
                        raise Untranslatable("third argument is not the normalisation variable")
                    n = nexpr
                sig = f"(size0 size1 {x} {y} : Int)"
                if rt.has_sqrt(n):
                    q, rr = rt.surd(n)
                    return "\n".join([
                        f"/-- the pair (q, r) stands for the real number q * sqrt(r) -/",
                        f"def cm_{kind}_norm_surd {sig} : Rat × Rat := ({q}, {rr})",
                        f"/-- `norm` stands for the float value of `cm_{kind}_norm_surd` -/",
                        f"def cm_{kind}_fg (back_color {cols[0]} {cols[1]} : List Int) (norm : Rat) : List Int := "
                        f"cm_interp_color {cargs[0]} {cargs[1]} norm",
                        f"def cm_{kind}_norm_text : String := {json.dumps(ast.unparse(n))}"])
                return "\n".join([
                    f"def cm_{kind}_norm {sig} : Rat := {rt.rat(n)}",
                    f"def cm_{kind}_fg (back_color {cols[0]} {cols[1]} : List Int) {sig} : List Int := "
                    f"cm_interp_color {cargs[0]} {cargs[1]} (cm_{kind}_norm size0 size1 {x} {y})"])
            return f
        api.emit("cm_radial", gradient("RadialGradiantColorMask", "radial", ("center_color", "edge_color")))
        api.emit("cm_square", gradient("SquareGradiantColorMask", "square", ("center_color", "edge_color")))
        api.emit("cm_horizontal", gradient("HorizontalGradiantColorMask", "horizontal", ("left_color", "right_color")))
        api.emit("cm_vertical", gradient("VerticalGradiantColorMask", "vertical", ("top_color", "bottom_color")))

    fragments(api)


# =====================================================================================================================
# C5   (worker plugin frag_c5.py, embedded unchanged as a closure)
# =====================================================================================================================
def _c5(api):
    """T2 fragments, item C5: qrcode/image/styledpil.py (paint colour, new_image mode, embedded-image geometry) and
qrcode/image/pil.py (PilImage.new_image: defaults, lower-casing, the mode / colour branch).

Everything is read from the Python AST; generated names start with `spil_` (styledpil.py) or `pil_` (pil.py).

Modelling conventions (stated here once, repeated as doc comments in the generated text):
  * colours (tuples / lists of ints) are `List Int`; `tuple(...)`, `[...]`, `[*x, e]`, `x[:k]`, `(e for i in x)` are list terms;
  * in `draw_embeded_image` the names `self._img.size[0]`, `self.box_size` are ints (Pillow sizes are ints, `box_size` is an
    int for every image the library builds from an int `box_size`); `self.embeded_image_ratio` is a real number (Rat).
    `int(a / b)` with int-typed a, b is `Int.tdiv a b` (truncation toward zero of the exact quotient), `int(real)` is
    `spil_pyInt` (truncation toward zero of the exact real).  ASSUMPTION about floats: the float quotient / product is the exact
    one (true for `a / b` whenever |a|, |b| < 2^53 up to the final truncation; for `total_width * ratio` it is an assumption);
  * in `PilImage.new_image` a colour value is a `pil_Val α` (a str, an int, None, or some other opaque value such as a tuple);
    `str.lower` is a function parameter `lower` (Python's is Unicode-aware), `try: v = v.lower() except AttributeError: pass`
    is `pil_Val.lowered lower v`, `v == "lit"` is `pil_Val.eqStr v "lit"`.
"""
    import ast
    import fractions


    def fragments(api):
        Tr, U = api.Tr, api.Untranslatable
        find_func, strip_doc = api.find_func, api.strip_doc

        def need(cond, why):
            if not cond:
                raise U(why)

        def unp(node):
            return ast.unparse(node)

        def lean_str(s):
            out = []
            for ch in s:
                o = ord(ch)
                if ch == '"':
                    out.append('\\"')
                elif ch == "\\":
                    out.append("\\\\")
                elif ch == "\n":
                    out.append("\\n")
                elif o < 0x20 or o == 0x7F:
                    out.append("\\x%02x" % o)
                elif o > 0x7E:
                    out.append("\\u{%x}" % o)
                else:
                    out.append(ch)
            return '"' + "".join(out) + '"'

        def str_list(xs):
            return "[" + ", ".join(lean_str(x) for x in xs) + "]"

        def is_str(node):
            return isinstance(node, ast.Constant) and isinstance(node.value, str)

        def is_int(node):
            return isinstance(node, ast.Constant) and isinstance(node.value, int) and not isinstance(node.value, bool)

        def name_of(node):
            if isinstance(node, ast.Name):
                return node.id
            if isinstance(node, ast.Attribute):
                return name_of(node.value) + "." + node.attr
            raise U("unsupported name " + unp(node)[:50])

        def is_path(node):
            try:
                name_of(node)
                return True
            except U:
                return False

        PRELUDE = '''/-- Python `int(x)` of a real number: truncation toward zero -/
def spil_pyInt (q : Rat) : Int := if q ≥ 0 then q.floor else -((-q).floor)
/-- Python values that occur as colours in `PilImage.new_image`: a str, an int, None, or anything else (a tuple ...; opaque) -/
inductive pil_Val (α : Type) where
  | str (s : String) | int (n : Int) | none | other (a : α)
/-- `try: v = v.lower() except AttributeError: pass` (`lower` = Python's `str.lower`) -/
def pil_Val.lowered {α : Type} (lower : String → String) : pil_Val α → pil_Val α
  | .str s => .str (lower s)
  | v => v
/-- `v == "literal"` -/
def pil_Val.eqStr {α : Type} : pil_Val α → String → Bool
  | .str s, t => s == t
  | _, _ => false'''
        api.emit("c5_prelude", lambda: PRELUDE)

        # ------------------------------------------------------------------------------------------------------------------
        # list (colour) expressions
        def lst(node, env):
            """a Python tuple / list expression of ints as a Lean `List Int` term; env: dotted name -> Lean `List Int` term"""
            if isinstance(node, ast.Call) and isinstance(node.func, ast.Name) and node.func.id in ("tuple", "list") \
                    and len(node.args) == 1 and not node.keywords:
                return lst(node.args[0], env)
            if isinstance(node, (ast.GeneratorExp, ast.ListComp)):
                need(len(node.generators) == 1, "comprehension with several generators")
                g = node.generators[0]
                need(not g.ifs and not g.is_async and isinstance(g.target, ast.Name), "comprehension shape")
                v = g.target.id
                elt = Tr({v: v}, "Int").num(node.elt)
                return f"({lst(g.iter, env)}.map (fun ({v} : Int) => ({elt} : Int)))"
            if isinstance(node, (ast.List, ast.Tuple)):
                parts = []
                for e in node.elts:
                    if isinstance(e, ast.Starred):
                        parts.append(lst(e.value, env))
                    else:
                        parts.append(f"[{Tr({}, 'Int').num(e)}]")
                need(parts, "empty colour")
                return "(" + " ++ ".join(parts) + ")"
            if isinstance(node, ast.Subscript) and isinstance(node.slice, ast.Slice):
                sl = node.slice
                need(sl.step is None, "slice with a step")
                if sl.lower is None and is_int(sl.upper) and sl.upper.value >= 0:
                    return f"({lst(node.value, env)}.take {sl.upper.value})"
                if sl.upper is None and is_int(sl.lower) and sl.lower.value >= 0:
                    return f"({lst(node.value, env)}.drop {sl.lower.value})"
                raise U("slice " + unp(node))
            if isinstance(node, (ast.Name, ast.Attribute)):
                n = name_of(node)
                if n in env:
                    return env[n]
                raise U("free name " + n)
            raise U("colour expression " + unp(node)[:60])

        def assigned_attrs(fn, attr):
            """all statements of `fn` that store to `self.<attr>` (any depth)"""
            found = []
            for n in ast.walk(fn):
                tg = []
                if isinstance(n, ast.Assign):
                    tg = n.targets
                elif isinstance(n, (ast.AugAssign, ast.AnnAssign)):
                    tg = [n.target]
                for t in tg:
                    for x in ast.walk(t):
                        if isinstance(x, ast.Attribute) and x.attr == attr:
                            found.append(n)
            return found

        # ------------------------------------------------------------------------------------------------------------------
        # StyledPilImage.__init__: paint_color
        def paint():
            tree = api.parse("qrcode/image/styledpil.py")
            fn = find_func(tree, "StyledPilImage.__init__")
            body = strip_doc(fn.body)
            idx = [k for k, s in enumerate(body) if any(isinstance(x, ast.Attribute) and x.attr == "paint_color" for x in ast.walk(s))]
            need(len(idx) == 2 and idx[1] == idx[0] + 1, "expected `self.paint_color = ...` directly followed by one `if ...: self.paint_color = ...`")
            a, b = body[idx[0]], body[idx[1]]
            need(len(assigned_attrs(fn, "paint_color")) == 2, "paint_color is stored elsewhere in __init__")
            need(isinstance(a, ast.Assign) and len(a.targets) == 1 and unp(a.targets[0]) == "self.paint_color", "first paint_color statement")
            need(isinstance(b, ast.If) and not b.orelse and len(b.body) == 1 and isinstance(b.body[0], ast.Assign)
                 and len(b.body[0].targets) == 1 and unp(b.body[0].targets[0]) == "self.paint_color", "second paint_color statement")
            env = {"self.color_mask.back_color": "back_color"}
            cond = Tr({"self.color_mask.has_transparency": "has_transparency"}, "Int").boolean(b.test)
            # where the mask comes from, and what follows (the base-class constructor must run after the paint colour is set)
            cm = [s for s in body if isinstance(s, ast.Assign) and unp(s.targets[0]) == "self.color_mask"]
            need(len(cm) == 1 and body.index(cm[0]) < idx[0], "self.color_mask is not set (once) before the paint colour")
            rest = [unp(s) for s in body[idx[1] + 1:]]
            return (f"def spil_paint_color_default (back_color : List Int) : List Int := {lst(a.value, env)}\n"
                    f"def spil_paint_color_override (back_color : List Int) : List Int := {lst(b.body[0].value, env)}\n"
                    "/-- the value of `self.paint_color` after `StyledPilImage.__init__` -/\n"
                    "def spil_paint_color (back_color : List Int) (has_transparency : Bool) : List Int :=\n"
                    f"  if {cond} then spil_paint_color_override back_color else spil_paint_color_default back_color\n"
                    f"def spil_color_mask_source : String := {lean_str(unp(cm[0].value))}\n"
                    f"def spil_init_after_paint : List String := {str_list(rest)}")
        api.emit("spil_paint", paint)

        # colormasks.py: where `has_transparency` (read by __init__ and new_image) comes from
        def has_transparency():
            tree = api.parse("qrcode/image/styles/colormasks.py")
            outs, names = [], []
            for cls in tree.body:
                if not isinstance(cls, ast.ClassDef):
                    continue
                stores = [n for n in ast.walk(cls) if isinstance(n, (ast.Assign, ast.AugAssign, ast.AnnAssign))
                          and any((isinstance(x, ast.Attribute) and x.attr == "has_transparency") or (isinstance(x, ast.Name) and x.id == "has_transparency")
                                  for t in (n.targets if isinstance(n, ast.Assign) else [n.target]) for x in ast.walk(t))]
                if not stores:
                    continue
                need(len(stores) == 1 and isinstance(stores[0], ast.Assign) and len(stores[0].targets) == 1,
                     f"{cls.name}: has_transparency stored more than once")
                st = stores[0]
                names.append(cls.name)
                if st in cls.body:                                   # class attribute
                    need(isinstance(st.targets[0], ast.Name), f"{cls.name}: class attribute shape")
                    bc = [s for s in cls.body if isinstance(s, ast.Assign) and unp(s.targets[0]) == "back_color"]
                    need(len(bc) == 1, f"{cls.name}: class attribute back_color")
                    outs.append(f"def spil_has_transparency_{cls.name} : Bool := {Tr({}, 'Int').boolean(st.value)}\n"
                                f"def spil_back_color_{cls.name} : List Int := {lst(bc[0].value, {})}")
                    continue
                init = next((s for s in cls.body if isinstance(s, ast.FunctionDef) and s.name == "__init__"), None)
                need(init is not None and st in init.body, f"{cls.name}: has_transparency is not set at the top level of __init__")
                need(unp(st.targets[0]) == "self.has_transparency", f"{cls.name}: target {unp(st.targets[0])}")
                bcs = [s for s in assigned_attrs(init, "back_color")]
                need(len(bcs) == 1 and bcs[0] in init.body and init.body.index(bcs[0]) < init.body.index(st)
                     and isinstance(bcs[0], ast.Assign) and unp(bcs[0].targets[0]) == "self.back_color",
                     f"{cls.name}: self.back_color is not set exactly once before has_transparency")
                src = bcs[0].value
                need(isinstance(src, ast.Name) and src.id in [x.arg for x in init.args.args], f"{cls.name}: back_color is not the constructor argument")
                tr = Tr({}, "Nat", {"len(self.back_color)": "back_color.length"})
                outs.append(f"def spil_has_transparency_{cls.name} (back_color : List Int) : Bool := {tr.boolean(st.value)}")
            need(names, "no class sets has_transparency")
            outs.append(f"def spil_mask_classes : List String := {str_list(names)}")
            return "\n".join(outs)
        api.emit("spil_has_transparency", has_transparency)

        # ------------------------------------------------------------------------------------------------------------------
        # StyledPilImage.new_image
        def truth(node, bools, bands):
            """truth value of a condition built from named truthy values, `"X" in <obj>.getbands()`, and / or / not"""
            if isinstance(node, ast.BoolOp):
                op = " && " if isinstance(node.op, ast.And) else " || "
                return "(" + op.join(truth(v, bools, bands) for v in node.values) + ")"
            if isinstance(node, ast.UnaryOp) and isinstance(node.op, ast.Not):
                return f"(!{truth(node.operand, bools, bands)})"
            if isinstance(node, (ast.Name, ast.Attribute)):
                n = name_of(node)
                if n in bools:
                    return bools[n]
                raise U("truth value of " + n)
            if isinstance(node, ast.Compare) and len(node.ops) == 1 and isinstance(node.ops[0], (ast.In, ast.NotIn)) and is_str(node.left):
                r = unp(node.comparators[0])
                if r in bands:
                    t = f"({bands[r]}.contains {lean_str(node.left.value)})"
                    return t if isinstance(node.ops[0], ast.In) else f"(!{t})"
                raise U("membership in " + r)
            raise U("condition " + unp(node)[:60])

        def styled_new_image():
            tree = api.parse("qrcode/image/styledpil.py")
            fn = find_func(tree, "StyledPilImage.new_image")
            body = strip_doc(fn.body)
            need(len(body) == 3 and all(isinstance(s, ast.Assign) and len(s.targets) == 1 and isinstance(s.targets[0], ast.Name) for s in body[:2])
                 and isinstance(body[2], ast.Return), "expected two assignments and a return")
            vals = {s.targets[0].id: s.value for s in body[:2]}
            need(len(vals) == 2, "the two assignments have the same target")
            call = body[2].value
            need(isinstance(call, ast.Call) and unp(call.func) == "Image.new" and len(call.args) == 3 and not call.keywords, "return Image.new(mode, size, colour)")
            m, size, col = call.args
            need(isinstance(m, ast.Name) and m.id in vals and isinstance(col, ast.Name) and col.id in vals and m.id != col.id, "Image.new arguments")
            mode = vals[m.id]
            need(isinstance(mode, ast.IfExp) and is_str(mode.body) and is_str(mode.orelse), "mode is not `\"..\" if .. else \"..\"`")
            cond = truth(mode.test, {"self.color_mask.has_transparency": "has_transparency", "self.embeded_image": "embeded_image"},
                         {"self.embeded_image.getbands()": "embeded_bands"})
            need(isinstance(size, ast.Tuple) and len(size.elts) == 2, "size is not a pair")
            trn = Tr({"self.pixel_size": "pixel_size"}, "Nat")
            need(is_path(vals[col.id]), "background is not an attribute path")
            return ("/-- `embeded_image`: truthiness of `self.embeded_image`; `embeded_bands`: `self.embeded_image.getbands()` -/\n"
                    "def spil_new_image_mode (has_transparency embeded_image : Bool) (embeded_bands : List String) : String :=\n"
                    f"  if {cond} then {lean_str(mode.body.value)} else {lean_str(mode.orelse.value)}\n"
                    f"def spil_new_image_size (pixel_size : Nat) : Nat × Nat := ({trn.num(size.elts[0])}, {trn.num(size.elts[1])})\n"
                    f"def spil_new_image_colour : String := {lean_str(unp(vals[col.id]))}\n"
                    f"def spil_new_image_call : String := {lean_str(unp(call))}")
        api.emit("spil_new_image", styled_new_image)

        # ------------------------------------------------------------------------------------------------------------------
        # StyledPilImage.draw_embeded_image: geometry
        class Geo:
            """typed arithmetic: ints (Lean Int), reals (Lean Rat), pairs of ints; env: name -> (type, Lean term)"""

            def __init__(self, env):
                self.env = dict(env)

            def ex(self, node):
                if is_int(node):
                    return ("int", f"({node.value} : Int)")
                if isinstance(node, ast.Constant) and isinstance(node.value, float):
                    fr = fractions.Fraction(node.value)
                    return ("real", f"(({fr.numerator} : Rat) / {fr.denominator})")
                if isinstance(node, (ast.Name, ast.Attribute)):
                    n = name_of(node)
                    if n in self.env:
                        return self.env[n]
                    raise U("free name " + n)
                if isinstance(node, ast.UnaryOp) and isinstance(node.op, ast.USub):
                    t, e = self.ex(node.operand)
                    need(t in ("int", "real"), "negation of a pair")
                    return (t, f"(-{e})")
                if isinstance(node, ast.Tuple) and len(node.elts) == 2:
                    (ta, a), (tb, b) = self.ex(node.elts[0]), self.ex(node.elts[1])
                    need(ta == "int" and tb == "int", "pair of non-ints")
                    return ("pair", f"({a}, {b})")
                if isinstance(node, ast.BinOp):
                    (ta, a), (tb, b) = self.ex(node.left), self.ex(node.right)
                    need(ta in ("int", "real") and tb in ("int", "real"), "arithmetic on a pair")
                    if isinstance(node.op, (ast.Add, ast.Sub, ast.Mult)):
                        op = {ast.Add: "+", ast.Sub: "-", ast.Mult: "*"}[type(node.op)]
                        if ta == "int" and tb == "int":
                            return ("int", f"({a} - {b})" if op == "-" else f"({a} {op} {b})")
                        return ("real", f"({self.real(ta, a)} {op} {self.real(tb, b)})")
                    if isinstance(node.op, ast.Div):
                        if ta == "int" and tb == "int":
                            return ("quot", (a, b))                      # only meaningful under int(...)
                        return ("real", f"({self.real(ta, a)} / {self.real(tb, b)})")
                    raise U("operator " + type(node.op).__name__)
                if isinstance(node, ast.Call) and isinstance(node.func, ast.Name) and node.func.id == "int" and len(node.args) == 1 and not node.keywords:
                    t, e = self.ex(node.args[0])
                    if t == "int":
                        return ("int", e)
                    if t == "quot":
                        return ("int", f"(Int.tdiv {e[0]} {e[1]})")
                    if t == "real":
                        return ("int", f"(spil_pyInt {e})")
                    raise U("int() of a pair")
                raise U("expression " + unp(node)[:60])

            def real(self, t, e):
                return e if t == "real" else f"(({e} : Int) : Rat)"

            def value(self, node):
                t, e = self.ex(node)
                need(t != "quot", "true division of ints outside int(...)")
                return t, e

        LTY = {"int": "Int", "real": "Rat", "pair": "Int × Int"}

        def logo():
            tree = api.parse("qrcode/image/styledpil.py")
            fn = find_func(tree, "StyledPilImage.draw_embeded_image")
            body = strip_doc(fn.body)
            need(len(body) >= 3, "body too short")
            g0 = body[0]
            need(isinstance(g0, ast.If) and not g0.orelse and len(g0.body) == 1 and isinstance(g0.body[0], ast.Return) and g0.body[0].value is None,
                 "first statement is not `if ...: return`")
            guard = truth(g0.test, {"self.embeded_image": "embeded_image"}, {})
            s1 = body[1]
            need(isinstance(s1, ast.Assign) and len(s1.targets) == 1 and isinstance(s1.targets[0], ast.Tuple) and len(s1.targets[0].elts) == 2
                 and all(isinstance(e, ast.Name) for e in s1.targets[0].elts) and unp(s1.value) == "self._img.size",
                 "second statement is not `w, h = self._img.size`")
            wname, hname = (e.id for e in s1.targets[0].elts)
            need(wname != hname, "size unpacked into one name")
            geo = Geo({"self.box_size": ("int", "box_size"), "self.embeded_image_ratio": ("real", "embeded_image_ratio"),
                       wname: ("int", "img_width"), hname: ("int", "img_height")})
            lets = []            # (name, type, term, mentions the ratio)
            other = []
            k = 2
            while k < len(body) and isinstance(body[k], ast.Assign) and len(body[k].targets) == 1 and isinstance(body[k].targets[0], ast.Name):
                s = body[k]
                try:
                    t, e = geo.value(s.value)
                except U as err:
                    if len(body) - k == 3 and is_path(s.value):          # `region = self.embeded_image`: the arithmetic is over
                        break
                    raise U(f"{s.targets[0].id} = {unp(s.value)[:40]}: {err}")
                uses_ratio = any(isinstance(x, ast.Attribute) and x.attr == "embeded_image_ratio" for x in ast.walk(s.value))
                lets.append((s.targets[0].id, t, e, uses_ratio))
                geo.env[s.targets[0].id] = (t, s.targets[0].id)
                k += 1
            tail = body[k:]
            # tail: region = self.embeded_image; region = region.resize((w, h), resample); if "A" in region.getbands(): alpha_composite else paste
            need(len(tail) == 3, "expected `region = ...`, `region = region.resize(...)`, `if ...: alpha_composite / else: paste` after the arithmetic")
            r0, r1, r2 = tail
            need(isinstance(r0, ast.Assign) and isinstance(r0.targets[0], ast.Name) and is_path(r0.value), "region source")
            rn = r0.targets[0].id
            need(isinstance(r1, ast.Assign) and unp(r1.targets[0]) == rn and isinstance(r1.value, ast.Call) and unp(r1.value.func) == rn + ".resize"
                 and len(r1.value.args) == 2 and not r1.value.keywords, "resize statement")
            tsz, size = geo.value(r1.value.args[0])
            need(tsz == "pair", "resize size is not a pair of ints")
            need(isinstance(r2, ast.If) and len(r2.body) == 1 and len(r2.orelse) == 1, "composite / paste branch")
            calls = []
            for st in (r2.body[0], r2.orelse[0]):
                need(isinstance(st, ast.Expr) and isinstance(st.value, ast.Call) and len(st.value.args) == 2 and not st.value.keywords
                     and unp(st.value.args[0]) == rn, "composite / paste call")
                calls.append(st.value)
            need(unp(calls[0].args[1]) == unp(calls[1].args[1]), "the two branches place the logo at different positions")
            tpos, pos = geo.value(calls[0].args[1])
            need(tpos == "pair", "position is not a pair of ints")
            ratio_lets = [l for l in lets if l[3]]
            need(len(ratio_lets) == 1 and ratio_lets[0][1] == "int", "expected exactly one (int) value computed from embeded_image_ratio")
            rname = ratio_lets[0][0]
            need(sum(1 for l in lets if l[0] == rname) == 1 and rname not in (wname, hname), f"{rname} is assigned more than once")
            ri = lets.index(ratio_lets[0])

            def chain(ls):
                return "".join(f"  let {n} : {LTY[t]} := {e}\n" for (n, t, e, _) in ls)
            return ("/-- `draw_embeded_image` returns at once (draws nothing) -/\n"
                    f"def spil_logo_skip (embeded_image : Bool) : Bool := {guard}\n"
                    f"/-- `{rname}`; `img_width` = `self._img.size[0]`; exact real arithmetic assumed for the product -/\n"
                    f"def spil_{rname} (img_width img_height : Int) (embeded_image_ratio : Rat) : Int :=\n"
                    f"{chain(lets[:ri])}  {ratio_lets[0][2]}\n"
                    f"/-- (position of the logo, size it is resized to), given the value of `{rname}`; `int(a / b)` of ints = `Int.tdiv a b` -/\n"
                    f"def spil_logo_box_of (img_width img_height box_size {rname} : Int) : (Int × Int) × (Int × Int) :=\n"
                    f"{chain(lets[:ri] + lets[ri + 1:])}  ({pos}, {size})\n"
                    "def spil_logo_box (img_width img_height box_size : Int) (embeded_image_ratio : Rat) : (Int × Int) × (Int × Int) :=\n"
                    f"  spil_logo_box_of img_width img_height box_size (spil_{rname} img_width img_height embeded_image_ratio)\n"
                    f"def spil_logo_region : List String := {str_list([unp(r0), unp(r1)])}\n"
                    f"def spil_logo_place : List String := {str_list([unp(r2.test), unp(calls[0]), unp(calls[1])])}")
        api.emit("spil_logo", logo)

        def ratio_default():
            tree = api.parse("qrcode/image/styledpil.py")
            fn = find_func(tree, "StyledPilImage.__init__")
            st = [s for s in assigned_attrs(fn, "embeded_image_ratio")]
            need(len(st) == 1 and isinstance(st[0], ast.Assign) and unp(st[0].targets[0]) == "self.embeded_image_ratio", "embeded_image_ratio stored once")
            c = st[0].value
            need(isinstance(c, ast.Call) and unp(c.func) == "kwargs.get" and len(c.args) == 2 and is_str(c.args[0]), "kwargs.get(key, default)")
            d = c.args[1]
            need(isinstance(d, ast.Constant) and isinstance(d.value, (int, float)) and not isinstance(d.value, bool), "default is not a number")
            fr = fractions.Fraction(d.value)
            return (f"def spil_ratio_key : String := {lean_str(c.args[0].value)}\n"
                    f"/-- the exact value of the float literal `{unp(d)}` -/\n"
                    f"def spil_ratio_default : Rat := ({fr.numerator} : Rat) / {fr.denominator}")
        api.emit("spil_ratio_default", ratio_default)

        # ------------------------------------------------------------------------------------------------------------------
        # PilImage.new_image
        def pil_new_image():
            tree = api.parse("qrcode/image/pil.py")
            fn = find_func(tree, "PilImage.new_image")
            body = strip_doc(fn.body)
            env = {}          # python variable -> (kind, Lean term); kind: "val" (pil_Val α) or "str" (String)
            params = []       # kwargs keys, in order of appearance
            defaults = []
            pre = []          # let-bindings
            guards = []
            k = 0

            def cond(node, env):
                if isinstance(node, ast.BoolOp):
                    op = " && " if isinstance(node.op, ast.And) else " || "
                    return "(" + op.join(cond(v, env) for v in node.values) + ")"
                if isinstance(node, ast.UnaryOp) and isinstance(node.op, ast.Not):
                    return f"(!{cond(node.operand, env)})"
                if isinstance(node, ast.Compare) and len(node.ops) == 1 and isinstance(node.ops[0], (ast.Eq, ast.NotEq)) \
                        and isinstance(node.left, ast.Name) and is_str(node.comparators[0]):
                    need(node.left.id in env and env[node.left.id][0] == "val", "comparison of " + node.left.id)
                    t = f"(pil_Val.eqStr {env[node.left.id][1]} {lean_str(node.comparators[0].value)})"
                    return t if isinstance(node.ops[0], ast.Eq) else f"(!{t})"
                raise U("condition " + unp(node)[:60])

            def const(node, kind):
                if kind == "str":
                    need(is_str(node), "a non-string stored in a mode variable: " + unp(node))
                    return lean_str(node.value)
                if is_str(node):
                    return f"(pil_Val.str {lean_str(node.value)})"
                if is_int(node):
                    return f"(pil_Val.int {node.value})" if node.value >= 0 else f"(pil_Val.int ({node.value}))"
                if isinstance(node, ast.Constant) and node.value is None:
                    return "pil_Val.none"
                raise U("stored value " + unp(node)[:40])

            def block(stmts, env):
                env = dict(env)
                for s in stmts:
                    if isinstance(s, ast.Assign) and len(s.targets) == 1 and isinstance(s.targets[0], ast.Name):
                        v = s.targets[0].id
                        if isinstance(s.value, ast.Name) and s.value.id in env:
                            env[v] = env[s.value.id]
                            continue
                        kind = env[v][0] if v in env else ("str" if is_str(s.value) else "val")
                        env[v] = (kind, const(s.value, kind))
                    elif isinstance(s, ast.If):
                        c = cond(s.test, env)
                        e1, e2 = block(s.body, env), block(s.orelse, env)
                        need(set(e1) == set(e2), "a variable is bound in only one branch: " + ", ".join(sorted(set(e1) ^ set(e2))))
                        for v in e1:
                            need(e1[v][0] == e2[v][0], "branches store different kinds of value in " + v)
                            env[v] = e1[v] if e1[v] == e2[v] else (e1[v][0], f"(if {c} then {e1[v][1]} else {e2[v][1]})")
                    elif isinstance(s, ast.Pass):
                        pass
                    else:
                        raise U("statement in the colour branch: " + unp(s)[:50])
                return env

            # preamble: guard, kwargs.get, try-lower
            while k < len(body) and not (isinstance(body[k], ast.If) and not (len(body[k].body) == 1 and isinstance(body[k].body[0], ast.Raise))):
                s = body[k]
                if isinstance(s, ast.If):                                   # `if not Image: raise ImportError(...)`
                    need(not s.orelse, "guard with else")
                    guards.append(unp(s.test))
                elif isinstance(s, ast.Assign) and len(s.targets) == 1 and isinstance(s.targets[0], ast.Name) and isinstance(s.value, ast.Call) \
                        and unp(s.value.func) == "kwargs.get":
                    c = s.value
                    need(len(c.args) == 2 and not c.keywords and is_str(c.args[0]) and c.args[0].value.isidentifier(), "kwargs.get(key, default)")
                    key = c.args[0].value
                    need(key not in params, "key read twice: " + key)
                    params.append(key)
                    env[s.targets[0].id] = ("val", f"(kw_{key}.getD {const(c.args[1], 'val')})")
                elif isinstance(s, ast.Try):
                    need(len(s.body) == 1 and not s.orelse and not s.finalbody and len(s.handlers) == 1, "try shape")
                    h, a = s.handlers[0], s.body[0]
                    need(h.type is not None and unp(h.type) == "AttributeError" and len(h.body) == 1 and isinstance(h.body[0], ast.Pass), "handler shape")
                    need(isinstance(a, ast.Assign) and len(a.targets) == 1 and isinstance(a.targets[0], ast.Name), "try body")
                    v = a.targets[0].id
                    need(v in env and env[v][0] == "val" and unp(a.value) == v + ".lower()", "try body is not `v = v.lower()`")
                    env[v] = ("val", f"(pil_Val.lowered lower {env[v][1]})")
                else:
                    break
                k += 1
            need(k < len(body) and isinstance(body[k], ast.If), "no colour branch")
            need(params, "no kwargs read")
            for v in sorted(env):
                pre.append(f"  let {v} : pil_Val α := {env[v][1]}\n")
                env[v] = ("val", v)
            env = block([body[k]], env)
            rest = body[k + 1:]
            # img = Image.new(mode, (size), back); self.fill_color = fill
            need(rest and isinstance(rest[0], ast.Assign) and isinstance(rest[0].value, ast.Call) and unp(rest[0].value.func) == "Image.new"
                 and len(rest[0].value.args) == 3 and not rest[0].value.keywords, "no `img = Image.new(mode, size, colour)` after the branch")
            m, size, col = rest[0].value.args
            need(isinstance(m, ast.Name) and m.id in env and env[m.id][0] == "str", "mode argument")
            need(isinstance(col, ast.Name) and col.id in env and env[col.id][0] == "val", "colour argument")
            need(isinstance(size, ast.Tuple) and len(size.elts) == 2, "size is not a pair")
            fills = [s for s in assigned_attrs(fn, "fill_color")]
            need(len(fills) == 1 and fills[0] in rest and isinstance(fills[0], ast.Assign) and unp(fills[0].targets[0]) == "self.fill_color"
                 and isinstance(fills[0].value, ast.Name) and fills[0].value.id in env and env[fills[0].value.id][0] == "val", "self.fill_color = <colour>")
            fill = env[fills[0].value.id][1]
            trn = Tr({"self.pixel_size": "pixel_size"}, "Nat")
            sig = "{α : Type} (lower : String → String) (" + " ".join("kw_" + p for p in params) + " : Option (pil_Val α))"
            p = "".join(pre)
            return ("/-- `kw_X` = `kwargs` entry `X` (`none`: key absent); result: first argument of `Image.new` -/\n"
                    f"def pil_new_image_mode {sig} : String :=\n{p}  {env[m.id][1]}\n"
                    "/-- third argument of `Image.new` (the background) -/\n"
                    f"def pil_new_image_back {sig} : pil_Val α :=\n{p}  {env[col.id][1]}\n"
                    "/-- the value stored in `self.fill_color` -/\n"
                    f"def pil_new_image_fill {sig} : pil_Val α :=\n{p}  {fill}\n"
                    f"def pil_new_image_size (pixel_size : Nat) : Nat × Nat := ({trn.num(size.elts[0])}, {trn.num(size.elts[1])})\n"
                    f"def pil_new_image_guards : List String := {str_list(guards)}\n"
                    f"def pil_new_image_rest : List String := {str_list([unp(s) for s in rest])}")
        api.emit("pil_new_image", pil_new_image)

    fragments(api)


# =====================================================================================================================
# C6   (worker plugin frag_c6.py, embedded unchanged as a closure)
# =====================================================================================================================
def _c6(api):
    """T2 fragments, item C6: qrcode/console_scripts.py - the `qr` command.

  cli_prelude            constant vocabulary (types of the translated statements: QRCode record, effects, results, Python truthiness)
  cli_tables             module-level dicts `default_factories`, `error_correction` (values resolved through qrcode/__init__.py
                         and qrcode/constants.py), the defaults of QRCode.add_data(optimize=) / print_ascii(tty=) read from main.py
  cli_options            every `parser.add_option(...)` call: names, dest, action, type, default, choices; per-option defaults
  cli_get_factory        `get_factory`: the `"." not in module` test, the exception class and message; import part as a parameter
  cli_main               the statements of main() after `parser.parse_args`, compiled statement by statement into ONE Lean function
                         (typed symbolic translation with join points; nothing is printed from a constant: every test, call, keyword,
                         branch and their order come from the AST; unknown shapes make the fragment Untranslatable)
"""
    import ast
    import json


    def fragments(api):
        Untranslatable = api.Untranslatable
        find_func, strip_doc = api.find_func, api.strip_doc
        unp = ast.unparse

        def need(c, msg):
            if not c:
                raise Untranslatable(msg)

        def lean_str(s):
            out = []
            for ch in s:
                o = ord(ch)
                if ch == '"':
                    out.append('\\"')
                elif ch == "\\":
                    out.append("\\\\")
                elif ch == "\n":
                    out.append("\\n")
                elif ch == "\t":
                    out.append("\\t")
                elif o < 32 or o == 127:
                    out.append("\\x%02x" % o)
                else:
                    out.append(ch)
            return '"' + "".join(out) + '"'

        def is_str(n):
            return isinstance(n, ast.Constant) and isinstance(n.value, str)

        def is_none(n):
            return isinstance(n, ast.Constant) and n.value is None

        _cache = {}

        def tree(rel):
            if rel not in _cache:
                _cache[rel] = api.parse(rel)
            return _cache[rel]

        def cs():
            return tree("qrcode/console_scripts.py")

        def module_assign(t, name):
            hits = [s for s in t.body if isinstance(s, ast.Assign) and len(s.targets) == 1 and isinstance(s.targets[0], ast.Name)
                    and s.targets[0].id == name]
            need(len(hits) == 1, f"module-level assignment of {name}: {len(hits)} found")
            return hits[0].value

        # ------------------------------------------------------------------------------------------------ prelude
        PRELUDE = '''/-! vocabulary of the `cli_*` fragments (constant text: only the *types* the statements of console_scripts.main are
    translated into, and Python's truthiness / dict primitives; no fact about main() is stated here) -/
structure cli_Opt where
  names : List String
  dest : String
  action : String
  type : String
  default : String
  choices : String
  deriving DecidableEq, Repr
/-- exceptions a called function may raise: the class main() catches, or anything else -/
inductive cli_Exc where
  | ValueError (msg : String)
  | other
/-- `qrcode.QRCode(error_correction=..., image_factory=...)` and the `add_data` calls made on it, in order -/
structure cli_QRCode (Fac : Type) where
  error_correction : Nat
  image_factory : Option Fac
  add_data_calls : List (List Nat × Option Int) := []
/-- `qr.add_data(data)` (optimize = none: keyword not passed) / `qr.add_data(data, optimize=n)` -/
def cli_QRCode.add_data {Fac : Type} (qr : cli_QRCode Fac) (data : List Nat) (optimize : Option Int) : cli_QRCode Fac :=
  { qr with add_data_calls := qr.add_data_calls ++ [(data, optimize)] }
/-- `qr.make_image(**kwargs)` -/
structure cli_Img (Fac Drawer : Type) where
  qr : cli_QRCode Fac
  kwargs : List (String × Drawer)
inductive cli_File where
  | opened (path mode : String)          -- `open(path, mode)`
  | stdout_buffer                         -- `sys.stdout.buffer`
  deriving DecidableEq, Repr
/-- the externally visible actions of main(), in program order -/
inductive cli_Effect (Fac Drawer : Type) where
  | print_ascii (qr : cli_QRCode Fac) (tty : Bool)
  | stdout_flush
  | save (img : cli_Img Fac Drawer) (file : cli_File)
inductive cli_Result (Fac Drawer : Type) where
  | done (fx : List (cli_Effect Fac Drawer))                       -- main() returned
  | error (fx : List (cli_Effect Fac Drawer)) (msg : String)      -- `raise_error(msg)` = parser.error(msg): exit status 2
  | uncaught (fx : List (cli_Effect Fac Drawer))                   -- an exception main() does not catch: traceback, exit status 1
/-- `if x:` for `x : Optional[str]` (None and "" are false); the true branch sees the string -/
def cli_ifTruthyStr {R : Type} (x : Option String) (t : String → R) (e : R) : R :=
  match x with
  | some v => if v = "" then e else t v
  | none => e
/-- `if x:` for `x : Optional[dict]` (None and {} are false); the true branch sees the dict -/
def cli_ifTruthyDict {R α : Type} (x : Option (List (String × α))) (t : List (String × α) → R) (e : R) : R :=
  match x with
  | some (a :: l) => t (a :: l)
  | _ => e
def cli_truthyStr (x : Option String) : Bool := cli_ifTruthyStr x (fun _ => true) false
def cli_truthyDict {α : Type} (x : Option (List (String × α))) : Bool := cli_ifTruthyDict x (fun _ => true) false
/-- `d[k] = v` -/
def cli_dict_set {α : Type} (d : List (String × α)) (k : String) (v : α) : List (String × α) :=
  (d.filter fun p => p.1 != k) ++ [(k, v)]
/-- `sorted(l)` for a list of str (code point order) -/
def cli_sorted (l : List String) : List String := l.mergeSort (fun a b => decide (a ≤ b))'''
        api.emit("cli_prelude", lambda: PRELUDE)

        # ------------------------------------------------------------------------------------------------ tables
        def resolve_qrcode_const(attr):
            """`qrcode.NAME`: re-exported by qrcode/__init__.py from qrcode.constants, where it is an int literal"""
            init = tree("qrcode/__init__.py")
            src = None
            for s in init.body:
                if isinstance(s, ast.ImportFrom) and any((a.asname or a.name) == attr for a in s.names):
                    al = next(a for a in s.names if (a.asname or a.name) == attr)
                    src = (s.module, al.name)
            need(src is not None and src[0] == "qrcode.constants", f"qrcode.{attr} is not imported from qrcode.constants")
            v = module_assign(tree("qrcode/constants.py"), src[1])
            need(isinstance(v, ast.Constant) and isinstance(v.value, int) and not isinstance(v.value, bool) and v.value >= 0,
                 f"constants.{src[1]} is not a natural-number literal")
            return v.value

        def str_dict(name):
            d = module_assign(cs(), name)
            need(isinstance(d, ast.Dict) and all(k is not None and is_str(k) for k in d.keys), f"{name} is not a dict with str keys")
            return d

        def tables():
            out = []
            d = str_dict("default_factories")
            need(all(is_str(v) for v in d.values), "default_factories values are not str literals")
            out.append("def cli_default_factories : List (String × String) := ["
                       + ", ".join(f"({lean_str(k.value)}, {lean_str(v.value)})" for k, v in zip(d.keys, d.values)) + "]")
            d = str_dict("error_correction")
            consts, pairs = [], []
            for k, v in zip(d.keys, d.values):
                need(isinstance(v, ast.Attribute) and isinstance(v.value, ast.Name) and v.value.id == "qrcode",
                     "error_correction value is not qrcode.<CONST>")
                if v.attr not in consts:
                    consts.append(v.attr)
                pairs.append(f"({lean_str(k.value)}, cli_{v.attr})")
            for c in consts:
                out.append(f"def cli_{c} : Nat := {resolve_qrcode_const(c)}")
            out.append("def cli_error_correction : List (String × Nat) := [" + ", ".join(pairs) + "]")
            # defaults of the library methods main() calls with fewer arguments
            m = api.trees["main"]
            fn = find_func(m, "QRCode.add_data")
            names = [a.arg for a in fn.args.args]
            need(names[:2] == ["self", "data"] and "optimize" in names and not fn.args.kwonlyargs, "signature of QRCode.add_data")
            dflt = dict(zip(names[len(names) - len(fn.args.defaults):], fn.args.defaults))
            v = dflt.get("optimize")
            need(isinstance(v, ast.Constant) and isinstance(v.value, int) and not isinstance(v.value, bool) and v.value >= 0,
                 "default of add_data(optimize=)")
            out.append(f"def cli_add_data_optimize_default : Nat := {v.value}")
            fn = find_func(m, "QRCode.print_ascii")
            names = [a.arg for a in fn.args.args]
            dflt = dict(zip(names[len(names) - len(fn.args.defaults):], fn.args.defaults))
            v = dflt.get("tty")
            need(isinstance(v, ast.Constant) and isinstance(v.value, bool), "default of print_ascii(tty=)")
            out.append(f"def cli_print_ascii_tty_default : Bool := {'true' if v.value else 'false'}")
            return "\n".join(out)
        api.emit("cli_tables", tables)

        # ------------------------------------------------------------------------------------------------ main(): split
        def split_main():
            """(statements before parse_args, the add_option calls, statements after parse_args); every statement of the first part
        is checked to be one of the expected set-up statements"""
            fn = find_func(cs(), "main")
            need([a.arg for a in fn.args.args] == ["args"] and len(fn.args.defaults) == 1 and is_none(fn.args.defaults[0])
                 and not fn.args.vararg and not fn.args.kwarg and not fn.args.kwonlyargs, "signature of main")
            body = strip_doc(fn.body)
            at = [i for i, s in enumerate(body) if isinstance(s, ast.Assign) and isinstance(s.value, ast.Call)
                  and unp(s.value.func).endswith(".parse_args")]
            need(len(at) == 1, "exactly one parse_args call expected")
            pre, parse, post = body[:at[0]], body[at[0]], body[at[0] + 1:]
            need(unp(parse.targets[0]) == "(opts, args)" and isinstance(parse.value.func, ast.Attribute) and len(parse.value.args) == 1
                 and unp(parse.value.args[0]) == "args" and not parse.value.keywords, "shape of `opts, args = parser.parse_args(args)`")
            parser = unp(parse.value.func.value)
            adds, setup = [], []
            for s in pre:
                if isinstance(s, ast.Expr) and isinstance(s.value, ast.Call) and unp(s.value.func) == parser + ".add_option":
                    adds.append(s.value)
                elif isinstance(s, ast.If) and unp(s.test) == "args is None" and not s.orelse and len(s.body) == 1 \
                        and isinstance(s.body[0], ast.Assign) and unp(s.body[0].targets[0]) == "args":
                    setup.append(("args_default", unp(s.body[0].value)))
                elif isinstance(s, ast.Assign) and len(s.targets) == 1 and isinstance(s.targets[0], ast.Name) \
                        and s.targets[0].id == parser and isinstance(s.value, ast.Call):
                    setup.append(("parser", unp(s.value.func)))
                elif isinstance(s, ast.Assign) and len(s.targets) == 1 and isinstance(s.targets[0], ast.Name) \
                        and s.targets[0].id == "version":
                    setup.append(("version", unp(s.value)))
                elif isinstance(s, ast.FunctionDef) and s.name == "raise_error":
                    b = strip_doc(s.body)
                    need(len(s.args.args) == 1 and len(b) == 2 and isinstance(b[0], ast.Expr)
                         and unp(b[0].value) == f"{parser}.error({s.args.args[0].arg})" and isinstance(b[1], ast.Raise),
                         "raise_error is not `parser.error(msg); raise`")
                    setup.append(("raise_error", unp(b[0].value)))
                else:
                    raise Untranslatable("unexpected statement before parse_args: " + unp(s)[:60])
            need(any(k == "raise_error" for k, _ in setup), "no raise_error wrapper")
            return parser, setup, adds, post

        # ------------------------------------------------------------------------------------------------ option table
        def option_rows():
            parser, setup, adds, post = split_main()
            rows = []
            for c in adds:
                need(c.args and all(is_str(a) for a in c.args), "option strings")
                names = [a.value for a in c.args]
                kw = {}
                for k in c.keywords:
                    need(k.arg is not None and k.arg not in kw, "add_option keywords")
                    kw[k.arg] = k.value
                need(set(kw) <= {"help", "type", "choices", "default", "action", "dest"}, "add_option keyword " + ",".join(sorted(kw)))
                # optparse: dest defaults to the first long option name without `--`, `-` -> `_`
                if "dest" in kw:
                    need(is_str(kw["dest"]), "dest")
                    dest = kw["dest"].value
                else:
                    longs = [n for n in names if n.startswith("--")]
                    need(longs, "no long option name")
                    dest = longs[0][2:].replace("-", "_")
                if "action" in kw:
                    need(is_str(kw["action"]), "action")
                    action = kw["action"].value
                else:
                    action = "store"                                   # optparse default
                need(action in ("store", "store_true"), "action " + action)
                if "type" in kw:
                    t = kw["type"]
                    if is_str(t):
                        typ = t.value
                    elif isinstance(t, ast.Name) and t.id in ("int", "str"):
                        typ = {"int": "int", "str": "string"}[t.id]
                    else:
                        raise Untranslatable("option type " + unp(t))
                else:
                    typ = "string" if action == "store" else ""        # optparse default for store
                need(typ in ("string", "int", "choice", ""), "option type " + typ)
                need((action == "store_true") == (typ == ""), "store_true with a type")
                dflt = kw.get("default")
                choices = kw.get("choices")
                need((typ == "choice") == (choices is not None), "choices without type choice")
                rows.append(dict(names=names, dest=dest, action=action, type=typ, default=dflt, choices=choices))
            need(len({r["dest"] for r in rows}) == len(rows), "duplicate dest")
            return rows

        def opt_lean_type(r):
            """(python-side tag, Lean type, Lean default) of `opts.<dest>` after parse_args"""
            d = r["default"]
            if r["action"] == "store_true":
                need(d is None, "store_true with a default")
                # absent -> None, present -> True; only the truth value of such an option is translatable below, so None = false
                return "Bool", "Bool", "false"
            if r["type"] == "int":
                need(d is None or is_none(d), "int option with a default")
                return "OptInt", "Option Int", "none"
            if d is None or is_none(d):
                return "OptStr", "Option String", "none"
            need(is_str(d), "default " + unp(d))
            return "Str", "String", lean_str(d.value)

        def choices_term(node):
            """the `choices=` expression over the module-level dicts"""
            if isinstance(node, ast.Call) and isinstance(node.func, ast.Name) and node.func.id == "sorted" and len(node.args) == 1 \
                    and not node.keywords:
                return f"(cli_sorted {choices_term(node.args[0])})"
            if isinstance(node, ast.Call) and isinstance(node.func, ast.Attribute) and node.func.attr == "keys" and not node.args \
                    and isinstance(node.func.value, ast.Name) and node.func.value.id in ("error_correction", "default_factories"):
                return f"(cli_{node.func.value.id}.map Prod.fst)"
            if isinstance(node, (ast.List, ast.Tuple)) and all(is_str(e) for e in node.elts):
                return "[" + ", ".join(lean_str(e.value) for e in node.elts) + "]"
            raise Untranslatable("choices " + unp(node)[:50])

        def options():
            rows = option_rows()
            parser, setup, adds, post = split_main()
            out = []
            items = []
            for r in rows:
                items.append("  { names := [" + ", ".join(lean_str(n) for n in r["names"]) + f"], dest := {lean_str(r['dest'])}, "
                             f"action := {lean_str(r['action'])}, type := {lean_str(r['type'])}, "
                             f"default := {lean_str(unp(r['default']) if r['default'] is not None else 'None')}, "
                             f"choices := {lean_str(unp(r['choices']) if r['choices'] is not None else '')} }}")
            out.append("def cli_options : List cli_Opt := [\n" + ",\n".join(items) + "]")
            for r in rows:
                tag, lty, ldef = opt_lean_type(r)
                out.append(f"def cli_default_{r['dest']} : {lty} := {ldef}")
                if r["choices"] is not None:
                    out.append(f"def cli_choices_{r['dest']} : List String := {choices_term(r['choices'])}")
            out.append("def cli_setup : List (String × String) := [" + ", ".join(f"({lean_str(a)}, {lean_str(b)})" for a, b in setup) + "]")
            return "\n".join(out)
        api.emit("cli_options", options)

        # ------------------------------------------------------------------------------------------------ get_factory
        def get_factory():
            fn = find_func(cs(), "get_factory")
            need(len(fn.args.args) == 1 and not fn.args.defaults, "signature of get_factory")
            arg = fn.args.args[0].arg
            body = strip_doc(fn.body)
            need(len(body) >= 2 and isinstance(body[0], ast.If) and not body[0].orelse and len(body[0].body) == 1
                 and isinstance(body[0].body[0], ast.Raise), "get_factory does not start with `if ...: raise`")
            t = body[0].test
            need(isinstance(t, ast.Compare) and len(t.ops) == 1 and isinstance(t.ops[0], (ast.In, ast.NotIn)) and is_str(t.left)
                 and len(t.left.value) == 1 and isinstance(t.comparators[0], ast.Name) and t.comparators[0].id == arg,
                 "get_factory test is not `'<char>' [not] in module`")
            ch = t.left.value
            test = f"({arg}.contains {lean_char(ch)})"
            if isinstance(t.ops[0], ast.NotIn):
                test = f"(!{test})"
            exc = body[0].body[0].exc
            need(isinstance(exc, ast.Call) and isinstance(exc.func, ast.Name) and exc.func.id == "ValueError" and len(exc.args) == 1
                 and is_str(exc.args[0]), "get_factory raises something else than ValueError(<str>)")
            rest = "; ".join(unp(s) for s in body[1:])
            return (f"/-- `get_factory({arg})`: the import itself (everything after the test) is the parameter `import_factory`, applied\n"
                    f"    to the dotted path; `none` = the import raises (ImportError / AttributeError, not caught by main) -/\n"
                    f"def cli_get_factory {{Fac : Type}} (import_factory : String → Option Fac) ({arg} : String) : Except cli_Exc Fac :=\n"
                    f"  if {test} then Except.error (cli_Exc.{exc.func.id} {lean_str(exc.args[0].value)})\n"
                    f"  else match import_factory {arg} with\n"
                    f"    | some f => Except.ok f\n"
                    f"    | none => Except.error cli_Exc.other\n"
                    f"def cli_get_factory_import : String := {lean_str(rest)}")

        def lean_char(ch):
            need(len(ch) == 1 and 32 < ord(ch) < 127 and ch not in "'\\", "character literal")
            return f"'{ch}'"
        api.emit("cli_get_factory", get_factory)

        # ------------------------------------------------------------------------------------------------ main(): statements
        LEAN_TY = {"OptStr": "Option String", "Str": "String", "OptInt": "Option Int", "Int": "Int", "Bool": "Bool",
                   "ArgList": "List PyStr", "PyStr": "PyStr", "Bytes": "List Nat", "OptFac": "Option Fac", "Fac": "Fac",
                   "QR": "cli_QRCode Fac", "OptDict": "Option (List (String × D))", "Dict": "List (String × D)",
                   "Kwargs": "List (String × Drawer)", "Img": "cli_Img Fac Drawer", "File": "cli_File", "Entry": "D",
                   "Drawer": "Drawer", "Nat": "Nat", "Fx": "List (cli_Effect Fac Drawer)", "ExcMsg": "String"}
        PROMOTE = {("Fac", "OptFac"): "(some {})", ("None", "OptFac"): "none", ("None", "OptStr"): "none", ("Str", "OptStr"): "(some {})",
                   ("None", "OptInt"): "none", ("Int", "OptInt"): "(some {})", ("None", "OptDict"): "none", ("Dict", "OptDict"): "(some {})"}
        OPT_OF = {"Fac": "OptFac", "Str": "OptStr", "Int": "OptInt", "Dict": "OptDict"}
        # externals: the text of a Python expression -> (parameter name, parameter type, python tag)
        EXTERNAL = {"sys.stdin.buffer.read()": ("stdin_buffer_read", "List Nat", "Bytes"),
                    "os.isatty(sys.stdout.fileno())": ("stdout_isatty", "Bool", "Bool")}

        class Comp:
            def __init__(self, rows):
                self.n = 0
                self.params = {}            # external parameters actually used: name -> Lean type (insertion ordered)
                self.text_only = []         # expressions emitted as unparsed text
                self.rows = rows

            def fresh(self, base):
                self.n += 1
                return f"{base}_{self.n}"

            def use(self, name, ty):
                self.params.setdefault(name, ty)
                return name

            # ---------------------------------------------------------------- expressions: (lean, tag); guards = [(var, option term)]
            def key(self, node):
                if isinstance(node, ast.Name):
                    return node.id
                if isinstance(node, ast.Attribute):
                    k = self.key(node.value)
                    return None if k is None else k + "." + node.attr
                return None

            def ex(self, node, env, guards):
                src = unp(node)
                if src in EXTERNAL:
                    p, ty, tag = EXTERNAL[src]
                    return self.use(p, ty), tag
                if src == "sys.stdout.buffer":
                    return "cli_File.stdout_buffer", "File"
                if isinstance(node, ast.Constant):
                    if node.value is None:
                        return "none", "None"
                    if isinstance(node.value, bool):
                        return ("true" if node.value else "false"), "Bool"
                    if isinstance(node.value, str):
                        return lean_str(node.value), "Str"
                    if isinstance(node.value, int):
                        return f"({node.value} : Int)", "Int"
                    raise Untranslatable("constant " + src)
                k = self.key(node)
                if k is not None and k in env:
                    return env[k][0], env[k][1]
                if isinstance(node, ast.Attribute):
                    k0 = self.key(node.value)
                    if k0 in env and env[k0][1] == "QR" and node.attr in ("image_factory", "error_correction"):
                        return f"{env[k0][0]}.{node.attr}", {"image_factory": "OptFac", "error_correction": "Nat"}[node.attr]
                if isinstance(node, ast.Name) and node.id in ("default_factories", "error_correction") and node.id not in env:
                    return "cli_" + node.id, {"default_factories": "StrDict", "error_correction": "LevelDict"}[node.id]
                if isinstance(node, ast.Dict) and not node.keys:
                    return "([] : List (String × Drawer))", "Kwargs"
                if isinstance(node, ast.UnaryOp) and isinstance(node.op, ast.Not):
                    return f"(!{self.truthy(node.operand, env, guards)})", "Bool"
                if isinstance(node, ast.BoolOp):
                    return self.truthy(node, env, guards), "Bool"        # only used where a truth value is consumed
                if isinstance(node, ast.Compare) and len(node.ops) == 1:
                    op, r = node.ops[0], node.comparators[0]
                    if isinstance(op, (ast.Is, ast.IsNot)) and is_none(r):
                        v, t = self.ex(node.left, env, guards)
                        need(t in ("OptStr", "OptInt", "OptFac", "OptDict"), f"`is None` on a value of type {t}")
                        return f"{v}.{'isNone' if isinstance(op, ast.Is) else 'isSome'}", "Bool"
                    if isinstance(op, (ast.In, ast.NotIn)):
                        a, ta = self.ex(node.left, env, guards)
                        d, td = self.ex(r, env, guards)
                        need(ta == "Str" and td in ("Dict", "StrDict", "LevelDict"), f"`in` with types {ta}, {td}")
                        return f"({d}.lookup {a}).{'isSome' if isinstance(op, ast.In) else 'isNone'}", "Bool"
                if isinstance(node, ast.Subscript):
                    d, td = self.ex(node.value, env, guards)
                    if td in ("Dict", "StrDict", "LevelDict"):
                        a, ta = self.ex(node.slice, env, guards)
                        need(ta == "Str", f"dict key of type {ta}")
                        g = self.fresh("item")
                        guards.append((g, f"({d}.lookup {a})"))                      # KeyError when absent
                        return g, {"Dict": "Entry", "StrDict": "Str", "LevelDict": "Nat"}[td]
                    if td == "ArgList" and isinstance(node.slice, ast.Constant) and isinstance(node.slice.value, int) \
                            and not isinstance(node.slice.value, bool) and node.slice.value >= 0:
                        g = self.fresh("item")
                        guards.append((g, f"{d}[{node.slice.value}]?"))               # IndexError when absent
                        return g, "PyStr"
                    raise Untranslatable("subscript " + src)
                if isinstance(node, ast.Call):
                    return self.call(node, env, guards)
                raise Untranslatable("expression " + src[:60])

            def kwargs_of(self, node, allowed):
                kw = {}
                for k in node.keywords:
                    need(k.arg is not None and k.arg in allowed and k.arg not in kw, f"keyword {k.arg} in {unp(node)[:40]}")
                    kw[k.arg] = k.value
                return kw

            def coerce(self, v, t, want):
                if t == want:
                    return v
                if (t, want) in PROMOTE:
                    return PROMOTE[(t, want)].format(v)
                raise Untranslatable(f"a value of type {t} where {want} is expected")

            def call(self, node, env, guards):
                src = unp(node)
                f = node.func
                fk = unp(f)
                if fk == "qrcode.QRCode":
                    need(not node.args, "positional arguments of QRCode(...)")
                    kw = self.kwargs_of(node, ("error_correction", "image_factory"))
                    need(set(kw) == {"error_correction", "image_factory"}, "QRCode(...) keywords " + ",".join(sorted(kw)))
                    a, ta = self.ex(kw["error_correction"], env, guards)
                    b, tb = self.ex(kw["image_factory"], env, guards)
                    need(ta == "Nat", "error_correction argument of type " + ta)
                    return (f"({{ error_correction := {a}, image_factory := {self.coerce(b, tb, 'OptFac')} }} : cli_QRCode Fac)"), "QR"
                if fk == "getattr" and len(node.args) == 3 and not node.keywords and is_str(node.args[1]) and is_none(node.args[2]):
                    need(node.args[1].value == "drawer_aliases", "getattr of " + node.args[1].value)
                    o, to = self.ex(node.args[0], env, guards)
                    need(to in ("OptFac", "Fac"), "getattr on a value of type " + to)
                    p = self.use("getattr_drawer_aliases", "Fac → Option (List (String × D))")
                    # getattr(None, name, None) is None
                    return (f"({o}.bind {p})" if to == "OptFac" else f"({p} {o})"), "OptDict"
                if fk == "open":
                    need(1 <= len(node.args) <= 2 and not node.keywords, "open(...) arguments")
                    p, tp = self.ex(node.args[0], env, guards)
                    need(tp == "Str", "open() of a value of type " + tp)
                    mode = '"r"'
                    if len(node.args) == 2:
                        need(is_str(node.args[1]), "open mode")
                        mode = lean_str(node.args[1].value)
                    return f"(cli_File.opened {p} {mode})", "File"
                if fk == "str" and len(node.args) == 1 and not node.keywords:
                    v, t = self.ex(node.args[0], env, guards)
                    need(t in ("ExcMsg", "Str"), "str() of a value of type " + t)
                    return v, "Str"
                if isinstance(f, ast.Attribute):
                    o, to = self.ex(f.value, env, guards)
                    if f.attr == "get" and to in ("StrDict",) and len(node.args) == 2 and not node.keywords:
                        a, ta = self.ex(node.args[0], env, guards)
                        b, tb = self.ex(node.args[1], env, guards)
                        need(ta == "Str" and tb == "Str", f".get with types {ta}, {tb}")
                        return f"(({o}.lookup {a}).getD {b})", "Str"
                    if f.attr == "encode" and to == "PyStr":
                        need(len(node.args) <= 2, "encode arguments")
                        kw = self.kwargs_of(node, ("encoding", "errors"))
                        vals = {"encoding": '"utf-8"', "errors": '"strict"'}            # defaults of str.encode
                        for nm, a in zip(("encoding", "errors"), node.args):
                            need(nm not in kw, "encode argument given twice")
                            kw[nm] = a
                        for nm, a in kw.items():
                            need(is_str(a), "encode argument is not a literal")
                            vals[nm] = lean_str(a.value)
                        p = self.use("str_encode", "PyStr → (encoding errors : String) → List Nat")
                        return f"({p} {o} {vals['encoding']} {vals['errors']})", "Bytes"
                    if f.attr == "make_image" and to == "QR":
                        need(not node.args and len(node.keywords) == 1 and node.keywords[0].arg is None, "make_image arguments")
                        k, tk = self.ex(node.keywords[0].value, env, guards)
                        need(tk == "Kwargs", "make_image(**x) with x of type " + tk)
                        return f"({{ qr := {o}, kwargs := {k} }} : cli_Img Fac Drawer)", "Img"
                # drawer_cls(**drawer_kwargs) where both halves come from the same aliases entry
                if isinstance(f, ast.Name) and f.id in env and isinstance(env[f.id][1], tuple) and env[f.id][1][0] == "EntryFst":
                    need(not node.args and len(node.keywords) == 1 and node.keywords[0].arg is None
                         and isinstance(node.keywords[0].value, ast.Name), "drawer construction arguments")
                    other = env.get(node.keywords[0].value.id)
                    need(other is not None and other[1] == ("EntrySnd", env[f.id][1][1]), "drawer class and kwargs of different entries")
                    p = self.use("construct_drawer", "D → Drawer")
                    return f"({p} {env[f.id][0]})", "Drawer"
                raise Untranslatable("call " + src[:60])

            def truthy(self, node, env, guards):
                if isinstance(node, ast.BoolOp):
                    # operands are evaluated left to right, lazily: guards inside later operands are not supported
                    parts = []
                    for i, v in enumerate(node.values):
                        g2 = []
                        parts.append(self.truthy(v, env, g2 if i else guards))
                        need(not (i and g2), "a possibly raising operand after the first in and/or")
                    return "(" + (" && " if isinstance(node.op, ast.And) else " || ").join(parts) + ")"
                if isinstance(node, ast.UnaryOp) and isinstance(node.op, ast.Not):
                    return f"(!{self.truthy(node.operand, env, guards)})"
                v, t = self.ex(node, env, guards)
                if t == "Bool":
                    return v
                if t == "OptStr":
                    return f"(cli_truthyStr {v})"
                if t == "Str":
                    return f"({v} != \"\")"
                if t == "OptDict":
                    return f"(cli_truthyDict {v})"
                if t in ("ArgList", "Dict", "Kwargs", "Bytes"):
                    return f"(!{v}.isEmpty)"
                if t == "OptFac":
                    return f"{v}.isSome"
                raise Untranslatable(f"truth value of {unp(node)[:40]} : {t}")

            # ---------------------------------------------------------------- statements
            def exits(self, stmts):
                """syntactically: control never falls off the end of this block"""
                if not stmts:
                    return False
                s = stmts[-1]
                if isinstance(s, ast.Return):
                    return True
                if isinstance(s, ast.Expr) and isinstance(s.value, ast.Call) and unp(s.value.func) == "raise_error":
                    return True
                if isinstance(s, ast.If):
                    return self.exits(s.body) and self.exits(s.orelse)
                return False

            def wrap(self, guards, fx, body):
                """bind the possibly failing sub-expressions (KeyError / IndexError -> uncaught) around `body`"""
                for g, term in reversed(guards):
                    body = f"(match {term} with\n| none => cli_Result.uncaught {fx}\n| some {g} => {body})"
                return body

            def bind(self, env, name, lean, tag):
                e = dict(env)
                self.n += 1
                e[name] = (lean, tag, self.n)
                return e

            def refine(self, env, name, lean, tag):
                """a test has narrowed the type of `name` inside a branch: not an assignment (same version)"""
                e = dict(env)
                e[name] = (lean, tag, env[name][2])
                return e

            KEYWORDS = {"at", "from", "end", "open", "fun", "let", "in", "have", "show", "do", "then", "else", "if", "match", "with", "where",
                        "def", "theorem", "instance", "class", "structure", "namespace", "section", "import", "export", "universe",
                        "variable", "macro", "syntax", "by", "return", "for", "mutual", "private", "protected", "set_option", "using",
                        "calc", "deriving", "extends", "inductive", "axiom", "abbrev", "example", "nomatch", "nofun", "try", "catch",
                        "finally", "unless", "break", "continue", "mut", "forall", "exists", "Type", "Prop", "Sort", "fx", "args"}

            def lean_name(self, pyname):
                n = pyname.replace(".", "_").replace("$", "")
                if pyname in self.KEYWORDS or n.startswith(("cli_", "k_", "item_", "opts_")) and "." not in pyname:
                    return "py_" + n                                    # a Python local that would capture a Lean keyword / generated name
                return n

            def block(self, stmts, env, kont):
                if not stmts:
                    return kont(env)
                s, rest = stmts[0], stmts[1:]
                fx = env["$fx"][0]
                guards = []
                go = lambda e: self.block(rest, e, kont)                                           # noqa: E731

                if isinstance(s, ast.Return):
                    need(s.value is None or is_none(s.value), "main returns a value")
                    return f"cli_Result.done {fx}"                                                 # statements after it are dead
                if isinstance(s, ast.AnnAssign) and s.value is not None and isinstance(s.target, ast.Name):
                    s = ast.Assign(targets=[s.target], value=s.value)
                if isinstance(s, ast.Assign) and len(s.targets) == 1:
                    t = s.targets[0]
                    if isinstance(t, ast.Name):
                        v, tag = self.ex(s.value, env, guards)
                        if tag == "None":
                            # `x = None`: typed at the join with the sibling branch (Option of the sibling's type)
                            return self.wrap(guards, fx, go(self.bind(env, t.id, "none", "None")))
                        need(isinstance(tag, str) and tag in LEAN_TY, f"assignment of a value of type {tag}")
                        ln = self.lean_name(t.id)
                        e2 = self.bind(env, t.id, ln, tag)
                        return self.wrap(guards, fx, f"(let {ln} : {LEAN_TY[tag]} := {v};\n{go(e2)})")
                    if isinstance(t, ast.Tuple) and len(t.elts) == 2 and all(isinstance(x, ast.Name) for x in t.elts):
                        v, tag = self.ex(s.value, env, guards)
                        need(tag == "Entry", "tuple unpacking of a value of type " + str(tag))
                        e2 = self.bind(env, t.elts[0].id, v, ("EntryFst", v))
                        e2 = self.bind(e2, t.elts[1].id, v, ("EntrySnd", v))
                        return self.wrap(guards, fx, go(e2))
                    if isinstance(t, ast.Subscript) and isinstance(t.value, ast.Name) and t.value.id in env \
                            and env[t.value.id][1] == "Kwargs" and is_str(t.slice):
                        v, tag = self.ex(s.value, env, guards)
                        need(tag == "Drawer", "kwargs entry of type " + str(tag))
                        d = env[t.value.id][0]
                        ln = self.lean_name(t.value.id)
                        e2 = self.bind(env, t.value.id, ln, "Kwargs")
                        return self.wrap(guards, fx, f"(let {ln} := cli_dict_set {d} {lean_str(t.slice.value)} {v};\n{go(e2)})")
                    raise Untranslatable("assignment target " + unp(t)[:40])
                if isinstance(s, ast.Expr) and isinstance(s.value, ast.Call):
                    c = s.value
                    fk = unp(c.func)
                    if fk == "raise_error":
                        need(len(c.args) == 1 and not c.keywords, "raise_error arguments")
                        m = c.args[0]
                        if isinstance(m, ast.JoinedStr):
                            self.text_only.append(unp(m))
                            msg = lean_str(unp(m))                       # message text only (change detection): f-string not evaluated
                        else:
                            msg, tm = self.ex(m, env, guards)
                            need(tm == "Str", "raise_error message of type " + str(tm))
                        return self.wrap(guards, fx, f"cli_Result.error {fx} {msg}")
                    if fk == "sys.stdout.flush" and not c.args and not c.keywords:
                        e2 = self.bind(env, "$fx", "fx", "Fx")
                        return f"(let fx := {fx} ++ [cli_Effect.stdout_flush];\n{go(e2)})"
                    if isinstance(c.func, ast.Attribute):
                        o, to = self.ex(c.func.value, env, guards)
                        okey = self.key(c.func.value)
                        if c.func.attr == "add_data" and to == "QR" and okey in env:
                            need(len(c.args) == 1, "add_data positional arguments")
                            kw = self.kwargs_of(c, ("optimize",))
                            d, td = self.ex(c.args[0], env, guards)
                            need(td == "Bytes", "add_data of a value of type " + str(td))
                            opt = "none"
                            if "optimize" in kw:
                                ov, ot = self.ex(kw["optimize"], env, guards)
                                need(ot == "Int", "optimize argument of type " + str(ot))
                                opt = f"(some {ov})"
                            need(isinstance(c.func.value, ast.Name), "add_data on something else than a local variable")
                            ln = self.lean_name(okey)
                            e2 = self.bind(env, okey, ln, "QR")
                            return self.wrap(guards, fx, f"(let {ln} := cli_QRCode.add_data {o} {d} {opt};\n{go(e2)})")
                        if c.func.attr == "print_ascii" and to == "QR":
                            need(not c.args, "print_ascii positional arguments")
                            kw = self.kwargs_of(c, ("tty",))
                            tty = self.truthy(kw["tty"], env, guards) if "tty" in kw else "cli_print_ascii_tty_default"
                            e2 = self.bind(env, "$fx", "fx", "Fx")
                            return self.wrap(guards, fx, f"(let fx := {fx} ++ [cli_Effect.print_ascii {o} {tty}];\n{go(e2)})")
                        if c.func.attr == "save" and to == "Img":
                            need(len(c.args) == 1 and not c.keywords, "save arguments")
                            fl, tf = self.ex(c.args[0], env, guards)
                            need(tf == "File", "save to a value of type " + str(tf))
                            e2 = self.bind(env, "$fx", "fx", "Fx")
                            return self.wrap(guards, fx, f"(let fx := {fx} ++ [cli_Effect.save {o} {fl}];\n{go(e2)})")
                    raise Untranslatable("call statement " + unp(c)[:60])
                if isinstance(s, ast.With):
                    need(len(s.items) == 1 and isinstance(s.items[0].optional_vars, ast.Name), "with statement shape")
                    v, tag = self.ex(s.items[0].context_expr, env, guards)
                    need(tag == "File", "with over a value of type " + str(tag))
                    nm = self.lean_name(s.items[0].optional_vars.id)
                    e2 = self.bind(env, s.items[0].optional_vars.id, nm, "File")
                    # leaving the block closes the file: no effect of its own in this vocabulary
                    return self.wrap(guards, fx, f"(let {nm} : cli_File := {v};\n{self.block(list(s.body) + rest, e2, kont)})")
                if isinstance(s, ast.If):
                    return self.branch_if(s, rest, env, kont)
                if isinstance(s, ast.Try):
                    return self.branch_try(s, rest, env, kont)
                raise Untranslatable("statement " + unp(s)[:60])

            # ---------------------------------------------------------------- branching with join points
            def branch(self, arms, rest, env, kont, render):
                """arms: [(env_of_arm, stmts)]; render(list of compiled arm bodies) -> Lean term.
            If at most one arm can fall through, the rest is compiled inside that arm (keeping its refined types); otherwise
            the rest becomes a local function over the variables assigned in the arms."""
                reach = [not self.exits(st) for _, st in arms]
                if sum(reach) <= 1:
                    return render([self.block(list(st) + (rest if r else []), e, kont) for (e, st), r in zip(arms, reach)])
                k = self.fresh("k")
                ends, bodies = {}, []
                for i, ((e, st), r) in enumerate(zip(arms, reach)):
                    mark = f"\0{k}.{i}\0"
                    def kk(e2, i=i, mark=mark):
                        need(i not in ends, "join reached twice from one arm")
                        ends[i] = e2
                        return mark
                    bodies.append(self.block(list(st), e, kk if r else kont))
                need(set(ends) == {i for i, r in enumerate(reach) if r}, "a falling-through arm did not reach the join")
                changed = []
                for e2 in ends.values():
                    for nm, b in e2.items():
                        if (nm not in env or env[nm][2] != b[2]) and nm not in changed:
                            changed.append(nm)
                params, post = [], dict(env)
                for nm in changed:
                    if not all(nm in e2 for e2 in ends.values()):
                        post.pop(nm, None)                                  # bound on some paths only: unusable afterwards
                        continue
                    tags = [e2[nm][1] for e2 in ends.values()]
                    if any(not isinstance(t, str) for t in tags):
                        post.pop(nm, None)
                        continue
                    tag = None
                    distinct = [t for t in dict.fromkeys(tags)]
                    if len(distinct) == 1 and distinct[0] != "None":
                        tag = distinct[0]
                    else:
                        base = [t for t in distinct if t != "None"]
                        cands = {OPT_OF.get(t, t) for t in base}
                        need(len(cands) == 1, f"{nm} has types {distinct} at a join")
                        tag = cands.pop()
                    need(tag in LEAN_TY, f"{nm} : {tag} at a join")
                    params.append((nm, tag))
                    self.n += 1
                    post[nm] = (self.lean_name(nm), tag, self.n)
                for i, e2 in ends.items():
                    args = " ".join(self.coerce(e2[nm][0], e2[nm][1], tag) for nm, tag in params) or "()"
                    bodies[i] = bodies[i].replace(f"\0{k}.{i}\0", f"{k} {args}")
                binder = " ".join(f"({self.lean_name(nm)} : {LEAN_TY[tag]})" for nm, tag in params) or "(_ : Unit)"
                return f"(let {k} := fun {binder} =>\n{self.block(rest, post, kont)};\n{render(bodies)})"

            def branch_if(self, s, rest, env, kont):
                test, body, orelse = s.test, list(s.body), list(s.orelse)
                while isinstance(test, ast.UnaryOp) and isinstance(test.op, ast.Not):                 # `if not c: A else: B` = `if c: B else: A`
                    test, body, orelse = test.operand, orelse, body
                k = self.key(test)
                fx = env["$fx"][0]
                if k is not None and k in env and env[k][1] in ("OptStr", "OptDict"):
                    v, tag = env[k][0], env[k][1]
                    inner = self.lean_name(k)
                    comb, rt = ("cli_ifTruthyStr", "Str") if tag == "OptStr" else ("cli_ifTruthyDict", "Dict")
                    e_then = self.refine(env, k, inner, rt)
                    return self.branch([(e_then, body), (env, orelse)], rest, env, kont,
                                       lambda b: f"({comb} {v} (fun {inner} =>\n{b[0]})\n({b[1]}))")
                if isinstance(test, ast.Compare) and len(test.ops) == 1 and isinstance(test.ops[0], (ast.Is, ast.IsNot)) \
                        and is_none(test.comparators[0]) and self.key(test.left) in env \
                        and env[self.key(test.left)][1] in ("OptStr", "OptInt", "OptFac", "OptDict") \
                        and self.lean_name(self.key(test.left)) == env[self.key(test.left)][0]:
                    k = self.key(test.left)
                    v, tag = env[k][0], env[k][1]
                    inner_tag = {"OptStr": "Str", "OptInt": "Int", "OptFac": "Fac", "OptDict": "Dict"}[tag]
                    e_some = self.refine(env, k, v, inner_tag)
                    none_b, some_b = (body, orelse) if isinstance(test.ops[0], ast.Is) else (orelse, body)
                    return self.branch([(env, none_b), (e_some, some_b)], rest, env, kont,
                                       lambda b: f"(match {v} with\n| none => {b[0]}\n| some {v} => {b[1]})")
                guards = []
                c = self.truthy(test, env, guards)
                inner = self.branch([(env, body), (env, orelse)], rest, env, kont, lambda b: f"(if {c} then\n{b[0]}\nelse\n{b[1]})")
                return self.wrap(guards, fx, inner)

            def branch_try(self, s, rest, env, kont):
                need(len(s.body) == 1 and len(s.handlers) == 1 and not s.orelse and not s.finalbody, "try statement shape")
                a, h = s.body[0], s.handlers[0]
                need(isinstance(a, ast.Assign) and len(a.targets) == 1 and isinstance(a.targets[0], ast.Name)
                     and isinstance(a.value, ast.Call) and unp(a.value.func) == "get_factory" and len(a.value.args) == 1
                     and not a.value.keywords, "try body is not `x = get_factory(e)`")
                need(isinstance(h.type, ast.Name) and h.type.id == "ValueError" and h.name, "handler is not `except ValueError as e`")
                fx = env["$fx"][0]
                guards = []
                m, tm = self.ex(a.value.args[0], env, guards)
                need(tm == "Str", "get_factory of a value of type " + str(tm))
                imp = self.use("import_factory", "String → Option Fac")
                tgt, hn = self.lean_name(a.targets[0].id), self.lean_name(h.name)
                e_ok = self.bind(env, a.targets[0].id, tgt, "Fac")
                e_h = self.bind(env, h.name, hn, "ExcMsg")
                out = self.branch([(e_ok, []), (e_h, list(h.body))], rest, env, kont,
                                  lambda b: (f"(match cli_get_factory {imp} {m} with\n| Except.ok {tgt} => {b[0]}\n"
                                             f"| Except.error (cli_Exc.{h.type.id} {hn}) => {b[1]}\n"
                                             f"| Except.error _ => cli_Result.uncaught {fx})"))
                return self.wrap(guards, fx, out)

        def indent(text):
            """re-indent by parenthesis depth (layout only; the structure is fully parenthesised)"""
            out, depth = [], 0
            for line in text.split("\n"):
                line = line.strip()
                d = depth - (1 if line.startswith(")") else 0)
                out.append("  " * (2 + max(d, 0)) + line)
                instr = False
                prev = ""
                for ch in line:
                    if ch == '"' and prev != "\\":
                        instr = not instr
                    elif not instr:
                        if ch in "([{":
                            depth += 1
                        elif ch in ")]}":
                            depth -= 1
                    prev = ch
            return "\n".join(out)

        def main_fn():
            rows = option_rows()
            parser, setup, adds, post = split_main()
            comp = Comp(rows)
            env = {"$fx": ("fx", "Fx", 0), "args": ("args", "ArgList", 0)}
            sig = []
            for r in rows:
                tag, lty, _ = opt_lean_type(r)
                env["opts." + r["dest"]] = ("opts_" + r["dest"], tag, 0)
                sig.append(f"(opts_{r['dest']} : {lty})")
            body = comp.block(list(post), env, lambda e: f"cli_Result.done {e['$fx'][0]}")
            # parse_args: optparse rejects a `choice` value outside `choices` through parser.error (exit status 2) before anything else
            for r in reversed(rows):
                if r["choices"] is not None:
                    tag, _, _ = opt_lean_type(r)
                    need(tag == "Str", "choice option without a str default")
                    body = (f"(if !(cli_choices_{r['dest']}.contains opts_{r['dest']}) then cli_Result.error fx \"invalid choice\"\nelse\n{body})")
            ext = " ".join(f"({n} : {t})" for n, t in comp.params.items())
            head = ("/-- console_scripts.main after option parsing: `opts_*` are the attributes of `opts`, `args` the positional arguments.\n"
                    "    External parameters stand for: " + "; ".join(f"{EXTERNAL[k][0]} = `{k}`" for k in EXTERNAL) + ";\n"
                    "    str_encode = `str.encode`; import_factory = the import in get_factory; getattr_drawer_aliases = the class\n"
                    "    attribute `drawer_aliases`; construct_drawer = `drawer_cls(**drawer_kwargs)` of an aliases entry. -/\n"
                    "def cli_main {PyStr Fac D Drawer : Type} " + " ".join(sig) + " (args : List PyStr)\n    " + ext
                    + " :\n    cli_Result Fac Drawer :=\n  (let fx : List (cli_Effect Fac Drawer) := [];\n")
            text = head + indent(body) + ")"
            text += "\ndef cli_main_text_only : List String := [" + ", ".join(lean_str(x) for x in comp.text_only) + "]"
            return text
        api.emit("cli_main", main_fn)

    fragments(api)


# =====================================================================================================================
# C7   (worker plugin frag_c7.py, embedded unchanged as a closure)
# =====================================================================================================================
def _c7(api):
    """T2 fragments, item C7: qrcode/release.py `update_manpage`.

The whole function is translated statement by statement from the AST into Lean (all generated names start with `manpage_`):
  manpage_body     the body of `for i, line in enumerate(lines)` as a function of the loop-carried Boolean and the line:
                   (left by `break`?, carried Boolean afterwards, new value of lines[i])
  manpage_loop     the `for ... enumerate(...)` loop with `continue` / `break` over that body
  manpage_update   the function: `none` = nothing is written, `some text` = the text written back to the file
Strings are `List Char`.  The Python builtins used get a fixed Lean meaning in `manpage_prelude` (startswith, join, readlines,
and re.split for patterns of the family  d([^d]*)d  - the pattern is parsed with Python's own regex parser and the delimiter
`d` is read from it; any other pattern is untranslatable).  What cannot be given a meaning (the os.path expressions, the
strftime format, the `open` calls) is emitted as String defs: change detection only.
"""
    import ast


    def fragments(api):
        import ast      # (self-contained: this function may be pasted into a merged plugin file)
        U = api.Untranslatable
        find_func, strip_doc = api.find_func, api.strip_doc

        PRELUDE = """/-- `s.startswith(p)` -/
def manpage_py_startswith (s p : List Char) : Bool := p.isPrefixOf s
/-- `sep.join(parts)` -/
def manpage_py_join (sep : List Char) : List (List Char) → List Char
  | [] => []
  | [p] => p
  | p :: q :: rest => p ++ sep ++ manpage_py_join sep (q :: rest)
/-- `f.readlines()` of a text file with the content `s` (newlines already normalised to '\\n'): every line keeps its newline -/
def manpage_py_readlines : List Char → List (List Char)
  | [] => []
  | c :: s =>
    if c = '\\n' then [c] :: manpage_py_readlines s
    else match manpage_py_readlines s with
      | [] => [[c]]
      | l :: ls => (c :: l) :: ls
/-- `re.split(P, s)` for a pattern P of the form  d([^d]*)d  (one delimiter character `d`, one capture group):
[text0, group1, text1, group2, ...]; each match consumes at least two characters, so `s.length + 1` fuel suffices -/
def manpage_py_re_split (d : Char) : Nat → List Char → List (List Char)
  | 0, s => [s]
  | fuel + 1, s =>
    match s.dropWhile (· ≠ d) with
    | [] => [s]
    | _ :: r1 =>
      match r1.dropWhile (· ≠ d) with
      | [] => [s]
      | _ :: r2 => s.takeWhile (· ≠ d) :: r1.takeWhile (· ≠ d) :: manpage_py_re_split d fuel r2"""

        def need(cond, why):
            if not cond:
                raise U(why)

        def unp(node):
            return ast.unparse(node)

        def lean_char(ch):
            o = ord(ch)
            if ch == "'":
                return "'\\''"
            if ch == "\\":
                return "'\\\\'"
            if ch == "\n":
                return "'\\n'"
            if ch == "\t":
                return "'\\t'"
            if o < 0x20 or o > 0x7E:
                return "'\\u{%x}'" % o
            return "'" + ch + "'"

        def lean_chars(s):
            return "[" + ", ".join(lean_char(c) for c in s) + "]" if s else "([] : List Char)"

        def lean_str(s):
            out = []
            for ch in s:
                o = ord(ch)
                if ch == '"':
                    out.append('\\"')
                elif ch == "\\":
                    out.append("\\\\")
                elif ch == "\n":
                    out.append("\\n")
                elif o < 0x20 or o > 0x7E:
                    out.append("\\u{%x}" % o)
                else:
                    out.append(ch)
            return '"' + "".join(out) + '"'

        def split_delimiter(pattern):
            """the delimiter d of a pattern  d([^d]*)d , read from Python's own parse of the regular expression"""
            try:
                import re._parser as sre      # Python >= 3.11
            except ImportError:               # pragma: no cover
                import sre_parse as sre
            try:
                p = list(sre.parse(pattern))
            except Exception as e:  # noqa
                raise U(f"regular expression does not parse: {e}")
            c = sre
            need(len(p) == 3, "split pattern is not of the form d([^d]*)d: " + pattern)
            (o1, a1), (o2, a2), (o3, a3) = p
            need(o1 == c.LITERAL and o3 == c.LITERAL and o2 == c.SUBPATTERN, "split pattern is not of the form d([^d]*)d: " + pattern)
            group, add_flags, del_flags, inner = a2
            inner = list(inner)
            need(group == 1 and add_flags == 0 and del_flags == 0 and len(inner) == 1, "split pattern: group shape")
            (o4, a4) = inner[0]
            need(o4 == c.MAX_REPEAT, "split pattern: the group is not a greedy repetition")
            lo, hi, item = a4
            item = list(item)
            need(lo == 0 and hi == c.MAXREPEAT and len(item) == 1, "split pattern: repetition is not `*`")
            (o5, a5) = item[0]
            need(o5 == c.NOT_LITERAL, "split pattern: repeated item is not [^d]")
            need(a1 == a3 == a5, "split pattern: the three characters of d([^d]*)d differ")
            return chr(a1)

        DATE_CALL = "datetime.datetime.now().strftime"
        PATH_FUNCS = {"os.path.dirname", "os.path.abspath", "os.path.join"}
        DATA_KEYS = {"name": "name", "new_version": "newVersion"}       # data[KEY] -> Lean parameter
        PARAMS = "(name newVersion date : List Char)"
        ARGS = "name newVersion date"

        class Ctx:
            """what is collected on the way: String defs (change detection) and the facts needed for consistency checks"""
            def __init__(self, tree, fn):
                self.tree, self.fn = tree, fn
                self.strings = []          # (lean name, text)
                self.data = fn.args.args[0].arg
                self.modules = set()
                for s in tree.body:
                    if isinstance(s, ast.Import):
                        for a in s.names:
                            need(a.asname is None, "import ... as ...")
                            self.modules.add(a.name)
                self.read_path = None

            def string(self, name, text):
                self.strings.append((name, text))

        class Env:
            """Python variable -> (Lean term, type); types: str, bool, int, strlist, path"""
            def __init__(self, d=None):
                self.d = dict(d or {})

            def get(self, name):
                if name not in self.d:
                    raise U("free name " + name)
                return self.d[name]

            def set(self, name, term, ty):
                e = Env(self.d)
                e.d[name] = (term, ty)
                return e

            def drop(self, names):
                e = Env(self.d)
                for n in names:
                    e.d.pop(n, None)
                    e.d.pop("#len:" + n, None)
                return e

            def len_bound(self, name):
                """K such that len(name) >= K is known here (from the tests passed on the way)"""
                return self.d.get("#len:" + name, (0, "bound"))[0]

            def with_len_bound(self, name, k):
                e = Env(self.d)
                e.d["#len:" + name] = (max(k, self.len_bound(name)), "bound")
                return e

        def expr(node, env, ctx):
            """expression -> (Lean term, type)"""
            if isinstance(node, ast.Constant):
                v = node.value
                if isinstance(v, bool):
                    return ("true" if v else "false"), "bool"
                if isinstance(v, int) and v >= 0:
                    return str(v), "int"
                if isinstance(v, str):
                    return lean_chars(v), "str"
                raise U("constant " + repr(v))
            if isinstance(node, ast.Name):
                return env.get(node.id)
            if isinstance(node, ast.Subscript):
                if isinstance(node.value, ast.Name) and node.value.id == ctx.data and node.value.id not in env.d:
                    k = node.slice
                    need(isinstance(k, ast.Constant) and isinstance(k.value, str), "data[...] with a non-literal key")
                    need(k.value in DATA_KEYS, f"data[{k.value!r}]: unknown key")
                    return DATA_KEYS[k.value], "str"
                (t, ty) = expr(node.value, env, ctx)
                k = node.slice
                need(ty == "strlist", "subscript of a " + ty)
                need(isinstance(k, ast.Constant) and isinstance(k.value, int) and not isinstance(k.value, bool) and k.value >= 0,
                     "subscript index " + unp(k))
                # Python raises IndexError out of range; `getD` is only emitted where a dominating length test excludes that
                need(isinstance(node.value, ast.Name) and k.value < env.len_bound(node.value.id),
                     f"{unp(node)}: index not guarded by a test of len({unp(node.value)})")
                return f"({t}.getD {k.value} [])", "str"
            if isinstance(node, ast.UnaryOp) and isinstance(node.op, ast.Not):
                (t, ty) = expr(node.operand, env, ctx)
                need(ty == "bool", "`not` of a " + ty)
                return f"(!{t})", "bool"
            if isinstance(node, ast.BoolOp):
                ts = [expr(v, env, ctx) for v in node.values]
                need(all(ty == "bool" for (_, ty) in ts), "and/or of non-Booleans")
                return "(" + (" && " if isinstance(node.op, ast.And) else " || ").join(t for (t, _) in ts) + ")", "bool"
            if isinstance(node, ast.Compare):
                need(len(node.ops) == 1, "chained comparison")
                (a, ta), (b, tb) = expr(node.left, env, ctx), expr(node.comparators[0], env, ctx)
                op = node.ops[0]
                need(ta == tb, f"comparison of {ta} with {tb}")
                if isinstance(op, (ast.Eq, ast.NotEq)) and ta in ("str", "bool", "int", "strlist"):
                    return f"({a} {'==' if isinstance(op, ast.Eq) else '!='} {b})", "bool"
                if ta == "int" and type(op) in (ast.Lt, ast.LtE, ast.Gt, ast.GtE):
                    sym = {ast.Lt: "<", ast.LtE: "≤", ast.Gt: ">", ast.GtE: "≥"}[type(op)]
                    return f"decide ({a} {sym} {b})", "bool"
                raise U("comparison " + unp(node))
            if isinstance(node, ast.Call):
                need(not node.keywords and not any(isinstance(a, ast.Starred) for a in node.args), "call shape " + unp(node)[:40])
                f = unp(node.func)
                if f == "len" and len(node.args) == 1 and "len" not in env.d:
                    (t, ty) = expr(node.args[0], env, ctx)
                    need(ty in ("str", "strlist"), "len of a " + ty)
                    return f"{t}.length", "int"
                if f == "re.split" and len(node.args) == 2:
                    need("re" in ctx.modules and "re" not in env.d, "`re` is not the module re")
                    pat = node.args[0]
                    need(isinstance(pat, ast.Constant) and isinstance(pat.value, str), "re.split with a non-literal pattern")
                    d = split_delimiter(pat.value)
                    (t, ty) = expr(node.args[1], env, ctx)
                    need(ty == "str", "re.split of a " + ty)
                    ctx.string("manpage_split_pattern", pat.value)
                    return f"(manpage_py_re_split {lean_char(d)} ({t}.length + 1) {t})", "strlist"
                if f == DATE_CALL and len(node.args) == 1:
                    need("datetime" in ctx.modules and "datetime" not in env.d, "`datetime` is not the module datetime")
                    a = node.args[0]
                    need(isinstance(a, ast.Constant) and isinstance(a.value, str), "strftime with a non-literal format")
                    ctx.string("manpage_date_format", a.value)
                    return "date", "str"
                if isinstance(node.func, ast.Attribute) and node.func.attr == "startswith" and len(node.args) == 1:
                    (s, ts), (p, tp) = expr(node.func.value, env, ctx), expr(node.args[0], env, ctx)
                    need(ts == "str" and tp == "str", "startswith on " + ts + " / " + tp)
                    return f"(manpage_py_startswith {s} {p})", "bool"
                if isinstance(node.func, ast.Attribute) and node.func.attr == "join" and len(node.args) == 1:
                    (s, ts), (p, tp) = expr(node.func.value, env, ctx), expr(node.args[0], env, ctx)
                    need(ts == "str" and tp == "strlist", "join on " + ts + " / " + tp)
                    return f"(manpage_py_join {s} {p})", "str"
                raise U("call " + unp(node)[:50])
            raise U("expression " + unp(node)[:50])

        def boolean(node, env, ctx):
            (t, ty) = expr(node, env, ctx)
            need(ty == "bool", f"truth value of a {ty}: " + unp(node)[:40])      # truthiness of str / list is not translated
            return t

        def is_path_expr(node, env):
            if isinstance(node, ast.Constant) and isinstance(node.value, str):
                return True
            if isinstance(node, ast.Name):
                return node.id == "__file__" or (node.id in env.d and env.d[node.id][1] == "path")
            if isinstance(node, ast.Call) and unp(node.func) in PATH_FUNCS and not node.keywords:
                return all(is_path_expr(a, env) for a in node.args)
            return False

        def learn_len(test, env):
            """`len(X) < K` / `<= K` / `>= K` / `> K` with a variable X and a literal K: what is known about len(X) in the two branches"""
            if isinstance(test, ast.Compare) and len(test.ops) == 1 and isinstance(test.left, ast.Call) and unp(test.left.func) == "len" \
                    and len(test.left.args) == 1 and isinstance(test.left.args[0], ast.Name) and "len" not in env.d \
                    and isinstance(test.comparators[0], ast.Constant) and type(test.comparators[0].value) is int:
                x, k, op = test.left.args[0].id, test.comparators[0].value, test.ops[0]
                if isinstance(op, ast.Lt):
                    return env, env.with_len_bound(x, k)
                if isinstance(op, ast.LtE):
                    return env, env.with_len_bound(x, k + 1)
                if isinstance(op, ast.GtE):
                    return env.with_len_bound(x, k), env
                if isinstance(op, ast.Gt):
                    return env.with_len_bound(x, k + 1), env
            return env, env

        # ---- the loop body: statements -> Lean term of type Bool × Bool × List Char  (break?, carried, lines[i])
        def body_stmts(stmts, env, ctx, loop):
            carried, seq, idx = loop["carried"], loop["seq"], loop["index"]

            def done(brk):
                return f"({'true' if brk else 'false'}, {env.get(carried)[0]}, {env.get('lines[i]')[0]})"
            if not stmts:
                return done(False)
            s, rest = stmts[0], stmts[1:]
            if isinstance(s, ast.Continue):
                return done(False)
            if isinstance(s, ast.Break):
                return done(True)
            if isinstance(s, ast.If):
                c = boolean(s.test, env, ctx)
                (env_then, env_else) = learn_len(s.test, env)
                return (f"(if {c} then {body_stmts(list(s.body) + rest, env_then, ctx, loop)}\n"
                        f"   else {body_stmts(list(s.orelse) + rest, env_else, ctx, loop)})")
            if isinstance(s, ast.Assign):
                need(len(s.targets) == 1, "multiple assignment targets")
                tgt = s.targets[0]
                (v, ty) = expr(s.value, env, ctx)
                if isinstance(tgt, ast.Name):
                    need(tgt.id not in (seq, idx, loop["item"]), "assignment to the loop variables")
                    if tgt.id in env.d:
                        need(env.d[tgt.id][1] == ty, f"{tgt.id} changes its type")
                    name = tgt.id
                    need(name.isidentifier() and name not in ("name", "newVersion", "date", "cur"), "variable name " + name)
                    return f"(let {name} := {v};\n   {body_stmts(rest, env.drop([name]).set(name, name, ty), ctx, loop)})"
                if isinstance(tgt, ast.Subscript) and isinstance(tgt.value, ast.Name):
                    base, k = tgt.value.id, tgt.slice
                    if base == seq:
                        need(isinstance(k, ast.Name) and k.id == idx and ty == "str", "assignment to " + unp(tgt))
                        return f"(let cur := {v};\n   {body_stmts(rest, env.set('lines[i]', 'cur', 'str'), ctx, loop)})"
                    (b, tb) = env.get(base)
                    need(tb == "strlist" and ty == "str" and b == base, "assignment to " + unp(tgt))
                    need(isinstance(k, ast.Constant) and isinstance(k.value, int) and not isinstance(k.value, bool) and k.value >= 0,
                         "assignment index " + unp(k))
                    # Python raises IndexError out of range (`List.set` would do nothing): only emitted under a dominating length test
                    need(k.value < env.len_bound(base), f"{unp(tgt)}: index not guarded by a test of len({base})")
                    return f"(let {base} := {base}.set {k.value} {v};\n   {body_stmts(rest, env, ctx, loop)})"
                raise U("assignment target " + unp(tgt))
            raise U("loop statement " + type(s).__name__)

        def assigned_names(stmts):
            out = []
            for s in stmts:
                for n in ast.walk(s):
                    if isinstance(n, ast.Assign):
                        for t in n.targets:
                            if isinstance(t, ast.Name) and t.id not in out:
                                out.append(t.id)
                    elif isinstance(n, (ast.AugAssign, ast.AnnAssign, ast.For, ast.While, ast.With, ast.Try, ast.Return, ast.NamedExpr,
                                        ast.Delete, ast.Global, ast.Nonlocal, ast.FunctionDef, ast.Lambda, ast.Yield)):
                        raise U("loop body contains " + type(n).__name__)
            return out

        # ---- the function: statements -> Lean term of type Option (List Char)
        def fn_stmts(stmts, env, ctx, defs):
            if not stmts:
                return "none"
            s, rest = stmts[0], stmts[1:]
            if isinstance(s, ast.If) and len(s.body) == 1 and isinstance(s.body[0], ast.Return) and not s.orelse:
                need(s.body[0].value is None or (isinstance(s.body[0].value, ast.Constant) and s.body[0].value.value is None),
                     "early return of a value")
                return f"if {boolean(s.test, env, ctx)} then none else\n  {fn_stmts(rest, env, ctx, defs)}"
            if isinstance(s, ast.Assign) and len(s.targets) == 1 and isinstance(s.targets[0], ast.Name):
                name = s.targets[0].id
                need(name.isidentifier() and name not in ("name", "newVersion", "date", "page", "r"), "variable name " + name)
                if is_path_expr(s.value, env) and not isinstance(s.value, ast.Constant):
                    ctx.string("manpage_path_" + name, unp(s.value))
                    return fn_stmts(rest, env.set(name, name, "path"), ctx, defs)
                (v, ty) = expr(s.value, env, ctx)
                return f"let {name} := {v};\n  {fn_stmts(rest, env.set(name, name, ty), ctx, defs)}"
            if isinstance(s, ast.With):
                # with open(PATH) as f: NAME = f.readlines()
                need(len(s.items) == 1 and isinstance(s.items[0].optional_vars, ast.Name), "with-statement shape")
                f = s.items[0].optional_vars.id
                op = s.items[0].context_expr
                need(isinstance(op, ast.Call) and unp(op.func) == "open" and "open" not in env.d and not op.keywords, "with: not an `open(...)`")
                need(len(op.args) == 1 and isinstance(op.args[0], ast.Name) and env.get(op.args[0].id)[1] == "path",
                     "reading `open` with a mode or a non-path argument: " + unp(op))
                need(len(s.body) == 1 and isinstance(s.body[0], ast.Assign) and len(s.body[0].targets) == 1
                     and isinstance(s.body[0].targets[0], ast.Name), "with-body is not `NAME = f.readlines()`")
                need(unp(s.body[0].value) == f + ".readlines()", "with-body is not `NAME = f.readlines()`")
                need(ctx.read_path is None, "the file is read twice")
                ctx.read_path = op.args[0].id
                ctx.string("manpage_read_open", unp(op))
                name = s.body[0].targets[0].id
                need(name.isidentifier() and name not in ("name", "newVersion", "date", "page", "r"), "variable name " + name)
                return f"let {name} := manpage_py_readlines page;\n  {fn_stmts(rest, env.set(name, name, 'strlist'), ctx, defs)}"
            if isinstance(s, ast.For) and isinstance(s.target, ast.Tuple):
                # for i, line in enumerate(lines): BODY
                need(not s.orelse, "for-else")
                need(len(s.target.elts) == 2 and all(isinstance(e, ast.Name) for e in s.target.elts), "loop target")
                idx, item = s.target.elts[0].id, s.target.elts[1].id
                it = s.iter
                need(isinstance(it, ast.Call) and unp(it.func) == "enumerate" and "enumerate" not in env.d and len(it.args) == 1
                     and not it.keywords and isinstance(it.args[0], ast.Name), "loop is not over enumerate(NAME)")
                seq = it.args[0].id
                need(env.get(seq) == (seq, "strlist"), f"{seq} is not a list of strings")
                need("manpage_body" not in defs, "second loop")
                assigned = assigned_names(s.body)
                carried = [n for n in assigned if n in env.d]
                local = [n for n in assigned if n not in env.d]
                need(len(carried) == 1 and env.get(carried[0]) == (carried[0], "bool"),
                     f"loop-carried variables {carried}: expected exactly one Boolean")
                carried = carried[0]
                need(item.isidentifier() and item not in ("name", "newVersion", "date", "cur", "rest", "r", "q", carried), "variable name " + item)
                need(carried not in ("name", "newVersion", "date", "cur", "rest", "r", "q"), "variable name " + carried)
                benv = env.drop([idx]).set(item, item, "str").set("lines[i]", item, "str")
                loop = dict(carried=carried, seq=seq, index=idx, item=item)
                body = body_stmts(list(s.body), benv, ctx, loop)
                defs["manpage_body"] = (f"/-- body of `for {idx}, {item} in enumerate({seq})`: (left by `break`?, `{carried}` afterwards, {seq}[{idx}] afterwards) -/\n"
                                        f"def manpage_body {PARAMS} ({carried} : Bool) ({item} : List Char) : Bool × Bool × List Char :=\n  {body}")
                defs["manpage_loop"] = (f"/-- `for {idx}, {item} in enumerate({seq})` with `continue` / `break`: (`{carried}`, `{seq}`) afterwards -/\n"
                                        f"def manpage_loop {PARAMS} : Bool → List (List Char) → Bool × List (List Char)\n"
                                        f"  | {carried}, [] => ({carried}, [])\n"
                                        f"  | {carried}, {item} :: rest =>\n"
                                        f"    let r := manpage_body {ARGS} {carried} {item}\n"
                                        f"    if r.1 then (r.2.1, r.2.2 :: rest)\n"
                                        f"    else let q := manpage_loop {ARGS} r.2.1 rest; (q.1, r.2.2 :: q.2)")
                # after the loop: the loop variables and the body's local variables may be unbound / stale - not available any more
                env2 = env.drop([idx, item] + local)
                return (f"let r := manpage_loop {ARGS} {carried} {seq};\n  let {carried} := r.1;\n  let {seq} := r.2;\n"
                        f"  {fn_stmts(rest, env2, ctx, defs)}")
            if isinstance(s, ast.If) and not s.orelse and len(s.body) == 1 and isinstance(s.body[0], ast.With):
                # if COND: with open(PATH, "w") as f: for x in LINES: f.write(x)       (last statement)
                need(not rest, "statements after the write")
                w = s.body[0]
                need(len(w.items) == 1 and isinstance(w.items[0].optional_vars, ast.Name), "with-statement shape")
                f = w.items[0].optional_vars.id
                op = w.items[0].context_expr
                need(isinstance(op, ast.Call) and unp(op.func) == "open" and "open" not in env.d and not op.keywords and len(op.args) == 2,
                     "write: not an `open(PATH, MODE)`")
                need(isinstance(op.args[0], ast.Name) and env.get(op.args[0].id)[1] == "path" and op.args[0].id == ctx.read_path,
                     "the file written is not the file read")
                need(isinstance(op.args[1], ast.Constant) and op.args[1].value == "w", "open mode is not 'w'")
                ctx.string("manpage_write_open", unp(op))
                need(len(w.body) == 1 and isinstance(w.body[0], ast.For), "write: body is not a loop")
                lp = w.body[0]
                need(isinstance(lp.target, ast.Name) and isinstance(lp.iter, ast.Name) and not lp.orelse and len(lp.body) == 1,
                     "write loop shape")
                (seq, ty) = env.get(lp.iter.id)
                need(ty == "strlist", "write loop over a " + ty)
                need(isinstance(lp.body[0], ast.Expr) and unp(lp.body[0].value) == f"{f}.write({lp.target.id})", "write loop body")
                return f"if {boolean(s.test, env, ctx)} then some {seq}.flatten else none"
            raise U("statement " + unp(s)[:50])

        state = {}

        def translate():
            if "result" in state:
                return state["result"]
            tree = api.parse("qrcode/release.py")
            fn = find_func(tree, "update_manpage")
            need(isinstance(fn, ast.FunctionDef) and len(fn.args.args) == 1 and not fn.args.vararg and not fn.args.kwarg
                 and not fn.args.kwonlyargs and not fn.decorator_list, "signature of update_manpage")
            ctx = Ctx(tree, fn)
            defs = {}
            body = fn_stmts(list(strip_doc(fn.body)), Env(), ctx, defs)
            need("manpage_body" in defs, "no loop over the lines")
            need(ctx.read_path is not None, "the file is never read")
            defs["manpage_update"] = ("/-- `update_manpage(data)` with data[\"name\"] = name, data[\"new_version\"] = newVersion, the strftime result `date`\n"
                                      "and the file content `page`: `none` = nothing is written, `some text` = the text written to the file -/\n"
                                      f"def manpage_update {PARAMS} (page : List Char) : Option (List Char) :=\n  {body}")
            strings = []
            seen = {}
            for (n, t) in ctx.strings:
                if n in seen:
                    need(seen[n] == t, f"{n}: two different texts")
                    continue
                seen[n] = t
                strings.append(f"def {n} : String := {lean_str(t)}")
            state["result"] = (defs, strings)
            return state["result"]

        api.emit("manpage_prelude", lambda: PRELUDE)
        api.emit("manpage_body", lambda: translate()[0]["manpage_body"])
        api.emit("manpage_loop", lambda: translate()[0]["manpage_loop"])
        api.emit("manpage_update", lambda: translate()[0]["manpage_update"])
        api.emit("manpage_strings", lambda: "\n".join(translate()[1]))

    fragments(api)


def fragments(api):
    for part in (_c1, _c2, _c3, _c4, _c5, _c6, _c7,):
        try:
            part(api)
        except Exception as e:  # noqa
            def fail(e=e):
                raise api.Untranslatable(f"{type(e).__name__}: {e}")
            api.emit("plugin_part" + part.__name__, fail)
