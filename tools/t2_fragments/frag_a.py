"""T2 fragments, list A: BCH codes, format/version information placement, GF(256) helpers, rs_blocks, Polynomial,
length_in_bits / BIT_LIMIT_TABLE / create_bytes index arithmetic.

Every emitter reads the Python AST of the current source and prints Lean definitions (namespace QR.Gen.Code).  Nothing is
printed from a constant: each Lean term below is produced by the expression translator from a node of the tree, and every
structural assumption about the surrounding statements is checked (otherwise the fragment is Untranslatable).

Typing convention of the mixed translator `TrM`:
  * a fragment is translated over Nat (Python ints known to be non-negative: bit words, lengths, loop indices);
  * a subtraction never happens in Nat: an expression containing `-` is translated over Int (Nat variables are cast), a
    comparison with a `-` inside is decided over Int, a shift amount with a `-` inside is `(… : Int).toNat`, a coordinate
    with a `-` inside is an Int.  The bridging theorems state the side conditions under which Nat truncation agrees.
  * calls of other translated Python functions become applications of a function *parameter* of the Lean definition
    (e.g. `(BCH_digit : Nat → Nat)`), which the bridging theorem instantiates with the Model function.
"""
import ast
import json


def fragments(api):
    Tr, Untranslatable = api.Tr, api.Untranslatable
    find_func, strip_doc = api.find_func, api.strip_doc
    util, main = api.trees["util"], api.trees["main"]

    BIT = (ast.LShift, ast.RShift, ast.BitOr, ast.BitAnd, ast.BitXor)
    NATOPS = {ast.Add: "+", ast.Mult: "*", ast.FloorDiv: "/", ast.Mod: "%", ast.LShift: "<<<", ast.RShift: ">>>",
              ast.BitOr: "|||", ast.BitAnd: "&&&", ast.BitXor: "^^^"}
    INTOPS = {ast.Add: "+", ast.Sub: "-", ast.Mult: "*"}
    CMP = {ast.Eq: "=", ast.NotEq: "≠", ast.Lt: "<", ast.LtE: "≤", ast.Gt: ">", ast.GtE: "≥"}

    def has_sub(node):
        """does the integer expression contain a subtraction / negation outside call arguments and subscripts?"""
        if isinstance(node, ast.BinOp):
            return isinstance(node.op, ast.Sub) or has_sub(node.left) or has_sub(node.right)
        if isinstance(node, ast.UnaryOp):
            return isinstance(node.op, ast.USub) or has_sub(node.operand)
        if isinstance(node, ast.Constant):
            return isinstance(node.value, int) and not isinstance(node.value, bool) and node.value < 0
        if isinstance(node, ast.IfExp):
            return has_sub(node.body) or has_sub(node.orelse)
        return False

    class TrM(Tr):
        """mixed Nat/Int translator.
        env      : Python name / dotted path -> Lean term of type Nat
        bools    : Python name -> Lean term of type Bool
        funcs    : Python callee (unparsed) -> Lean function term taking Nat arguments, returning Nat
        subs     : unparsed subscript / call text -> Lean Nat term
        ints     : Python name -> Lean term of type Int (variables that are genuinely signed)
        """

        def __init__(self, env, bools=None, funcs=None, subs=None, ints=None):
            Tr.__init__(self, dict(env), "Nat", dict(subs or {}))
            self.bools, self.funcs, self.ints = dict(bools or {}), dict(funcs or {}), dict(ints or {})

        # ---- Nat
        def num(self, node):
            if isinstance(node, ast.Constant):
                if isinstance(node.value, bool) or not isinstance(node.value, int):
                    raise Untranslatable("constant " + repr(node.value))
                if node.value < 0:
                    raise Untranslatable("negative constant in a Nat context")
                return str(node.value)
            if isinstance(node, (ast.Name, ast.Attribute)):
                n = self.name_of(node)
                if n in self.env:
                    return self.env[n]
                if n in self.ints:
                    raise Untranslatable("signed variable " + n + " in a Nat context")
                raise Untranslatable("free name " + n)
            if isinstance(node, ast.Subscript):
                key = ast.unparse(node)
                if key in self.subscripts:
                    return self.subscripts[key]
                raise Untranslatable("subscript " + key)
            if isinstance(node, ast.Call):
                key = ast.unparse(node)
                if key in self.subscripts:
                    return self.subscripts[key]
                f = ast.unparse(node.func)
                if f in self.funcs and not node.keywords:
                    return "(" + " ".join([self.funcs[f]] + [self.num(a) for a in node.args]) + ")"
                if f == "int" and len(node.args) == 1:
                    return self.num(node.args[0])
                if f in ("min", "max") and len(node.args) == 2 and not has_sub(node):
                    return f"({f} {self.num(node.args[0])} {self.num(node.args[1])})"
                raise Untranslatable("call " + key[:50])
            if isinstance(node, ast.BinOp):
                if isinstance(node.op, ast.Sub):
                    raise Untranslatable("subtraction in a Nat context: " + ast.unparse(node)[:50])
                if type(node.op) not in NATOPS:
                    raise Untranslatable("operator " + type(node.op).__name__)
                if isinstance(node.op, (ast.LShift, ast.RShift)) and has_sub(node.right):
                    return f"({self.num(node.left)} {NATOPS[type(node.op)]} ({self.int(node.right)}).toNat)"
                return f"({self.num(node.left)} {NATOPS[type(node.op)]} {self.num(node.right)})"
            if isinstance(node, ast.IfExp):
                return f"(if {self.boolean(node.test)} then {self.num(node.body)} else {self.num(node.orelse)})"
            raise Untranslatable("expression " + ast.unparse(node)[:60])

        # ---- Int
        def int(self, node):
            if isinstance(node, ast.Constant):
                if isinstance(node.value, bool) or not isinstance(node.value, int):
                    raise Untranslatable("constant " + repr(node.value))
                return f"({node.value} : Int)"
            if isinstance(node, ast.UnaryOp) and isinstance(node.op, ast.USub):
                return f"(-{self.int(node.operand)})"
            if isinstance(node, (ast.Name, ast.Attribute)):
                n = self.name_of(node)
                if n in self.ints:
                    return self.ints[n]
                return f"(({self.num(node)} : Nat) : Int)"
            if isinstance(node, ast.BinOp):
                if type(node.op) in INTOPS:
                    return f"({self.int(node.left)} {INTOPS[type(node.op)]} {self.int(node.right)})"
                if isinstance(node.op, (ast.FloorDiv, ast.Mod)):
                    # Python floor division / modulo agree with Lean's Int `/` `%` for a positive constant divisor
                    r = node.right
                    if not (isinstance(r, ast.Constant) and isinstance(r.value, int) and not isinstance(r.value, bool) and r.value > 0):
                        raise Untranslatable("division by a non-constant / non-positive divisor")
                    return f"({self.int(node.left)} {'/' if isinstance(node.op, ast.FloorDiv) else '%'} ({r.value} : Int))"
                if isinstance(node.op, BIT):
                    return f"(({self.num(node)} : Nat) : Int)"          # raises if a `-` occurs outside a shift amount
                raise Untranslatable("operator " + type(node.op).__name__)
            if isinstance(node, ast.IfExp):
                return f"(if {self.boolean(node.test)} then {self.int(node.body)} else {self.int(node.orelse)})"
            if isinstance(node, ast.Call) and ast.unparse(node.func) in ("min", "max") and len(node.args) == 2 and not node.keywords \
                    and ast.unparse(node) not in self.subscripts:
                return f"({ast.unparse(node.func)} {self.int(node.args[0])} {self.int(node.args[1])})"
            return f"(({self.num(node)} : Nat) : Int)"

        def is_signed(self, node):
            if has_sub(node):
                return True
            return any(isinstance(n, (ast.Name, ast.Attribute)) and self._nm(n) in self.ints for n in self._outer(node))

        def _nm(self, n):
            try:
                return self.name_of(n)
            except Untranslatable:
                return None

        def _outer(self, node):
            """sub-nodes outside call arguments / subscripts"""
            yield node
            if isinstance(node, ast.BinOp):
                yield from self._outer(node.left)
                yield from self._outer(node.right)
            elif isinstance(node, ast.UnaryOp):
                yield from self._outer(node.operand)
            elif isinstance(node, ast.IfExp):
                yield from self._outer(node.body)
                yield from self._outer(node.orelse)

        # ---- Bool
        def boolean(self, node):
            if isinstance(node, ast.BoolOp):
                op = " && " if isinstance(node.op, ast.And) else " || "
                return "(" + op.join(self.boolean(v) for v in node.values) + ")"
            if isinstance(node, ast.UnaryOp) and isinstance(node.op, ast.Not):
                return f"(!{self.boolean(node.operand)})"
            if isinstance(node, ast.Constant) and isinstance(node.value, bool):
                return "true" if node.value else "false"
            if isinstance(node, ast.Compare):
                parts, left = [], node.left
                for op, right in zip(node.ops, node.comparators):
                    if isinstance(op, (ast.In, ast.NotIn)):
                        if not isinstance(right, (ast.Set, ast.Tuple, ast.List)):
                            raise Untranslatable("`in` over a non-literal")
                        alts = " || ".join(f"decide ({self.num(left)} = {self.num(e)})" for e in right.elts)
                        parts.append(f"({alts})" if isinstance(op, ast.In) else f"(!({alts}))")
                    elif type(op) not in CMP:
                        raise Untranslatable("comparison " + type(op).__name__)
                    elif self.is_signed(left) or self.is_signed(right):
                        parts.append(f"decide ({self.int(left)} {CMP[type(op)]} {self.int(right)})")
                    else:
                        parts.append(f"decide ({self.num(left)} {CMP[type(op)]} {self.num(right)})")
                    left = right
                return parts[0] if len(parts) == 1 else "(" + " && ".join(parts) + ")"
            if isinstance(node, (ast.Name, ast.Attribute)):
                n = self.name_of(node)
                if n in self.bools:
                    return self.bools[n]
                if n in self.env:                       # truth value of a Python int
                    return f"decide ({self.env[n]} ≠ 0)"
                if n in self.ints:
                    return f"decide ({self.ints[n]} ≠ 0)"
                raise Untranslatable("truth value of " + n)
            raise Untranslatable("condition " + ast.unparse(node)[:60])

    def is_range(node, nargs):
        return (isinstance(node, ast.Call) and ast.unparse(node.func) == "range" and not node.keywords
                and len(node.args) in nargs)

    def module_const(tree, name, tr):
        """`NAME = <int expression>` at module level"""
        hits = [s for s in tree.body if isinstance(s, ast.Assign) and len(s.targets) == 1
                and isinstance(s.targets[0], ast.Name) and s.targets[0].id == name]
        if len(hits) != 1:
            raise Untranslatable(f"{len(hits)} module-level assignments of {name}")
        return tr.num(hits[0].value)

    def single_name_target(s):
        if isinstance(s, ast.Assign) and len(s.targets) == 1 and isinstance(s.targets[0], ast.Name):
            return s.targets[0].id
        if isinstance(s, ast.AugAssign) and isinstance(s.target, ast.Name):
            return s.target.id
        raise Untranslatable("statement " + ast.unparse(s)[:50])

    def assign_value(s):
        """the expression node whose value the (aug)assignment stores"""
        if isinstance(s, ast.Assign):
            return s.value
        return ast.BinOp(left=ast.Name(id=s.target.id, ctx=ast.Load()), op=s.op, right=s.value)

    # =====================================================================================================================
    # A1  util.BCH_digit / BCH_type_info / BCH_type_number
    # =====================================================================================================================
    CONSTS = ["G15", "G18", "G15_MASK"]

    def bch_consts():
        tr = TrM({})
        return "\n".join(f"def const_{c} : Nat := {module_const(util, c, tr)}" for c in CONSTS)
    api.emit("bch_consts", bch_consts)

    def while_function(qual, lean, funcs, consts):
        """a function of the shape  `v = e`* ; `while c: (v = e | v op= e)+` ; `return e`
        -> lean_init (parameters) : state ; lean_cond / lean_step (read-only parameters) (state) ; lean_result.
        The state is the tuple of the variables assigned in the loop body (parameters first, then locals, in order of
        first binding); assignments are sequential (`let`)."""
        def f():
            fn = find_func(util, qual)
            if fn.args.vararg or fn.args.kwarg or fn.args.kwonlyargs or fn.args.defaults:
                raise Untranslatable("signature")
            params = [a.arg for a in fn.args.args]
            body = strip_doc(fn.body)
            pre = []
            k = 0
            while k < len(body) and isinstance(body[k], (ast.Assign, ast.AugAssign)):
                pre.append(body[k])
                k += 1
            if not (k + 2 == len(body) and isinstance(body[k], ast.While) and not body[k].orelse
                    and isinstance(body[k + 1], ast.Return) and body[k + 1].value is not None):
                raise Untranslatable("shape is not `assignments; while; return`")
            loop, ret = body[k], body[k + 1]
            order = list(params)
            for s in pre:
                v = single_name_target(s)
                if v not in order:
                    order.append(v)
            assigned = []
            for s in loop.body:
                if not isinstance(s, (ast.Assign, ast.AugAssign)):
                    raise Untranslatable("loop statement " + type(s).__name__)
                v = single_name_target(s)
                if v not in order:
                    raise Untranslatable("loop assigns the unbound variable " + v)
                if v not in assigned:
                    assigned.append(v)
            state = [v for v in order if v in assigned]
            locs = [v for v in order if v not in params]
            if any(v not in state for v in locs):
                raise Untranslatable("a local variable is not part of the loop state")
            ro = [p for p in params if p not in state]
            used = sorted({ast.unparse(n.func) for n in ast.walk(fn) if isinstance(n, ast.Call)})
            for u in used:
                if u not in funcs:
                    raise Untranslatable("call of " + u)
            fb = "".join(f" ({funcs[u]} : Nat → Nat)" for u in used)
            env = {v: v for v in order}
            env.update({c: "const_" + c for c in consts})
            tr = TrM(env, funcs={u: funcs[u] for u in used})
            sty = " × ".join(["Nat"] * len(state))
            tup = state[0] if len(state) == 1 else "(" + ", ".join(state) + ")"
            pb = f" ({' '.join(params)} : Nat)" if params else ""
            rb = f" ({' '.join(ro)} : Nat)" if ro else ""
            sb = f" ({' '.join(state)} : Nat)"

            def lets(stmts):
                return "".join(f"let {single_name_target(s)} := {tr.num(assign_value(s))}; " for s in stmts)
            return (f"def {lean}_init{fb}{pb} : {sty} := {lets(pre)}{tup}\n"
                    f"def {lean}_cond{fb}{rb}{sb} : Bool := {tr.boolean(loop.test)}\n"
                    f"def {lean}_step{fb}{rb}{sb} : {sty} := {lets(loop.body)}{tup}\n"
                    f"def {lean}_result{fb}{rb}{sb} : Nat := {tr.num(ret.value)}")
        return f
    api.emit("bch_digit", while_function("BCH_digit", "bch_digit", {}, CONSTS))
    api.emit("bch_type_info", while_function("BCH_type_info", "bch_type_info", {"BCH_digit": "BCH_digit"}, CONSTS))
    api.emit("bch_type_number", while_function("BCH_type_number", "bch_type_number", {"BCH_digit": "BCH_digit"}, CONSTS))

    # =====================================================================================================================
    # A2  QRCode.setup_type_info / setup_type_number
    # =====================================================================================================================
    def module_write(s, tr, base):
        """`self.modules[R][C] = V` -> ((R, C), V) with Int coordinates and a Bool value"""
        if not (isinstance(s, ast.Assign) and len(s.targets) == 1):
            raise Untranslatable("statement " + ast.unparse(s)[:50])
        t = s.targets[0]
        if not (isinstance(t, ast.Subscript) and isinstance(t.value, ast.Subscript) and ast.unparse(t.value.value) == base):
            raise Untranslatable("target " + ast.unparse(t)[:50])
        r, c = t.value.slice, t.slice
        if isinstance(r, ast.Slice) or isinstance(c, ast.Slice):
            raise Untranslatable("slice target")
        return f"(({tr.int(r)}, {tr.int(c)}), {tr.boolean(s.value)})"

    def write_chain(stmts, tr, base):
        """a single module write, or an if / elif / else chain of them"""
        if len(stmts) != 1:
            raise Untranslatable("expected one statement, got " + str(len(stmts)))
        s = stmts[0]
        if isinstance(s, ast.If):
            if not s.orelse:
                raise Untranslatable("if without else in a write chain")
            return f"(if {tr.boolean(s.test)} then {write_chain(s.body, tr, base)} else {write_chain(s.orelse, tr, base)})"
        return module_write(s, tr, base)

    def write_loop(lp, env, bools, lean, binders):
        """`for i in range(K): local = e ...; <write chain>`  ->  lean_range, lean (…) (i : Nat) : (Int × Int) × Bool"""
        if not (isinstance(lp, ast.For) and isinstance(lp.target, ast.Name) and not lp.orelse and is_range(lp.iter, (1, 2))):
            raise Untranslatable("loop shape")
        i = lp.target.id
        tr0 = TrM(env, bools)
        rng = (["0"] if len(lp.iter.args) == 1 else []) + [tr0.num(a) for a in lp.iter.args]
        env2, bools2 = dict(env), dict(bools)
        env2[i] = "i"
        lets = ""
        body = list(lp.body)
        while body and isinstance(body[0], ast.Assign) and len(body[0].targets) == 1 and isinstance(body[0].targets[0], ast.Name):
            v = body[0].targets[0].id
            if v in env2 or v == i:
                raise Untranslatable("loop body rebinds " + v)
            tr = TrM(env2, bools2)
            lets += f"let {v} : Bool := {tr.boolean(body[0].value)}; "
            bools2[v] = v
            body = body[1:]
        tr = TrM(env2, bools2)
        return (f"def {lean}_range : Nat × Nat := ({rng[0]}, {rng[1]})\n"
                f"def {lean} {binders} (i : Nat) : (Int × Int) × Bool := {lets}{write_chain(body, tr, 'self.modules')}")

    def call_text(s, var):
        if not (isinstance(s, ast.Assign) and len(s.targets) == 1 and isinstance(s.targets[0], ast.Name)
                and s.targets[0].id == var and isinstance(s.value, ast.Call)):
            raise Untranslatable(f"`{var} = <call>` expected")
        return json.dumps(ast.unparse(s.value))

    def type_info():
        fn = find_func(main, "QRCode.setup_type_info")
        args = [a.arg for a in fn.args.args]
        if len(args) != 3 or args[0] != "self":
            raise Untranslatable("signature")
        test, mp = args[1], args[2]
        body = strip_doc(fn.body)
        if len(body) != 5:
            raise Untranslatable(f"{len(body)} statements (expected data, bits, two loops, the fixed module)")
        d = body[0]
        if not (isinstance(d, ast.Assign) and len(d.targets) == 1 and isinstance(d.targets[0], ast.Name)):
            raise Untranslatable("first statement")
        dname = d.targets[0].id
        trd = TrM({"self.error_correction": "error_correction", mp: "mask_pattern"})
        bits = call_text(body[1], "bits")
        if body[1].value.args and ast.unparse(body[1].value.args[0]) != dname:
            raise Untranslatable("bits is not computed from " + dname)
        env = {"self.modules_count": "n", "bits": "bits"}
        bools = {test: "test"}
        binders = "(n : Nat) (test : Bool) (bits : Nat)"
        tr = TrM(env, bools)
        return (f"def type_info_data (error_correction mask_pattern : Nat) : Nat := {trd.num(d.value)}\n"
                f"def type_info_bits_call : String := {bits}\n"
                + write_loop(body[2], env, bools, "type_info_v", binders) + "\n"
                + write_loop(body[3], env, bools, "type_info_h", binders) + "\n"
                f"def type_info_fixed (n : Nat) (test : Bool) : (Int × Int) × Bool := {module_write(body[4], tr, 'self.modules')}")
    api.emit("setup_type_info", type_info)

    def type_number():
        fn = find_func(main, "QRCode.setup_type_number")
        args = [a.arg for a in fn.args.args]
        if len(args) != 2 or args[0] != "self":
            raise Untranslatable("signature")
        body = strip_doc(fn.body)
        if len(body) != 3:
            raise Untranslatable(f"{len(body)} statements (expected bits and two loops)")
        bits = call_text(body[0], "bits")
        env = {"self.modules_count": "n", "bits": "bits"}
        bools = {args[1]: "test"}
        binders = "(n : Nat) (test : Bool) (bits : Nat)"
        return (f"def type_number_bits_call : String := {bits}\n"
                + write_loop(body[1], env, bools, "type_number_a", binders) + "\n"
                + write_loop(body[2], env, bools, "type_number_b", binders))
    api.emit("setup_type_number", type_number)

    # =====================================================================================================================
    # A3  base.gexp / base.glog / base.rs_blocks
    # =====================================================================================================================
    base = api.parse("qrcode/base.py")

    def table_lookup(node, tr):
        """`TABLE[index]` -> (table name, Int index term)"""
        if not (isinstance(node, ast.Subscript) and isinstance(node.value, ast.Name) and not isinstance(node.slice, ast.Slice)):
            raise Untranslatable("not a table lookup: " + ast.unparse(node)[:40])
        return node.value.id, tr.int(node.slice)

    def raise_name(s):
        if not (isinstance(s, ast.Raise) and s.exc is not None):
            raise Untranslatable("not a raise")
        e = s.exc.func if isinstance(s.exc, ast.Call) else s.exc
        return ast.unparse(e)

    def gexp():
        fn = find_func(base, "gexp")
        if len(fn.args.args) != 1:
            raise Untranslatable("signature")
        body = strip_doc(fn.body)
        if not (len(body) == 1 and isinstance(body[0], ast.Return)):
            raise Untranslatable("body is not a single return")
        tr = TrM({}, ints={fn.args.args[0].arg: "n"})
        tab, ix = table_lookup(body[0].value, tr)
        return (f"def gexp_table : String := {json.dumps(tab)}\n"
                f"def gexp_index (n : Int) : Int := {ix}")
    api.emit("gexp", gexp)

    def glog():
        fn = find_func(base, "glog")
        if len(fn.args.args) != 1:
            raise Untranslatable("signature")
        body = strip_doc(fn.body)
        if not (len(body) == 2 and isinstance(body[0], ast.If) and not body[0].orelse and len(body[0].body) == 1
                and isinstance(body[0].body[0], ast.Raise) and isinstance(body[1], ast.Return)):
            raise Untranslatable("body is not `if c: raise` ; `return`")
        tr = TrM({}, ints={fn.args.args[0].arg: "n"})
        tab, ix = table_lookup(body[1].value, tr)
        return (f"def glog_raises (n : Int) : Bool := {tr.boolean(body[0].test)}\n"
                f"def glog_exception : String := {json.dumps(raise_name(body[0].body[0]))}\n"
                f"def glog_table : String := {json.dumps(tab)}\n"
                f"def glog_index (n : Int) : Int := {ix}")
    api.emit("glog", glog)

    def class_fields(tree, cls):
        c = find_func(tree, cls)
        if not isinstance(c, ast.ClassDef):
            raise Untranslatable(cls + " is not a class")
        fields = []
        for s in strip_doc(c.body):
            if isinstance(s, ast.AnnAssign) and isinstance(s.target, ast.Name) and s.value is None:
                fields.append(s.target.id)
            else:
                raise Untranslatable("class statement " + ast.unparse(s)[:40])
        return fields

    def ctor_args(call, fields):
        """positional / keyword arguments of a NamedTuple constructor, in field order"""
        if len(call.args) + len(call.keywords) != len(fields):
            raise Untranslatable("constructor arity")
        out = dict(zip(fields, call.args))
        for kw in call.keywords:
            if kw.arg not in fields or kw.arg in out:
                raise Untranslatable("constructor keyword " + str(kw.arg))
            out[kw.arg] = kw.value
        return [out[f] for f in fields]

    def rs_blocks():
        fn = find_func(base, "rs_blocks")
        params = [a.arg for a in fn.args.args]
        if len(params) != 2:
            raise Untranslatable("signature")
        version, ec = params
        body = strip_doc(fn.body)
        if len(body) != 6:
            raise Untranslatable(f"{len(body)} statements (expected guard, offset, row, blocks = [], loop, return)")
        guard, off, row, init, loop, ret = body
        if not (isinstance(guard, ast.If) and not guard.orelse and len(guard.body) == 1 and isinstance(guard.body[0], ast.Raise)):
            raise Untranslatable("guard")
        if not (isinstance(off, ast.Assign) and isinstance(off.targets[0], ast.Name) and isinstance(off.value, ast.Subscript)):
            raise Untranslatable("offset lookup")
        oname = off.targets[0].id
        if not (isinstance(row, ast.Assign) and isinstance(row.targets[0], ast.Name)):
            raise Untranslatable("row lookup")
        rname = row.targets[0].id
        tr = TrM({version: "version", oname: "offset"})
        tab, ix = table_lookup(row.value, tr)
        if not (isinstance(init, ast.Assign) and isinstance(init.targets[0], ast.Name) and ast.unparse(init.value) == "[]"):
            raise Untranslatable("result initialisation")
        res = init.targets[0].id
        if not (isinstance(ret, ast.Return) and ast.unparse(ret.value) == res):
            raise Untranslatable("does not return " + res)
        if not (isinstance(loop, ast.For) and isinstance(loop.target, ast.Name) and not loop.orelse and is_range(loop.iter, (3,))):
            raise Untranslatable("outer loop is not `for i in range(a, b, c)`")
        i = loop.target.id
        trl = TrM({}, subs={f"len({rname})": "len"})
        rng = ", ".join(trl.num(a) for a in loop.iter.args)
        if len(loop.body) != 2:
            raise Untranslatable("outer loop body")
        unpack, inner = loop.body
        if not (isinstance(unpack, ast.Assign) and len(unpack.targets) == 1 and isinstance(unpack.targets[0], ast.Tuple)
                and all(isinstance(e, ast.Name) for e in unpack.targets[0].elts)
                and isinstance(unpack.value, ast.Subscript) and ast.unparse(unpack.value.value) == rname
                and isinstance(unpack.value.slice, ast.Slice) and unpack.value.slice.step is None
                and unpack.value.slice.lower is not None and unpack.value.slice.upper is not None):
            raise Untranslatable("unpacking statement")
        names = [e.id for e in unpack.targets[0].elts]
        if len(set(names)) != len(names):
            raise Untranslatable("duplicate unpack target")
        tri = TrM({i: "i"})
        sl = f"({tri.num(unpack.value.slice.lower)}, {tri.num(unpack.value.slice.upper)})"
        if not (isinstance(inner, ast.For) and not inner.orelse and is_range(inner.iter, (1,)) and len(inner.body) == 1):
            raise Untranslatable("inner loop")
        app = inner.body[0]
        if not (isinstance(app, ast.Expr) and isinstance(app.value, ast.Call) and ast.unparse(app.value.func) == res + ".append"
                and len(app.value.args) == 1 and isinstance(app.value.args[0], ast.Call)):
            raise Untranslatable("inner loop does not append a constructed block")
        ctor = app.value.args[0]
        cls = ast.unparse(ctor.func)
        fields = class_fields(base, cls)
        xs = [f"x{k}" for k in range(len(names))]
        trb = TrM({n: n for n in names})
        lets = "".join(f"let {n} := {x}; " for n, x in zip(names, xs))
        vals = ", ".join(trb.num(a) for a in ctor_args(ctor, fields))
        return (f"def rs_blocks_guard : String × String := ({json.dumps(ast.unparse(guard.test))}, {json.dumps(raise_name(guard.body[0]))})\n"
                f"def rs_blocks_offset_lookup : String := {json.dumps(ast.unparse(off.value))}\n"
                f"def rs_blocks_table : String := {json.dumps(tab)}\n"
                f"def rs_blocks_row_index (version offset : Nat) : Int := {ix}\n"
                f"def rs_blocks_range (len : Nat) : Nat × Nat × Nat := ({rng})\n"
                f"def rs_blocks_slice (i : Nat) : Nat × Nat := {sl}\n"
                f"def rs_blocks_block_fields : List String := [{', '.join(json.dumps(x) for x in fields)}]\n"
                f"def rs_blocks_block ({' '.join(xs)} : Nat) : Nat × ({' × '.join(['Nat'] * len(fields))}) := "
                f"{lets}({trb.num(inner.iter.args[0])}, ({vals}))")
    api.emit("rs_blocks", rs_blocks)

    # =====================================================================================================================
    # A4  base.Polynomial.__init__ / __mul__ / __mod__
    # =====================================================================================================================
    def repeat_list(node, tr, signed):
        """`[c] * e` -> (element, count); the count is an Int term when `signed` (Python: a negative count gives [])"""
        if not (isinstance(node, ast.BinOp) and isinstance(node.op, ast.Mult) and isinstance(node.left, ast.List)
                and len(node.left.elts) == 1):
            raise Untranslatable("not `[c] * e`: " + ast.unparse(node)[:40])
        return tr.num(node.left.elts[0]), (tr.int(node.right) if signed else tr.num(node.right))

    def poly_ctor(node, first, tr):
        """`Polynomial(<first>, shift)` -> the shift"""
        if not (isinstance(node, ast.Call) and ast.unparse(node.func) == "Polynomial" and len(node.args) == 2 and not node.keywords
                and ast.unparse(node.args[0]) == first):
            raise Untranslatable(f"not `Polynomial({first}, shift)`: " + ast.unparse(node)[:40])
        return tr.num(node.args[1])

    def poly_init():
        fn = find_func(base, "Polynomial.__init__")
        params = [a.arg for a in fn.args.args]
        if len(params) != 3:
            raise Untranslatable("signature")
        _, num, shift = params
        body = strip_doc(fn.body)
        if len(body) != 4:
            raise Untranslatable(f"{len(body)} statements (expected guard, offset = c, scan loop, self.num = …)")
        guard, init, loop, store = body
        if not (isinstance(guard, ast.If) and not guard.orelse and len(guard.body) == 1 and isinstance(guard.body[0], ast.Raise)):
            raise Untranslatable("guard")
        # truth value of a list is `len(list) != 0`
        trg = TrM({num: "len"})
        if not (isinstance(init, ast.Assign) and len(init.targets) == 1 and isinstance(init.targets[0], ast.Name)):
            raise Untranslatable("offset initialisation")
        off = init.targets[0].id
        tr0 = TrM({})
        if not (isinstance(loop, ast.For) and isinstance(loop.target, ast.Name) and loop.target.id == off and not loop.orelse
                and is_range(loop.iter, (1, 2))):
            raise Untranslatable(f"scan loop is not `for {off} in range(…)`")
        trr = TrM({}, subs={f"len({num})": "len"})
        rng = (["0"] if len(loop.iter.args) == 1 else []) + [trr.num(a) for a in loop.iter.args]
        if not (len(loop.body) == 1 and isinstance(loop.body[0], ast.If) and not loop.body[0].orelse
                and len(loop.body[0].body) == 1 and isinstance(loop.body[0].body[0], ast.Break)):
            raise Untranslatable("scan loop body is not `if c: break`")
        trb = TrM({}, subs={f"{num}[{off}]": "x"})
        if not (isinstance(store, ast.Assign) and len(store.targets) == 1 and ast.unparse(store.targets[0]) == "self.num"
                and isinstance(store.value, ast.BinOp) and isinstance(store.value.op, ast.Add)):
            raise Untranslatable("final store")
        sl = store.value.left
        if not (isinstance(sl, ast.Subscript) and ast.unparse(sl.value) == num and isinstance(sl.slice, ast.Slice)
                and sl.slice.lower is not None and sl.slice.upper is None and sl.slice.step is None):
            raise Untranslatable(f"not `{num}[lower:]`")
        tro = TrM({off: "offset"})
        trs = TrM({shift: "shift"})
        elem, cnt = repeat_list(store.value.right, trs, False)
        return (f"def poly_init_raises (len : Nat) : Bool := {trg.boolean(guard.test)}\n"
                f"def poly_init_exception : String := {json.dumps(raise_name(guard.body[0]))}\n"
                f"def poly_init_offset0 : Nat := {tr0.num(init.value)}\n"
                f"def poly_init_range (len : Nat) : Nat × Nat := ({rng[0]}, {rng[1]})\n"
                f"def poly_init_break (x : Nat) : Bool := {trb.boolean(loop.body[0].test)}\n"
                f"def poly_init_drop (offset : Nat) : Nat := {tro.num(sl.slice.lower)}\n"
                f"def poly_init_pad (shift : Nat) : Nat × Nat := ({elem}, {cnt})")
    api.emit("poly_init", poly_init)

    def enum_loop(lp, over):
        if not (isinstance(lp, ast.For) and not lp.orelse and isinstance(lp.target, ast.Tuple) and len(lp.target.elts) == 2
                and all(isinstance(e, ast.Name) for e in lp.target.elts)
                and isinstance(lp.iter, ast.Call) and ast.unparse(lp.iter.func) == "enumerate" and len(lp.iter.args) == 1
                and not lp.iter.keywords and ast.unparse(lp.iter.args[0]) == over):
            raise Untranslatable(f"not `for i, x in enumerate({over})`")
        return lp.target.elts[0].id, lp.target.elts[1].id

    def gexp_call(node):
        """the unique `gexp(e)` call below node"""
        calls = [n for n in ast.walk(node) if isinstance(n, ast.Call) and ast.unparse(n.func) == "gexp"]
        if len(calls) != 1 or len(calls[0].args) != 1:
            raise Untranslatable("expected exactly one gexp(…) call")
        return calls[0]

    def glog_args(node):
        """arguments of the glog(…) calls below node, in evaluation order"""
        class V(ast.NodeVisitor):
            def __init__(self):
                self.seq = []

            def visit_Call(self, n):
                self.generic_visit(n)
                if ast.unparse(n.func) == "glog":
                    self.seq.append(ast.unparse(n.args[0]) if len(n.args) == 1 else "?")
        v = V()
        v.visit(node)
        return v.seq

    def poly_mul():
        fn = find_func(base, "Polynomial.__mul__")
        params = [a.arg for a in fn.args.args]
        if len(params) != 2:
            raise Untranslatable("signature")
        me, other = params
        body = strip_doc(fn.body)
        if len(body) != 3:
            raise Untranslatable(f"{len(body)} statements (expected allocation, double loop, return)")
        alloc, outer, ret = body
        if not (isinstance(alloc, ast.Assign) and len(alloc.targets) == 1 and isinstance(alloc.targets[0], ast.Name)):
            raise Untranslatable("allocation")
        num = alloc.targets[0].id
        tra = TrM({}, subs={f"len({me})": "ls", f"len({other})": "lo"})
        elem, cnt = repeat_list(alloc.value, tra, True)
        i, item = enum_loop(outer, me)
        if len(outer.body) != 1:
            raise Untranslatable("outer loop body")
        j, oitem = enum_loop(outer.body[0], other)
        if len({i, item, j, oitem}) != 4 or len(outer.body[0].body) != 1:
            raise Untranslatable("inner loop")
        upd = outer.body[0].body[0]
        if not (isinstance(upd, ast.AugAssign) and isinstance(upd.target, ast.Subscript) and ast.unparse(upd.target.value) == num
                and not isinstance(upd.target.slice, ast.Slice)):
            raise Untranslatable(f"update is not `{num}[…] op= …`")
        tri = TrM({i: "i", j: "j"})
        g = gexp_call(upd.value)
        gl = glog_args(g)
        if sorted(gl) != sorted([item, oitem]) or len(gl) != 2:
            raise Untranslatable("glog arguments " + str(gl))
        tre = TrM({}, subs={f"glog({gl[0]})": "l0", f"glog({gl[1]})": "l1"})
        tru = TrM({}, subs={ast.unparse(upd.target): "old", ast.unparse(g): "e"})
        new = ast.BinOp(left=upd.target, op=upd.op, right=upd.value)
        if not isinstance(ret, ast.Return):
            raise Untranslatable("return")
        return (f"def poly_mul_alloc_elem : Nat := {elem}\n"
                f"def poly_mul_alloc_len (ls lo : Nat) : Int := {cnt}\n"
                f"def poly_mul_index (i j : Nat) : Nat := {tri.num(upd.target.slice)}\n"
                f"def poly_mul_glog_args : List String := [{', '.join(json.dumps('self' if x == item else 'other') for x in gl)}]\n"
                f"def poly_mul_exponent (l0 l1 : Nat) : Int := {tre.int(g.args[0])}\n"
                f"def poly_mul_update (old e : Nat) : Nat := {tru.num(new)}\n"
                f"def poly_mul_result_shift : Nat := {poly_ctor(ret.value, num, TrM({}))}")
    api.emit("poly_mul", poly_mul)

    def poly_mod():
        fn = find_func(base, "Polynomial.__mod__")
        params = [a.arg for a in fn.args.args]
        if len(params) != 2:
            raise Untranslatable("signature")
        me, other = params
        body = strip_doc(fn.body)
        if len(body) != 6:
            raise Untranslatable(f"{len(body)} statements (expected difference, early return, ratio, comprehension, tail, recursion)")
        dif, early, rat, comp, tail, rec = body
        if not (isinstance(dif, ast.Assign) and len(dif.targets) == 1 and isinstance(dif.targets[0], ast.Name)):
            raise Untranslatable("difference")
        dn = dif.targets[0].id
        trd = TrM({}, subs={f"len({me})": "ls", f"len({other})": "lo"})
        if not (isinstance(early, ast.If) and not early.orelse and len(early.body) == 1 and isinstance(early.body[0], ast.Return)
                and ast.unparse(early.body[0].value) == me and isinstance(early.test, ast.BoolOp) and isinstance(early.test.op, ast.Or)
                and len(early.test.values) == 2):
            raise Untranslatable(f"early return is not `if a or b: return {me}`")
        first, second = early.test.values
        if any(isinstance(n, ast.Subscript) for n in ast.walk(first)):
            raise Untranslatable("first disjunct reads an element")
        tr1 = TrM({}, ints={dn: "difference"})
        tr2 = TrM({}, subs={f"{me}[0]": "self0"}, ints={dn: "difference"})
        if not (isinstance(rat, ast.Assign) and len(rat.targets) == 1 and isinstance(rat.targets[0], ast.Name)):
            raise Untranslatable("ratio")
        rn = rat.targets[0].id
        gl = glog_args(rat.value)
        if gl != [f"{me}[0]", f"{other}[0]"]:
            raise Untranslatable("ratio reads glog of " + str(gl))
        trr = TrM({}, subs={f"glog({me}[0])": "ls0", f"glog({other}[0])": "lo0"})
        if not (isinstance(comp, ast.Assign) and len(comp.targets) == 1 and isinstance(comp.targets[0], ast.Name)
                and isinstance(comp.value, ast.ListComp) and len(comp.value.generators) == 1):
            raise Untranslatable("comprehension")
        num = comp.targets[0].id
        gen = comp.value.generators[0]
        if not (not gen.ifs and isinstance(gen.target, ast.Tuple) and len(gen.target.elts) == 2
                and all(isinstance(e, ast.Name) for e in gen.target.elts) and ast.unparse(gen.iter) == f"zip({me}, {other})"):
            raise Untranslatable(f"generator is not `for a, b in zip({me}, {other})`")
        item, oitem = (e.id for e in gen.target.elts)
        g = gexp_call(comp.value.elt)
        if glog_args(g) != [oitem]:
            raise Untranslatable("exponent reads glog of " + str(glog_args(g)))
        tre = TrM({}, subs={f"glog({oitem})": "lo"}, ints={rn: "ratio"})
        trc = TrM({item: "item"}, subs={ast.unparse(g): "e"})
        if not (isinstance(tail, ast.If) and not tail.orelse and len(tail.body) == 1 and isinstance(tail.body[0], ast.Expr)
                and isinstance(tail.body[0].value, ast.Call) and ast.unparse(tail.body[0].value.func) == num + ".extend"
                and len(tail.body[0].value.args) == 1):
            raise Untranslatable("tail")
        ts = tail.body[0].value.args[0]
        if not (isinstance(ts, ast.Subscript) and ast.unparse(ts.value) == me and isinstance(ts.slice, ast.Slice)
                and ts.slice.lower is not None and ts.slice.upper is None and ts.slice.step is None):
            raise Untranslatable(f"tail is not `{me}[lower:]`")
        if not (isinstance(rec, ast.Return) and isinstance(rec.value, ast.BinOp) and isinstance(rec.value.op, ast.Mod)
                and ast.unparse(rec.value.right) == other):
            raise Untranslatable(f"recursion is not `Polynomial(…) % {other}`")
        return (f"def poly_mod_difference (ls lo : Nat) : Int := {trd.int(dif.value)}\n"
                f"def poly_mod_done_0 (difference : Int) : Bool := {tr1.boolean(first)}\n"
                f"def poly_mod_done_1 (difference : Int) (self0 : Nat) : Bool := {tr2.boolean(second)}\n"
                f"def poly_mod_ratio (ls0 lo0 : Nat) : Int := {trr.int(rat.value)}\n"
                f"def poly_mod_exponent (lo : Nat) (ratio : Int) : Int := {tre.int(g.args[0])}\n"
                f"def poly_mod_elt (item e : Nat) : Nat := {trc.num(comp.value.elt)}\n"
                f"def poly_mod_tail_test (difference : Int) : Bool := {tr1.boolean(tail.test)}\n"
                f"def poly_mod_tail_lower (difference : Int) : Int := {tr1.int(ts.slice.lower)}\n"
                f"def poly_mod_rec_shift : Nat := {poly_ctor(rec.value.left, num, TrM({}))}")
    api.emit("poly_mod", poly_mod)

    # =====================================================================================================================
    # A5  util.length_in_bits / _data_count / BIT_LIMIT_TABLE / QRData.__len__ / create_bytes
    # =====================================================================================================================
    MODES = ["MODE_NUMBER", "MODE_ALPHA_NUM", "MODE_8BIT_BYTE", "MODE_KANJI"]

    def mode_consts():
        tr = TrM({})
        return "\n".join(f"def const_{c} : Nat := {module_const(util, c, tr)}" for c in MODES)
    api.emit("mode_consts", mode_consts)

    def length_in_bits():
        fn = find_func(util, "length_in_bits")
        params = [a.arg for a in fn.args.args]
        if len(params) != 2:
            raise Untranslatable("signature")
        mode, version = params
        body = strip_doc(fn.body)
        if not (len(body) == 3 and isinstance(body[0], ast.If) and not body[0].orelse and len(body[0].body) == 1
                and isinstance(body[0].body[0], ast.Raise) and isinstance(body[1], ast.Expr) and isinstance(body[1].value, ast.Call)
                and isinstance(body[2], ast.Return)):
            raise Untranslatable("body is not `if c: raise` ; call ; return")
        env = {mode: "mode"}
        env.update({c: "const_" + c for c in MODES})
        tr = TrM(env)
        r = body[2].value
        if not (isinstance(r, ast.Subscript) and isinstance(r.value, ast.Call) and not isinstance(r.slice, ast.Slice)):
            raise Untranslatable("return is not `f(…)[key]`")
        return (f"def length_in_bits_bad_mode (mode : Nat) : Bool := {tr.boolean(body[0].test)}\n"
                f"def length_in_bits_exception : String := {json.dumps(raise_name(body[0].body[0]))}\n"
                f"def length_in_bits_check : String := {json.dumps(ast.unparse(body[1].value))}\n"
                f"def length_in_bits_table : String := {json.dumps(ast.unparse(r.value))}\n"
                f"def length_in_bits_key (mode : Nat) : Nat := {tr.num(r.slice)}")
    api.emit("length_in_bits", length_in_bits)

    def data_count():
        fn = find_func(util, "_data_count")
        if len(fn.args.args) != 1:
            raise Untranslatable("signature")
        b = fn.args.args[0].arg
        body = strip_doc(fn.body)
        if not (len(body) == 1 and isinstance(body[0], ast.Return)):
            raise Untranslatable("body is not a single return")
        fields = class_fields(base, "RSBlock")
        tr = TrM({f"{b}.{f}": f for f in fields})
        return f"def data_count_proj ({' '.join(fields)} : Nat) : Nat := {tr.num(body[0].value)}"
    api.emit("_data_count", data_count)

    def bit_limit_table():
        hits = [s for s in util.body if isinstance(s, ast.Assign) and len(s.targets) == 1
                and isinstance(s.targets[0], ast.Name) and s.targets[0].id == "BIT_LIMIT_TABLE"]
        if len(hits) != 1:
            raise Untranslatable("assignment of BIT_LIMIT_TABLE")
        oc = hits[0].value
        if not (isinstance(oc, ast.ListComp) and len(oc.generators) == 1 and not oc.generators[0].ifs
                and isinstance(oc.generators[0].target, ast.Name) and is_range(oc.generators[0].iter, (1, 2))):
            raise Untranslatable("outer comprehension")
        ec = oc.generators[0].target.id
        row = oc.elt
        if not (isinstance(row, ast.BinOp) and isinstance(row.op, ast.Add) and isinstance(row.left, ast.List)
                and isinstance(row.right, ast.ListComp) and len(row.right.generators) == 1 and not row.right.generators[0].ifs
                and isinstance(row.right.generators[0].target, ast.Name) and is_range(row.right.generators[0].iter, (1, 2))):
            raise Untranslatable("row is not `[…] + [… for v in range(…)]`")
        v = row.right.generators[0].target.id
        tr0 = TrM({})
        sums = [n for n in ast.walk(row.right.elt) if isinstance(n, ast.Call) and ast.unparse(n.func) == "sum"]
        if len(sums) != 1 or len(sums[0].args) != 1:
            raise Untranslatable("expected one sum(…)")
        arg = sums[0].args[0]
        if not (isinstance(arg, ast.Call) and ast.unparse(arg.func) == "map" and len(arg.args) == 2
                and isinstance(arg.args[1], ast.Call) and len(arg.args[1].args) == 2):
            raise Untranslatable("sum argument is not map(f, g(a, b))")
        inner = arg.args[1]
        names = [ast.unparse(a) for a in inner.args]
        if sorted(names) != sorted([v, ec]):
            raise Untranslatable("arguments of the block function: " + str(names))
        tre = TrM({}, subs={ast.unparse(sums[0]): "s"})

        def rng(node):
            a = [tr0.num(x) for x in node.args]
            return f"({a[0]}, {a[1]})" if len(a) == 2 else f"(0, {a[0]})"
        return (f"def bit_limit_head : List Nat := [{', '.join(tr0.num(e) for e in row.left.elts)}]\n"
                f"def bit_limit_entry (s : Nat) : Nat := {tre.num(row.right.elt)}\n"
                f"def bit_limit_summand : String := {json.dumps(ast.unparse(arg.args[0]))}\n"
                f"def bit_limit_blocks : String × List String := ({json.dumps(ast.unparse(inner.func))}, "
                f"[{', '.join(json.dumps('version' if n == v else 'level') for n in names)}])\n"
                f"def bit_limit_version_range : Nat × Nat := {rng(row.right.generators[0].iter)}\n"
                f"def bit_limit_level_range : Nat × Nat := {rng(oc.generators[0].iter)}")
    api.emit("bit_limit_table", bit_limit_table)

    def qrdata_len():
        fn = find_func(util, "QRData.__len__")
        body = strip_doc(fn.body)
        if not (len(body) == 1 and isinstance(body[0], ast.Return)):
            raise Untranslatable("body is not a single return")
        tr = TrM({}, subs={"len(self.data)": "dataLen"})
        return f"def qrdata_len (dataLen : Nat) : Nat := {tr.num(body[0].value)}"
    api.emit("qrdata_len", qrdata_len)

    def create_bytes():
        fn = find_func(util, "create_bytes")
        params = [a.arg for a in fn.args.args]
        if len(params) != 2:
            raise Untranslatable("signature")
        buffer, blocks = params
        body = strip_doc(fn.body)
        if len(body) != 10:
            raise Untranslatable(f"{len(body)} top-level statements (expected 10)")

        def named(s, name=None):
            """`name = e` / `name: T = e` -> (name, e)"""
            if isinstance(s, ast.Assign) and len(s.targets) == 1 and isinstance(s.targets[0], ast.Name):
                n, v = s.targets[0].id, s.value
            elif isinstance(s, ast.AnnAssign) and isinstance(s.target, ast.Name) and s.value is not None:
                n, v = s.target.id, s.value
            else:
                raise Untranslatable("assignment expected: " + ast.unparse(s)[:40])
            if name is not None and n != name:
                raise Untranslatable(f"assignment of {name} expected, found {n}")
            return n, v

        def empty_list(s):
            n, v = named(s)
            if ast.unparse(v) != "[]":
                raise Untranslatable(n + " is not initialised with []")
            return n
        tr0 = TrM({})
        off, off0 = named(body[0])
        mdc, mdc0 = named(body[1])
        mec, mec0 = named(body[2])
        dcdata, ecdata = empty_list(body[3]), empty_list(body[4])
        lp = body[5]
        if not (isinstance(lp, ast.For) and isinstance(lp.target, ast.Name) and not lp.orelse and ast.unparse(lp.iter) == blocks):
            raise Untranslatable(f"main loop is not `for b in {blocks}`")
        blk = lp.target.id
        b = lp.body
        if len(b) != 14:
            raise Untranslatable(f"{len(b)} statements in the main loop (expected 14)")
        fields = class_fields(base, "RSBlock")
        fenv = {f"{blk}.{f}": f for f in fields}
        fb = f"({' '.join(fields)} : Nat)"
        dcn, dcv = named(b[0])
        ecn, ecv = named(b[1])
        tr_dc = TrM(fenv)
        tr_ec = TrM(dict(fenv, **{dcn: dcn}))
        _, mdcv = named(b[2], mdc)
        _, mecv = named(b[3], mec)
        tr_mdc = TrM({mdc: mdc, dcn: dcn})
        tr_mec = TrM({}, ints={mec: mec, ecn: ecn})
        cur_dc, comp = named(b[4])
        if not (isinstance(comp, ast.ListComp) and len(comp.generators) == 1 and not comp.generators[0].ifs
                and isinstance(comp.generators[0].target, ast.Name) and is_range(comp.generators[0].iter, (1, 2))):
            raise Untranslatable("current_dc comprehension")
        ci = comp.generators[0].target.id
        reads = [n for n in ast.walk(comp.elt) if isinstance(n, ast.Subscript)]
        if len(reads) != 1 or ast.unparse(reads[0].value) != f"{buffer}.buffer" or isinstance(reads[0].slice, ast.Slice):
            raise Untranslatable(f"comprehension does not read {buffer}.buffer[…] exactly once")
        tr_rng = TrM({dcn: dcn})

        def rng(node, tr, signed=False):
            a = [(tr.int(x) if signed else tr.num(x)) for x in node.args]
            z = "(0 : Int)" if signed else "0"
            return f"({a[0]}, {a[1]})" if len(a) == 2 else f"({z}, {a[0]})"
        tr_ix = TrM({ci: "i", off: off})
        tr_elt = TrM({}, subs={ast.unparse(reads[0]): "b"})
        if not (isinstance(b[5], ast.AugAssign) and isinstance(b[5].target, ast.Name) and b[5].target.id == off):
            raise Untranslatable("offset update")
        tr_off = TrM({off: off, dcn: dcn})
        lut = b[6]
        if not (isinstance(lut, ast.If) and len(lut.body) == 1 and len(lut.orelse) == 2 and isinstance(lut.orelse[1], ast.For)
                and is_range(lut.orelse[1].iter, (1, 2)) and len(lut.orelse[1].body) == 1):
            raise Untranslatable("generator polynomial selection")
        rsn, lutv = named(lut.body[0])
        _, fb0 = named(lut.orelse[0], rsn)
        _, fbstep = named(lut.orelse[1].body[0], rsn)
        tr_e = TrM({}, ints={ecn: ecn})
        rawn, rawv = named(b[7])
        if not (isinstance(rawv, ast.Call) and ast.unparse(rawv.func).endswith("Polynomial") and len(rawv.args) == 2
                and ast.unparse(rawv.args[0]) == cur_dc):
            raise Untranslatable(f"rawPoly is not Polynomial({cur_dc}, shift)")
        tr_raw = TrM({}, subs={f"len({rsn})": "lenRs"})
        modn, modv = named(b[8])
        if ast.unparse(modv) != f"{rawn} % {rsn}":
            raise Untranslatable(f"modPoly is not `{rawn} % {rsn}`")
        cur_ec = empty_list(b[9])
        mon, mov = named(b[10])
        tr_mo = TrM({}, subs={f"len({modn})": "lenMod"}, ints={ecn: ecn})
        el = b[11]
        if not (isinstance(el, ast.For) and isinstance(el.target, ast.Name) and not el.orelse and is_range(el.iter, (1, 2))
                and len(el.body) == 2):
            raise Untranslatable("current_ec loop")
        ei = el.target.id
        min_, miv = named(el.body[0])
        tr_mi = TrM({ei: "i"}, ints={mon: mon})
        app = el.body[1]
        if not (isinstance(app, ast.Expr) and isinstance(app.value, ast.Call) and ast.unparse(app.value.func) == cur_ec + ".append"
                and len(app.value.args) == 1 and isinstance(app.value.args[0], ast.IfExp)):
            raise Untranslatable("current_ec.append(a if c else b)")
        ife = app.value.args[0]
        tr_g = TrM({}, ints={min_: min_})
        for k, (lst, cur) in ((12, (dcdata, cur_dc)), (13, (ecdata, cur_ec))):
            if ast.unparse(b[k]) != f"{lst}.append({cur})":
                raise Untranslatable(f"`{lst}.append({cur})` expected")
        data = empty_list(body[6])

        def interleave(lp, mx, lst, signed):
            if not (isinstance(lp, ast.For) and isinstance(lp.target, ast.Name) and not lp.orelse and is_range(lp.iter, (1, 2))
                    and len(lp.body) == 1):
                raise Untranslatable("interleaving loop")
            i = lp.target.id
            inner = lp.body[0]
            if not (isinstance(inner, ast.For) and isinstance(inner.target, ast.Name) and not inner.orelse
                    and ast.unparse(inner.iter) == lst and len(inner.body) == 1):
                raise Untranslatable(f"inner loop is not `for x in {lst}`")
            x = inner.target.id
            test = inner.body[0]
            if not (isinstance(test, ast.If) and not test.orelse and len(test.body) == 1
                    and ast.unparse(test.body[0]) == f"{data}.append({x}[{i}])"):
                raise Untranslatable(f"guarded `{data}.append({x}[{i}])` expected")
            trr = TrM({mx: mx}) if not signed else TrM({}, ints={mx: mx})
            trg = TrM({i: "i"}, subs={f"len({x})": "len"})
            return rng(lp.iter, trr, signed), trg.boolean(test.test)
        r1, g1 = interleave(body[7], mdc, dcdata, False)
        r2, g2 = interleave(body[8], mec, ecdata, True)
        if not (isinstance(body[9], ast.Return) and ast.unparse(body[9].value) == data):
            raise Untranslatable("does not return " + data)
        return "\n".join([
            f"def cb_offset0 : Nat := {tr0.num(off0)}",
            f"def cb_max_dc0 : Nat := {tr0.num(mdc0)}",
            f"def cb_max_ec0 : Int := {tr0.int(mec0)}",
            f"def cb_dc_count {fb} : Nat := {tr_dc.num(dcv)}",
            f"def cb_ec_count {fb} ({dcn} : Nat) : Int := {tr_ec.int(ecv)}",
            f"def cb_max_dc ({mdc} {dcn} : Nat) : Nat := {tr_mdc.num(mdcv)}",
            f"def cb_max_ec ({mec} {ecn} : Int) : Int := {tr_mec.int(mecv)}",
            f"def cb_dc_range ({dcn} : Nat) : Nat × Nat := {rng(comp.generators[0].iter, tr_rng)}",
            f"def cb_dc_index (i {off} : Nat) : Nat := {tr_ix.num(reads[0].slice)}",
            f"def cb_dc_elt (b : Nat) : Nat := {tr_elt.num(comp.elt)}",
            f"def cb_offset_step ({off} {dcn} : Nat) : Nat := {tr_off.num(assign_value(b[5]))}",
            f"def cb_lut : String × String := ({json.dumps(ast.unparse(lut.test))}, {json.dumps(ast.unparse(lutv))})",
            f"def cb_fallback : String × String := ({json.dumps(ast.unparse(fb0))}, {json.dumps(ast.unparse(fbstep))})",
            f"def cb_fallback_range ({ecn} : Int) : Int × Int := {rng(lut.orelse[1].iter, tr_e, True)}",
            f"def cb_raw_shift (lenRs : Nat) : Int := {tr_raw.int(rawv.args[1])}",
            f"def cb_mod_offset (lenMod : Nat) ({ecn} : Int) : Int := {tr_mo.int(mov)}",
            f"def cb_ec_range ({ecn} : Int) : Int × Int := {rng(el.iter, tr_e, True)}",
            f"def cb_mod_index (i : Nat) ({mon} : Int) : Int := {tr_mi.int(miv)}",
            f"def cb_ec_guard ({min_} : Int) : Bool := {tr_g.boolean(ife.test)}",
            f"def cb_ec_then : String := {json.dumps(ast.unparse(ife.body))}",
            f"def cb_ec_else : Nat := {tr0.num(ife.orelse)}",
            f"def cb_il_dc_range ({mdc} : Nat) : Nat × Nat := {r1}",
            f"def cb_il_dc_guard (i len : Nat) : Bool := {g1}",
            f"def cb_il_ec_range ({mec} : Int) : Int × Int := {r2}",
            f"def cb_il_ec_guard (i len : Nat) : Bool := {g2}",
        ])
    api.emit("create_bytes", create_bytes)
