"""T2 fragments, package D4: who draws what, where, in which order (all generated names start with `rd_`).

  qrcode/main.py                         QRCode.make_image: the factory call and the drawing loop / process() tail
  qrcode/image/base.py                   BaseImage.drawrect_context / process / get_image / check_kind,
                                         BaseImageWithDrawer.__init__ / get_drawer / init_new_image / drawrect_context
  qrcode/image/pil.py                    PilImage.drawrect, PilImage.save
  qrcode/image/svg.py                    SvgImage._svg (statement order), SvgPathImage.__init__ / process, QR_PATH_STYLE,
                                         SvgFragmentImage.to_string / new_image
  qrcode/image/styles/moduledrawers/svg.py   SvgQRModuleDrawer.drawrect, SvgPathQRModuleDrawer.drawrect

Every function is translated statement by statement by one small compiler (`Block` below): a statement list becomes a chain of
`let`s over the variables it assigns; an object that is mutated (`self`, `self.img`, `im`, `self._idr`) is a value that is
threaded through (`im.drawrect(r, c)` -> `let im := drawrect r c im`); `if` without an exit merges the variables assigned in
its branches; `if c: return` / `raise` is an early exit; `for v in range(n)` is a `foldl` over `List.range n`.  Expressions are
translated from the AST with an explicit environment (Python name or dotted path -> Lean term); a callee that is not in the
fragment's table of known calls, a keyword that is not expected, or a statement kind that is not handled raises Untranslatable.
What cannot be a term (callee names, keyword names, exception classes) is emitted as string literals.
"""
import ast

PRELUDE = '''/-- a pixel box `((x0, y0), (x1, y1))` as returned by `pixel_box` -/
abbrev rd_Box := (Nat × Nat) × (Nat × Nat)
/-- `ET.Element(tag, **attrs)` (attributes in the order given) -/
structure rd_Element where
  tag : String
  attrs : List (String × String)
  deriving DecidableEq, Repr
/-- the parts of an SVG image object the drawing code touches: the children appended to `self._img` (in order), the list
    `self._subpaths`, the attribute `self.path` -/
structure rd_SvgImg where
  img : List rd_Element
  subpaths : List String
  path : Option rd_Element
  deriving DecidableEq, Repr
/-- `sep.join(parts)` -/
def rd_py_join (sep : String) (parts : List String) : String := sep.intercalate parts
/-- `d.pop(key, default)` on a dict given as an association list: (value, remaining dict) -/
def rd_py_pop {α : Type} (d : List (String × α)) (key : String) (default : α) : α × List (String × α) :=
  ((d.lookup key).getD default, d.filter fun p => p.1 != key)
/-- `x in t` for a tuple of str that may be None (only evaluated where it is not) -/
def rd_py_in (x : Option String) (t : Option (List String)) : Bool :=
  match x with
  | some s => (t.getD []).contains s
  | none => false
/-- truth value of an optional tuple: None and () are false -/
def rd_py_truthy_tuple (t : Option (List String)) : Bool := !(t.getD []).isEmpty
/-- `a or b` where `a` is None or an object that is always true -/
def rd_py_or {α : Type} (a : Option α) (b : α) : α := a.getD b
/-- `x.append(e)` where `e` is an attribute that may still be None (`ET.Element.append(None)` raises TypeError: nothing appended) -/
def rd_py_append_opt {α : Type} (l : List α) (e : Option α) : List α := l ++ e.toList
/-- a drawer argument of an image factory: None, an alias (str), or a drawer object -/
inductive rd_DrawerArg (D : Type) where
  | none
  | str (s : String)
  | obj (d : D)'''


def lean_str(s):
    out = []
    for ch in s:
        o = ord(ch)
        if ch == '"':
            out.append('\\"')
        elif ch == "\\":
            out.append("\\\\")
        elif ch == "\n":
            out.append("\\n")
        elif o < 0x20 or o == 0x7F:
            out.append("\\x%02x" % o)
        elif o > 0x7E:
            out.append("\\u{%x}" % o)
        else:
            out.append(ch)
    return '"' + "".join(out) + '"'


def fragments(api):
    U = api.Untranslatable
    find_func, strip_doc = api.find_func, api.strip_doc
    main = api.trees["main"]
    ibase = api.trees["image_base"]

    def need(cond, why):
        if not cond:
            raise U(why)

    def unp(node):
        return ast.unparse(node)

    def strs(items):
        return "[" + ", ".join(lean_str(x) for x in items) + "]"

    def pairs(items):
        return "[" + ", ".join(f"({lean_str(a)}, {lean_str(b)})" for a, b in items) + "]"

    def signature(fn, names, vararg=None, kwarg=None, kwonly=(), defaults=None):
        need([a.arg for a in fn.args.args] == list(names), f"{fn.name}: parameters {[a.arg for a in fn.args.args]}")
        need((fn.args.vararg.arg if fn.args.vararg else None) == vararg, f"{fn.name}: *args")
        need((fn.args.kwarg.arg if fn.args.kwarg else None) == kwarg, f"{fn.name}: **kwargs")
        need([a.arg for a in fn.args.kwonlyargs] == list(kwonly), f"{fn.name}: keyword-only parameters")
        if defaults is not None:
            need([unp(d) for d in fn.args.defaults] == list(defaults), f"{fn.name}: defaults {[unp(d) for d in fn.args.defaults]}")
        need(not fn.decorator_list, f"{fn.name}: decorated")

    # ------------------------------------------------------------------------------------------------------------------
    # the statement compiler
    class Block:
        """env: Python expression text -> Lean term (values);  truth: Python expression text -> Lean Bool term (truth value);
        calls: callee text -> handler(call node, block) -> Lean term;  grids: names subscripted as X[i][j] (Bool matrices);
        stmt_calls: callee text -> handler(call node, block) -> (assigned Lean variable, Lean term) for expression statements;
        attrs: (object text, attribute) -> (Lean variable of the object, Lean field) for attribute stores / loads"""

        def __init__(self, env, truth=None, calls=None, stmt_calls=None, grids=None, attrs=None, ret=None, exc=False, opt_or=False):
            self.env, self.truth, self.calls = dict(env), dict(truth or {}), dict(calls or {})
            self.stmt_calls, self.grids, self.attrs = dict(stmt_calls or {}), dict(grids or {}), dict(attrs or {})
            self.ret = ret                # how a returned value is wrapped: function Lean term -> Lean term
            self.exc = exc                # True: the function may raise; results are `Except String _`
            self.opt_or = opt_or

        # ---- expressions
        def args(self, call, n, kw=()):
            need(len(call.args) == n and not any(isinstance(a, ast.Starred) for a in call.args),
                 f"{unp(call.func)}: expected {n} positional arguments")
            need([k.arg for k in call.keywords] == list(kw), f"{unp(call.func)}: keywords {[k.arg for k in call.keywords]}, expected {list(kw)}")
            return [self.ex(a) for a in call.args] + [self.ex(k.value) for k in call.keywords]

        def ex(self, node):
            key = unp(node)
            if key in self.env:
                return self.env[key]
            if isinstance(node, ast.Constant):
                v = node.value
                if v is None:
                    return "none"
                if isinstance(v, bool):
                    return "true" if v else "false"
                if isinstance(v, str):
                    return lean_str(v)
                if isinstance(v, int) and v >= 0:
                    return str(v)
                raise U("constant " + repr(v))
            if isinstance(node, ast.List) and not node.elts:
                return "[]"
            if isinstance(node, ast.Attribute) and (unp(node.value), node.attr) in self.attrs:
                var, field = self.attrs[(unp(node.value), node.attr)]
                return f"{var}.{field}"
            if isinstance(node, ast.Call):
                f = unp(node.func)
                if f == "bool" and len(node.args) == 1 and not node.keywords and "bool" not in self.env:
                    return self.bo(node.args[0])
                if f in self.calls:
                    return self.calls[f](node, self)
                raise U("call of " + f)
            if isinstance(node, ast.IfExp):
                return f"(if {self.bo(node.test)} then {self.ex(node.body)} else {self.ex(node.orelse)})"
            if isinstance(node, ast.Subscript) and isinstance(node.value, ast.Subscript) and unp(node.value.value) in self.grids:
                g = self.grids[unp(node.value.value)]
                return f"(({g}.getD {self.ex(node.value.slice)} []).getD {self.ex(node.slice)} false)"
            if isinstance(node, ast.BoolOp) and isinstance(node.op, ast.Or) and len(node.values) == 2 and self.opt_or:
                return f"(rd_py_or {self.ex(node.values[0])} {self.ex(node.values[1])})"
            if isinstance(node, (ast.BoolOp, ast.Compare)) or (isinstance(node, ast.UnaryOp) and isinstance(node.op, ast.Not)):
                return self.bo(node)          # a truth value stored in a variable
            raise U("expression " + key[:60])

        def bo(self, node):
            key = unp(node)
            if key in self.truth:
                return self.truth[key]
            if isinstance(node, ast.UnaryOp) and isinstance(node.op, ast.Not):
                return f"(!{self.bo(node.operand)})"
            if isinstance(node, ast.BoolOp):
                return "(" + (" && " if isinstance(node.op, ast.And) else " || ").join(self.bo(v) for v in node.values) + ")"
            if isinstance(node, ast.Compare) and len(node.ops) == 1:
                op, right = node.ops[0], node.comparators[0]
                if isinstance(op, (ast.Is, ast.IsNot)) and isinstance(right, ast.Constant) and right.value is None:
                    return f"({self.ex(node.left)}).{'isNone' if isinstance(op, ast.Is) else 'isSome'}"
                if isinstance(op, (ast.In, ast.NotIn)):
                    t = f"(rd_py_in {self.ex(node.left)} {self.ex(right)})"
                    return t if isinstance(op, ast.In) else f"(!{t})"
                raise U("comparison " + key[:60])
            if isinstance(node, ast.Subscript):
                return self.ex(node)
            if isinstance(node, ast.Call) and unp(node.func) == "bool":
                return self.ex(node)
            raise U("truth value of " + key[:60])

        # ---- statements
        def assigned(self, stmts):
            """Lean variables assigned by a statement list (in order of first assignment)"""
            res = []

            def add(v):
                if v not in res:
                    res.append(v)
            for s in stmts:
                if isinstance(s, ast.Assign):
                    need(len(s.targets) == 1, "multiple targets")
                    t = s.targets[0]
                    if isinstance(t, ast.Name):
                        add(t.id)
                    elif isinstance(t, ast.Tuple) and all(isinstance(e, ast.Name) for e in t.elts):
                        for e in t.elts:
                            add(e.id)
                    elif isinstance(t, ast.Attribute) and (unp(t.value), t.attr) in self.attrs:
                        add(self.attrs[(unp(t.value), t.attr)][0])
                    else:
                        raise U("assignment target " + unp(t))
                elif isinstance(s, ast.Expr) and isinstance(s.value, ast.Call):
                    f = unp(s.value.func)
                    need(f in self.stmt_calls, "statement call of " + f)
                    add(self.stmt_calls[f](s.value, self)[0])
                elif isinstance(s, ast.If):
                    for v in self.assigned(s.body) + self.assigned(s.orelse):
                        add(v)
                elif isinstance(s, ast.For):
                    for v in self.assigned(s.body):
                        add(v)
                elif isinstance(s, (ast.Return, ast.Raise, ast.Pass)):
                    pass
                else:
                    raise U("statement " + type(s).__name__)
            return res

        @staticmethod
        def tup(vs):
            return vs[0] if len(vs) == 1 else "(" + ", ".join(vs) + ")"

        def exits(self, stmts):
            return bool(stmts) and isinstance(stmts[-1], (ast.Return, ast.Raise))

        def result(self, node):
            need(self.ret is not None, "return in a block without a result")
            t = self.ret(self, node)
            return f"(.ok {t})" if self.exc else t

        def seq(self, stmts, final):
            """Lean term: the `let`s of `stmts`, then `final` (a Lean term over the variables), unless the block exits before"""
            if not stmts:
                need(final is not None, "falls off the end")
                return final
            s, rest = stmts[0], stmts[1:]
            if isinstance(s, ast.Pass):
                return self.seq(rest, final)
            if isinstance(s, ast.Return):
                need(not rest, "statements after return")
                return self.result(s.value)
            if isinstance(s, ast.Raise):
                need(not rest and self.exc, "raise")
                e = s.exc
                need(isinstance(e, ast.Call) and isinstance(e.func, ast.Name), "raise of " + unp(s)[:40])
                return f"(.error {lean_str(e.func.id)})"
            if isinstance(s, ast.Assign):
                need(len(s.targets) == 1, "multiple targets")
                t = s.targets[0]
                if isinstance(t, ast.Name):
                    return f"let {t.id} := {self.ex(s.value)}; " + self.seq(rest, final)
                if isinstance(t, ast.Tuple) and all(isinstance(e, ast.Name) for e in t.elts):
                    return f"let ({', '.join(e.id for e in t.elts)}) := {self.ex(s.value)}; " + self.seq(rest, final)
                if isinstance(t, ast.Attribute) and (unp(t.value), t.attr) in self.attrs:
                    var, field = self.attrs[(unp(t.value), t.attr)]
                    return f"let {var} := {{ {var} with {field} := {self.ex(s.value)} }}; " + self.seq(rest, final)
                raise U("assignment target " + unp(t))
            if isinstance(s, ast.Expr) and isinstance(s.value, ast.Call):
                f = unp(s.value.func)
                need(f in self.stmt_calls, "statement call of " + f)
                var, term = self.stmt_calls[f](s.value, self)
                return f"let {var} := {term}; " + self.seq(rest, final)
            if isinstance(s, ast.If):
                if self.exits(s.body) and not s.orelse:
                    return f"if {self.bo(s.test)} then {self.seq(s.body, None)} else ({self.seq(rest, final)})"
                need(not self.exits(s.body) and not self.exits(s.orelse), "exit inside a two-armed if")
                vs = self.assigned(s.body) + [v for v in self.assigned(s.orelse) if v not in self.assigned(s.body)]
                need(vs, "if without effect")
                t = self.tup(vs)
                return (f"let {t} := (if {self.bo(s.test)} then ({self.seq(s.body, t)}) else ({self.seq(s.orelse, t)})); "
                        + self.seq(rest, final))
            if isinstance(s, ast.For):
                need(not s.orelse and isinstance(s.target, ast.Name), "for shape")
                it = s.iter
                need(isinstance(it, ast.Call) and unp(it.func) == "range" and len(it.args) == 1 and not it.keywords, "for over " + unp(it)[:40])
                vs = self.assigned(s.body)
                need(vs and s.target.id not in vs, "loop body")
                t = self.tup(vs)
                return (f"let {t} := ((List.range {self.ex(it.args[0])}).foldl (fun {t} {s.target.id} => ({self.seq(s.body, t)})) {t}); "
                        + self.seq(rest, final))
            raise U("statement " + type(s).__name__)

        def body(self, stmts, final=None):
            return "(" + self.seq(stmts, final) + ")"

    # ---- class attributes resolved along the (single-inheritance) class hierarchy, across the image modules
    def class_table():
        trees = {"base": ibase, "pil": api.parse("qrcode/image/pil.py"), "pure": api.parse("qrcode/image/pure.py"),
                 "svg": api.parse("qrcode/image/svg.py"), "styledpil": api.parse("qrcode/image/styledpil.py")}
        classes = {}
        for t in trees.values():
            for c in t.body:
                if isinstance(c, ast.ClassDef):
                    need(c.name not in classes, "class defined twice: " + c.name)
                    classes[c.name] = c
        return classes

    def mro(classes, name):
        res = []
        while name in classes:
            res.append(name)
            bases = [unp(b).split(".")[-1] for b in classes[name].bases]
            if not bases:
                break
            need(len(bases) == 1, "multiple inheritance in " + name)
            name = bases[0]
        return res

    def class_attr(classes, name, attr):
        for k in mro(classes, name):
            for s in classes[k].body:
                tgt = s.targets[0] if isinstance(s, ast.Assign) and len(s.targets) == 1 else s.target if isinstance(s, ast.AnnAssign) else None
                if tgt is not None and isinstance(tgt, ast.Name) and tgt.id == attr and s.value is not None:
                    return s.value
        return None

    def defining_class(classes, name, method):
        for k in mro(classes, name):
            if any(isinstance(f, ast.FunctionDef) and f.name == method for f in classes[k].body):
                return k
        return ""

    IMAGE_CLASSES = ("PilImage", "PyPNGImage", "StyledPilImage", "SvgFragmentImage", "SvgImage", "SvgFillImage", "SvgPathImage",
                     "SvgPathFillImage")

    # ==================================================================================================================
    # QRCode.make_image: the factory call, the drawing loop, process()
    def make_image():
        fn = find_func(main, "QRCode.make_image")      # the last definition (the overloads come first)
        defs = [n for n in find_func(main, "QRCode").body if isinstance(n, ast.FunctionDef) and n.name == "make_image"]
        need(defs, "no make_image")
        fn = defs[-1]
        need([a.arg for a in fn.args.args] == ["self", "image_factory"] and fn.args.kwarg is not None and fn.args.kwarg.arg == "kwargs",
             "make_image parameters")
        body = strip_doc(fn.body)
        need(len(body) == 8, f"make_image: {len(body)} statements")
        mk, draw, proc, ret = body[4:]
        need(isinstance(mk, ast.Assign) and len(mk.targets) == 1 and isinstance(mk.targets[0], ast.Name) and isinstance(mk.value, ast.Call)
             and unp(mk.value.func) == "image_factory", "factory call")
        im = mk.targets[0].id
        need(isinstance(ret, ast.Return) and unp(ret.value) == im, "make_image does not return the image")
        need(not any(isinstance(a, ast.Starred) for a in mk.value.args), "starred factory argument")
        out = [PRELUDE]
        out.append("/-- `im = image_factory(...)`: positional arguments, keyword arguments (`**` = dict unpacking) -/")
        out.append(f"def rd_make_image_factory_args : List String := {strs(unp(a) for a in mk.value.args)}")
        out.append(f"def rd_make_image_factory_kwargs : List (String × String) := {pairs((k.arg or '**', unp(k.value)) for k in mk.value.keywords)}")
        # the tail: `if im.needs_drawrect: for r ...: for c ...: ...`, `if im.needs_processing: im.process()`
        def method(name, n, kw=()):
            def h(call, b):
                a = b.args(call, n, kw)
                return im, "(" + " ".join([name] + a[:n] + [im]) + ")"
            return h

        def ctx_call(call, b):
            a = b.args(call, 2, ("qr",))
            need(a[2] == "self", "drawrect_context: qr is not self")
            return im, f"(drawrect_context {a[0]} {a[1]} {im})"
        b = Block(env={"self.modules_count": "modules_count", "self": "self"},
                  truth={im + ".needs_drawrect": "needs_drawrect", im + ".needs_context": "needs_context",
                         im + ".needs_processing": "needs_processing"},
                  grids={"self.modules": "modules"},
                  stmt_calls={im + ".drawrect_context": ctx_call, im + ".drawrect": method("drawrect", 2), im + ".process": method("process", 0)})
        # loop variables are visible to the expressions of the loop bodies
        for n in ast.walk(draw):
            if isinstance(n, ast.For) and isinstance(n.target, ast.Name):
                b.env[n.target.id] = n.target.id
        need(isinstance(draw, ast.If) and isinstance(proc, ast.If), "tail of make_image")
        term = b.body([draw, proc], im)
        out.append("/-- the tail of `make_image`: the image object `im` is threaded through the calls made on it -/")
        out.append("def rd_make_image_draw {S : Type} (needs_drawrect needs_context needs_processing : Bool) (modules_count : Nat) "
                   "(modules : List (List Bool)) (drawrect_context drawrect : Nat → Nat → S → S) (process : S → S) "
                   f"({im} : S) : S :=\n  {term}")
        return "\n".join(out)
    api.emit("rd_make_image", make_image)

    # ---- needs_drawrect / needs_context / needs_processing, kind / allowed_kinds, and which class defines the methods called
    def flags():
        classes = class_table()
        out = []
        rows, kinds, meths = [], [], []
        for k in IMAGE_CLASSES:
            need(k in classes and mro(classes, k)[-1] == "BaseImage", k + " is not a BaseImage")
            vals = []
            for a in ("needs_drawrect", "needs_context", "needs_processing"):
                v = class_attr(classes, k, a)
                need(isinstance(v, ast.Constant) and isinstance(v.value, bool), f"{k}.{a}")
                vals.append("true" if v.value else "false")
            rows.append(f"({lean_str(k)}, ({', '.join(vals)}))")
            kd, al = class_attr(classes, k, "kind"), class_attr(classes, k, "allowed_kinds")
            need(isinstance(kd, ast.Constant) and (kd.value is None or isinstance(kd.value, str)), k + ".kind")
            need((isinstance(al, ast.Constant) and al.value is None) or
                 (isinstance(al, ast.Tuple) and all(isinstance(e, ast.Constant) and isinstance(e.value, str) for e in al.elts)), k + ".allowed_kinds")
            kt = "none" if kd.value is None else f"some {lean_str(kd.value)}"
            at = "none" if isinstance(al, ast.Constant) else "some " + strs(e.value for e in al.elts)
            kinds.append(f"({lean_str(k)}, ({kt}, {at}))")
            meths.append(f"({lean_str(k)}, {strs(defining_class(classes, k, m) for m in ('drawrect', 'drawrect_context', 'process', 'init_new_image', '__init__'))})")
        out.append("/-- per image class: (needs_drawrect, needs_context, needs_processing), resolved along the class hierarchy -/")
        out.append("def rd_class_flags : List (String × (Bool × Bool × Bool)) := [" + ", ".join(rows) + "]")
        out.append("/-- per image class: (kind, allowed_kinds) -/")
        out.append("def rd_class_kinds : List (String × (Option String × Option (List String))) := [" + ", ".join(kinds) + "]")
        out.append("/-- per image class: the class whose drawrect / drawrect_context / process / init_new_image / __init__ it inherits -/")
        out.append("def rd_class_methods : List (String × List String) := [" + ", ".join(meths) + "]")
        # needs_neighbors of the SVG drawers
        dtree = api.parse("qrcode/image/styles/moduledrawers/svg.py")
        dclasses = {c.name: c for c in dtree.body if isinstance(c, ast.ClassDef)}
        btree = api.parse("qrcode/image/styles/moduledrawers/base.py")
        for c in btree.body:
            if isinstance(c, ast.ClassDef):
                dclasses[c.name] = c
        rows, meths = [], []
        for k in ("SvgSquareDrawer", "SvgCircleDrawer", "SvgPathSquareDrawer", "SvgPathCircleDrawer"):
            need(k in dclasses, "no drawer class " + k)
            chain = []
            name = k
            while name in dclasses:
                chain.append(name)
                bases = [unp(x).split(".")[-1] for x in dclasses[name].bases]
                need(len(bases) == 1, "bases of " + name)
                name = bases[0]
            need(chain[-1] == "QRModuleDrawer", k + " is not a QRModuleDrawer")
            v = None
            for c in chain:
                for s in dclasses[c].body:
                    if v is None and isinstance(s, ast.Assign) and unp(s.targets[0]) == "needs_neighbors":
                        v = s.value
            need(isinstance(v, ast.Constant) and isinstance(v.value, bool), k + ".needs_neighbors")
            rows.append(f"({lean_str(k)}, {'true' if v.value else 'false'})")
            dr = next((c for c in chain if any(isinstance(f, ast.FunctionDef) and f.name == "drawrect" for f in dclasses[c].body)), "")
            meths.append(f"({lean_str(k)}, {lean_str(dr)})")
        out.append("def rd_svg_drawer_needs_neighbors : List (String × Bool) := [" + ", ".join(rows) + "]")
        out.append("/-- per SVG drawer class: the class whose drawrect it inherits -/")
        out.append("def rd_svg_drawer_drawrect_class : List (String × String) := [" + ", ".join(meths) + "]")
        # default drawers of the SVG factories
        rows = []
        for k in ("SvgFragmentImage", "SvgImage", "SvgFillImage", "SvgPathImage", "SvgPathFillImage"):
            v = class_attr(classes, k, "default_drawer_class")
            need(v is not None, k + ".default_drawer_class")
            rows.append((k, unp(v).split(".")[-1]))
        out.append(f"def rd_svg_default_drawer : List (String × String) := {pairs(rows)}")
        for m in ("get_default_module_drawer", "get_default_eye_drawer"):
            f = find_func(ibase, "BaseImageWithDrawer." + m)
            signature(f, ["self"])
            bd = strip_doc(f.body)
            need(len(bd) == 1 and isinstance(bd[0], ast.Return), m + " shape")
            out.append(f"def rd_{m} : String := {lean_str(unp(bd[0].value))}")
        return "\n".join(out)
    api.emit("rd_flags", flags)

    # ==================================================================================================================
    # PilImage.drawrect, PilImage.save
    def pil():
        tree = api.parse("qrcode/image/pil.py")
        out = []
        fn = find_func(tree, "PilImage.drawrect")
        signature(fn, ["self", "row", "col"])
        body = strip_doc(fn.body)
        need(len(body) == 2, "PilImage.drawrect: statement count")

        def pixel_box(call, b):
            a = b.args(call, 2)
            return f"(pixel_box border boxSize {a[0]} {a[1]})"

        def rectangle(call, b):
            a = b.args(call, 1, ("fill",))
            return "idr", f"(idr ++ [({a[0]}, {a[1]})])"
        b = Block(env={"row": "row", "col": "col", "self.fill_color": "fill_color"}, calls={"self.pixel_box": pixel_box},
                  stmt_calls={"self._idr.rectangle": rectangle})
        need(isinstance(body[0], ast.Assign) and isinstance(body[0].targets[0], ast.Name), "PilImage.drawrect: first statement")
        b.env[body[0].targets[0].id] = body[0].targets[0].id
        need(isinstance(body[1], ast.Expr) and isinstance(body[1].value, ast.Call), "PilImage.drawrect: second statement")
        out.append(f"def rd_pil_drawrect_callee : String := {lean_str(unp(body[1].value.func))}")
        out.append(f"def rd_pil_drawrect_keywords : List String := {strs(k.arg or '**' for k in body[1].value.keywords)}")
        out.append("/-- `PilImage.drawrect(row, col)`: `idr` is the list of `rectangle(box, fill=...)` calls received by `self._idr` so far -/")
        out.append("def rd_pil_drawrect {Fill : Type} (border boxSize : Nat) (fill_color : Fill) (row col : Nat) (idr : List (rd_Box × Fill)) : "
                   f"List (rd_Box × Fill) :=\n  {b.body(body, 'idr')}")
        # save(self, stream, format=None, **kwargs)
        fn = find_func(tree, "PilImage.save")
        signature(fn, ["self", "stream", "format"], kwarg="kwargs", defaults=["None"])
        body = strip_doc(fn.body)
        need(len(body) == 3, "PilImage.save: statement count")

        def pop(call, b):
            a = b.args(call, 2)
            return f"(rd_py_pop kwargs {a[0]} {a[1]})"
        s0 = body[0]
        need(isinstance(s0, ast.Assign) and isinstance(s0.targets[0], ast.Name) and isinstance(s0.value, ast.Call)
             and unp(s0.value.func) == "kwargs.pop", "PilImage.save: first statement")
        kindv = s0.targets[0].id
        b = Block(env={"self.kind": "self_kind", "format": "format", kindv: "(some " + kindv + ")"}, calls={"kwargs.pop": pop})
        first = f"let ({kindv}, kwargs) := {b.ex(s0.value)}; "
        last = body[2]
        need(isinstance(last, ast.Expr) and isinstance(last.value, ast.Call) and unp(last.value.func) == "self._img.save", "PilImage.save: last statement")
        c = last.value
        need(len(c.args) == 1 and unp(c.args[0]) == "stream" and [k.arg for k in c.keywords] == ["format", None]
             and unp(c.keywords[1].value) == "kwargs", "PilImage.save: arguments of self._img.save")
        fin = f"({b.ex(c.keywords[0].value)}, kwargs)"
        mid = b.seq([body[1]], fin)
        out.append(f"def rd_pil_save_callee : String := {lean_str(unp(c.func))}")
        out.append(f"def rd_pil_save_call_shape : List String := {strs([unp(a) for a in c.args] + [(k.arg or '**') + '=' + unp(k.value) for k in c.keywords])}")
        out.append("/-- `PilImage.save(stream, format, **kwargs)`: the `format=` and the remaining keyword arguments handed to `self._img.save` -/")
        out.append("def rd_pil_save (self_kind : String) (format : Option String) (kwargs : List (String × String)) : "
                   f"Option String × List (String × String) :=\n  ({first}{mid})")
        return "\n".join(out)
    api.emit("rd_pil", pil)

    # ==================================================================================================================
    # BaseImage: drawrect_context / process (not implemented), get_image, check_kind
    def base():
        out = []
        for m, params in (("drawrect_context", ["self", "row", "col", "qr"]), ("process", ["self"])):
            fn = find_func(ibase, "BaseImage." + m)
            signature(fn, params)
            body = strip_doc(fn.body)
            need(len(body) == 1 and isinstance(body[0], ast.Raise) and isinstance(body[0].exc, ast.Call) and isinstance(body[0].exc.func, ast.Name),
                 f"BaseImage.{m} shape")
            out.append(f"/-- `BaseImage.{m}`: raises -/")
            out.append(f"def rd_base_{m}_raises : String := {lean_str(body[0].exc.func.id)}")
        fn = find_func(ibase, "BaseImage.get_image")
        signature(fn, ["self"], kwarg="kwargs")
        body = strip_doc(fn.body)
        need(len(body) == 1 and isinstance(body[0], ast.Return), "get_image shape")
        b = Block(env={"self._img": "_img"}, ret=lambda b, n: b.ex(n))
        out.append("/-- `BaseImage.get_image(**kwargs)` -/")
        out.append(f"def rd_get_image {{I K : Type}} (_img : I) (kwargs : K) : I := {b.body(body)}")
        fn = find_func(ibase, "BaseImage.init_new_image")
        signature(fn, ["self"])
        need(all(isinstance(s, ast.Pass) for s in strip_doc(fn.body)), "BaseImage.init_new_image is not empty")
        # check_kind(self, kind, transform=None)
        fn = find_func(ibase, "BaseImage.check_kind")
        signature(fn, ["self", "kind", "transform"], defaults=["None"])
        body = strip_doc(fn.body)

        def transform(call, b):
            a = b.args(call, 1)
            return f"(transform_fn {a[0]})"
        b = Block(env={"kind": "kind", "self.kind": "self_kind", "self.allowed_kinds": "allowed_kinds", "allowed": "allowed"},
                  truth={"self.allowed_kinds": "(rd_py_truthy_tuple allowed_kinds)", "allowed": "allowed", "transform": "transform"},
                  calls={"transform": transform}, ret=lambda b, n: b.ex(n), exc=True)
        need(b.assigned(body) == ["kind", "allowed"], "check_kind: variables " + str(b.assigned(body)))
        out.append("/-- `BaseImage.check_kind(kind, transform)`: `transform` = a transform was given (it is then `transform_fn`) -/")
        out.append("def rd_check_kind (self_kind : Option String) (allowed_kinds : Option (List String)) (kind : Option String) (transform : Bool) "
                   f"(transform_fn : Option String → Option String) : Except String (Option String) :=\n  {b.body(body)}")
        return "\n".join(out)
    api.emit("rd_base", base)

    # ==================================================================================================================
    # BaseImageWithDrawer.__init__ / get_drawer / init_new_image / drawrect_context
    def with_drawer():
        out = []
        fn = find_func(ibase, "BaseImageWithDrawer.get_drawer")
        signature(fn, ["self", "drawer"])
        body = strip_doc(fn.body)
        need(len(body) == 3, "get_drawer: statement count")
        t, lk, rt = body
        need(isinstance(t, ast.If) and not t.orelse and len(t.body) == 1 and isinstance(t.body[0], ast.Return), "get_drawer: first statement")
        test = t.test
        need(isinstance(test, ast.UnaryOp) and isinstance(test.op, ast.Not) and isinstance(test.operand, ast.Call)
             and unp(test.operand.func) == "isinstance" and [unp(a) for a in test.operand.args] == ["drawer", "str"] and not test.operand.keywords,
             "get_drawer: test")
        need(unp(t.body[0].value) == "drawer", "get_drawer: early return value")
        need(isinstance(lk, ast.Assign) and isinstance(lk.targets[0], ast.Tuple) and len(lk.targets[0].elts) == 2
             and isinstance(lk.value, ast.Subscript) and unp(lk.value.value) == "self.drawer_aliases" and unp(lk.value.slice) == "drawer",
             "get_drawer: lookup")
        cls, kw = (unp(e) for e in lk.targets[0].elts)
        need(isinstance(rt, ast.Return) and isinstance(rt.value, ast.Call) and unp(rt.value.func) == cls and not rt.value.args
             and len(rt.value.keywords) == 1 and rt.value.keywords[0].arg is None and unp(rt.value.keywords[0].value) == kw, "get_drawer: construction")
        out.append(f"def rd_get_drawer_table : String := {lean_str(unp(lk.value.value))}")
        out.append("/-- `get_drawer(drawer)`: not a str -> returned as is (None stays None); a str -> looked up in `self.drawer_aliases`\n"
                   "    (`aliases s` = the drawer built from the entry, `none` = KeyError) -/")
        out.append("def rd_get_drawer {D : Type} (aliases : String → Option D) : rd_DrawerArg D → Except String (Option D)\n"
                   "  | .none => .ok none\n  | .obj d => .ok (some d)\n"
                   "  | .str s => match aliases s with\n    | some d => .ok (some d)\n    | none => .error \"KeyError\"")
        # __init__(self, *args, module_drawer=None, eye_drawer=None, **kwargs)
        fn = find_func(ibase, "BaseImageWithDrawer.__init__")
        signature(fn, ["self"], vararg="args", kwarg="kwargs", kwonly=["module_drawer", "eye_drawer"])
        need([unp(d) for d in fn.args.kw_defaults] == ["None", "None"], "__init__: keyword defaults")
        body = strip_doc(fn.body)
        need(len(body) == 3, "__init__: statement count")

        def get_drawer(call, b):
            a = b.args(call, 1)
            return f"(get_drawer {a[0]})"

        def const(name):
            def h(call, b):
                b.args(call, 0)
                return name
            return h

        def super_init(call, b):
            need([unp(a) for a in call.args] == ["*args"] and [(k.arg, unp(k.value)) for k in call.keywords] == [(None, "kwargs")], "super().__init__ arguments")
            return "self", "(super_init self)"
        b = Block(env={"module_drawer": "module_drawer", "eye_drawer": "eye_drawer"},
                  calls={"self.get_drawer": get_drawer, "self.get_default_module_drawer": const("default_module_drawer"),
                         "self.get_default_eye_drawer": const("default_eye_drawer")},
                  stmt_calls={"super().__init__": super_init},
                  attrs={("self", "module_drawer"): ("self", "module_drawer"), ("self", "eye_drawer"): ("self", "eye_drawer")}, opt_or=True)
        out.append("/-- the drawer attributes of an image -/")
        out.append("structure rd_Drawers (D : Type) where\n  module_drawer : D\n  eye_drawer : D")
        out.append("/-- `BaseImageWithDrawer.__init__`: `get_drawer a` = the result of `self.get_drawer(a)` (when it does not raise) -/")
        out.append("def rd_with_drawer_init {D A : Type} (get_drawer : A → Option D) (default_module_drawer default_eye_drawer : D) "
                   "(super_init : rd_Drawers D → rd_Drawers D) (module_drawer eye_drawer : A) (self : rd_Drawers D) : rd_Drawers D :=\n  "
                   + b.body(body, "self"))
        # init_new_image
        fn = find_func(ibase, "BaseImageWithDrawer.init_new_image")
        signature(fn, ["self"])
        body = strip_doc(fn.body)
        need(len(body) == 3 and isinstance(body[2], ast.Return) and unp(body[2].value) == "super().init_new_image()", "init_new_image shape")
        calls = []
        for s in body[:2]:
            need(isinstance(s, ast.Expr) and isinstance(s.value, ast.Call) and not s.value.args and [(k.arg, unp(k.value)) for k in s.value.keywords] == [("img", "self")],
                 "init_new_image: initialize call")
            calls.append(unp(s.value.func))
        out.append(f"def rd_init_new_image_calls : List String := {strs(calls)}")
        # drawrect_context(self, row, col, qr)
        fn = find_func(ibase, "BaseImageWithDrawer.drawrect_context")
        signature(fn, ["self", "row", "col", "qr"])
        body = strip_doc(fn.body)
        need(len(body) == 4, "drawrect_context: statement count")
        # an annotated assignment is an assignment
        body = [ast.Assign(targets=[s.target], value=s.value) if isinstance(s, ast.AnnAssign) and s.value is not None else s for s in body]
        need(all(isinstance(s, ast.Assign) and isinstance(s.targets[0], ast.Name) for s in body[:3]), "drawrect_context: assignments")
        names = [s.targets[0].id for s in body[:3]]
        need(len(set(names)) == 3 and not set(names) & {"self", "row", "col", "qr"}, "drawrect_context: local names")
        dv = names[1]

        def pixel_box(call, b):
            a = b.args(call, 2)
            return f"(pixel_box border boxSize {a[0]} {a[1]})"

        def is_eye(call, b):
            a = b.args(call, 2)
            return f"(is_eye width {a[0]} {a[1]})"

        def awn(call, b):
            a = b.args(call, 2)
            return f"(active_with_neighbors {a[0]} {a[1]})"

        def drawrect(call, b):
            a = b.args(call, 2)
            return "im", f"(drawrect {dv} {a[0]} {a[1]} im)"
        b = Block(env={"row": "row", "col": "col", "self.eye_drawer": "eye_drawer", "self.module_drawer": "module_drawer"},
                  truth={dv + ".needs_neighbors": f"(needs_neighbors {dv})"},
                  calls={"self.pixel_box": pixel_box, "self.is_eye": is_eye, "qr.active_with_neighbors": awn},
                  stmt_calls={dv + ".drawrect": drawrect}, grids={"qr.modules": "modules"})
        b.truth["self.is_eye(row, col)"] = None
        del b.truth["self.is_eye(row, col)"]
        orig_bo = b.bo

        def bo(node):
            if isinstance(node, ast.Call) and unp(node.func) == "self.is_eye":
                return b.ex(node)
            return orig_bo(node)
        b.bo = bo
        # `bool(qr.modules[row][col])` is a Bool; the neighbour context is an `A`: `ofBool` embeds the former
        orig_ex = b.ex

        def ex(node):
            if isinstance(node, ast.Call) and unp(node.func) == "bool":
                return f"(ofBool {orig_ex(node)})"
            return orig_ex(node)
        b.ex = ex
        for n in names:
            b.env[n] = n
        out.append("/-- `BaseImageWithDrawer.drawrect_context(row, col, qr)`: the image `im` is threaded through `drawer.drawrect(box, is_active)`;\n"
                   "    `A` is the type of `is_active` (a bool or the neighbour context), `ofBool` embeds `bool(...)` -/")
        out.append("def rd_drawrect_context {D A S : Type} (border boxSize width : Nat) (eye_drawer module_drawer : D) (needs_neighbors : D → Bool) "
                   "(active_with_neighbors : Nat → Nat → A) (ofBool : Bool → A) (modules : List (List Bool)) (drawrect : D → rd_Box → A → S → S) "
                   f"(row col : Nat) (im : S) : S :=\n  {b.body(body, 'im')}")
        return "\n".join(out)
    api.emit("rd_with_drawer", with_drawer)

    # ==================================================================================================================
    # the SVG drawers' drawrect
    def svg_drawrect():
        tree = api.parse("qrcode/image/styles/moduledrawers/svg.py")
        out = []
        for cls, lean, field, maker, mt in (("SvgQRModuleDrawer", "rd_svg_drawrect", "_img", "self.el", "rd_Element"),
                                            ("SvgPathQRModuleDrawer", "rd_svg_path_drawrect", "_subpaths", "self.subpath", "String")):
            fn = find_func(tree, cls + ".drawrect")
            signature(fn, ["self", "box", "is_active"])
            body = strip_doc(fn.body)
            need(len(body) == 2, cls + ".drawrect: statement count")

            def make(call, b):
                a = b.args(call, 1)
                return f"(make {a[0]})"

            def append_to(f):
                def h(call, b):
                    a = b.args(call, 1)
                    return "img", f"{{ img with {f} := img.{f} ++ [{a[0]}] }}"
                return h
            b = Block(env={"box": "box"}, truth={"is_active": "(truthy is_active)"}, calls={maker: make},
                      stmt_calls={"self.img._img.append": append_to("img"), "self.img._subpaths.append": append_to("subpaths")},
                      ret=lambda b, n: (need(n is None, "drawrect returns a value"), "img")[1])
            out.append(f"/-- `{cls}.drawrect(box, is_active)`: `make` is `{maker}`, `truthy` the truth value of `is_active` -/")
            out.append(f"def {lean} {{A : Type}} (make : rd_Box → {mt}) (truthy : A → Bool) (box : rd_Box) (is_active : A) (img : rd_SvgImg) : rd_SvgImg :=\n  "
                       + b.body(body, "img"))
        # ActiveWithNeighbors.__bool__
        fn = find_func(main, "ActiveWithNeighbors.__bool__")
        bd = strip_doc(fn.body)
        need(len(bd) == 1 and isinstance(bd[0], ast.Return), "ActiveWithNeighbors.__bool__")
        out.append(f"def rd_active_with_neighbors_bool : String := {lean_str(unp(bd[0].value))}")
        return "\n".join(out)
    api.emit("rd_svg_drawrect", svg_drawrect)

    # ==================================================================================================================
    # SvgPathImage.__init__ / process, QR_PATH_STYLE; SvgImage._svg statement order; to_string / new_image
    def svg_image():
        tree = api.parse("qrcode/image/svg.py")
        classes = class_table()
        out = []
        style = class_attr(classes, "SvgPathImage", "QR_PATH_STYLE")
        need(isinstance(style, ast.Dict) and all(isinstance(k, ast.Constant) and isinstance(k.value, str) and isinstance(v, ast.Constant)
                                                  and isinstance(v.value, str) for k, v in zip(style.keys, style.values)), "QR_PATH_STYLE")
        out.append(f"def rd_QR_PATH_STYLE : List (String × String) := {pairs((k.value, v.value) for k, v in zip(style.keys, style.values))}")
        attrs = {("self", "_subpaths"): ("self", "subpaths"), ("self", "path"): ("self", "path"), ("self", "_img"): ("self", "img")}
        # __init__
        fn = find_func(tree, "SvgPathImage.__init__")
        signature(fn, ["self"], vararg="args", kwarg="kwargs")
        body = [ast.Assign(targets=[s.target], value=s.value) if isinstance(s, ast.AnnAssign) and s.value is not None else s for s in strip_doc(fn.body)]
        need(len(body) == 2, "SvgPathImage.__init__: statement count")

        def super_init(call, b):
            need([unp(a) for a in call.args] == ["*args"] and [(k.arg, unp(k.value)) for k in call.keywords] == [(None, "kwargs")], "super().__init__ arguments")
            return "self", "(super_init self)"
        b = Block(env={}, stmt_calls={"super().__init__": super_init}, attrs=attrs)
        out.append("/-- `SvgPathImage.__init__` -/")
        out.append(f"def rd_svg_path_init (super_init : rd_SvgImg → rd_SvgImg) (self : rd_SvgImg) : rd_SvgImg :=\n  {b.body(body, 'self')}")
        # process
        fn = find_func(tree, "SvgPathImage.process")
        signature(fn, ["self"])
        body = strip_doc(fn.body)
        need(len(body) == 3, "SvgPathImage.process: statement count")

        def element(call, b):
            need(len(call.args) == 1 and isinstance(call.args[0], ast.Call) and unp(call.args[0].func) == "ET.QName"
                 and len(call.args[0].args) == 1 and not call.args[0].keywords and isinstance(call.args[0].args[0], ast.Constant)
                 and isinstance(call.args[0].args[0].value, str), "path element tag")
            tag = call.args[0].args[0].value
            parts = []
            for k in call.keywords:
                if k.arg is None:
                    need(unp(k.value) == "self.QR_PATH_STYLE", "path element: ** of " + unp(k.value))
                    parts.append("rd_QR_PATH_STYLE")
                else:
                    parts.append(f"[({lean_str(k.arg)}, {b.ex(k.value)})]")
            return f"(some {{ tag := {lean_str(tag)}, attrs := {' ++ '.join(parts) if parts else '[]'} }})"

        def join(call, b):
            need(isinstance(call.func, ast.Attribute) and isinstance(call.func.value, ast.Constant) and isinstance(call.func.value.value, str), "join separator")
            a = b.args(call, 1)
            return f"(rd_py_join {lean_str(call.func.value.value)} {a[0]})"

        def append(call, b):
            need(len(call.args) == 1 and not call.keywords and unp(call.args[0]) == "self.path", "process: what is appended")
            return "self", "{ self with img := rd_py_append_opt self.img self.path }"
        b = Block(env={}, calls={"ET.Element": element}, stmt_calls={"self._img.append": append}, attrs=attrs)
        for n in ast.walk(fn):
            if isinstance(n, ast.Call) and isinstance(n.func, ast.Attribute) and n.func.attr == "join" and isinstance(n.func.value, ast.Constant):
                b.calls[unp(n.func)] = join
        out.append("/-- `SvgPathImage.process()` -/")
        out.append(f"def rd_svg_path_process (self : rd_SvgImg) : rd_SvgImg :=\n  {b.body(body, 'self')}")
        # SvgImage._svg: order of the statements (the element attributes are svg_background_* of the second plugin)
        fn = find_func(tree, "SvgImage._svg")
        signature(fn, ["self", "tag"], kwarg="kwargs", defaults=["'svg'"])
        body = strip_doc(fn.body)
        need(len(body) == 4 and isinstance(body[0], ast.Assign) and isinstance(body[1], ast.Expr) and isinstance(body[2], ast.If)
             and isinstance(body[3], ast.Return), "SvgImage._svg shape")
        sv = unp(body[0].targets[0])
        need(unp(body[3].value) == sv, "SvgImage._svg does not return the element")
        ap = body[2].body[0] if len(body[2].body) == 1 and not body[2].orelse else None
        need(ap is not None and isinstance(ap, ast.Expr) and isinstance(ap.value, ast.Call) and unp(ap.value.func) == sv + ".append", "background append")
        out.append(f"def rd_svg_image_svg_steps : List String := {strs([unp(body[0]), unp(body[1]), 'if ' + unp(body[2].test), unp(ap.value.func), 'return ' + unp(body[3].value)])}")
        out.append(f"def rd_svg_image_svg_tag_default : String := {lean_str(fn.args.defaults[0].value)}")
        # SvgPathImage._svg: passes viewBox on
        fn = find_func(tree, "SvgPathImage._svg")
        signature(fn, ["self", "viewBox"], kwarg="kwargs", defaults=["None"])
        body = strip_doc(fn.body)
        need(len(body) == 2 and isinstance(body[1], ast.Return), "SvgPathImage._svg shape")
        out.append(f"def rd_svg_path_svg_return : String := {lean_str(unp(body[1].value))}")
        # to_string / new_image
        for m, params, kw in (("to_string", ["self"], "kwargs"), ("new_image", ["self"], "kwargs")):
            fn = find_func(tree, "SvgFragmentImage." + m)
            signature(fn, params, kwarg=kw)
            body = strip_doc(fn.body)
            need(len(body) == 1 and isinstance(body[0], ast.Return), m + " shape")
            out.append(f"def rd_svg_{m}_returns : String := {lean_str(unp(body[0].value))}")
        return "\n".join(out)
    api.emit("rd_svg_image", svg_image)
