"""T2 fragments, list B: best_fit, make / makeImpl, get_matrix, print_ascii / print_tty, the PyPNG row generators and the SVG
units / coords arithmetic.

Everything is read from the Python AST.  Three small translators are defined here on top of translate.py's `Tr`:
  TrB      expressions: adds `X is None`, truthiness of named values, calls of local functions, `cast(T, x)`
  ListTr   list expressions: literals, `[e] * n`, `a + b`, `list(chain.from_iterable(... for v in it))`, `cast(T, x)`
  Writer   statement lists made of `out.write(e)`, `if`, `for v in range(...)`, `name = expr` -> the text written, as a
           Lean `List Nat` of code points
Generator functions (`yield`, `yield from self.other()`, loops) are translated to the list of yielded values.
A fragment whose statements are not of the expected shape raises Untranslatable (its definitions are then missing and the
bridging theorems no longer compile).
"""
import ast
import decimal

LEAN_KEYWORDS = {"module", "end", "from", "at", "in", "fun", "do", "then", "else", "if", "let", "have", "show", "open", "section",
                 "namespace", "local", "private", "prefix", "import", "def", "theorem", "where", "with", "match", "by", "this",
                 "instance", "class", "structure", "universe", "variable", "return", "for", "mut", "macro", "syntax", "deriving"}

PRELUDE = """/-- Python `range(a, b)` over the integers -/
def pyRange (a b : Int) : List Int := (List.range (b - a).toNat).map fun (k : Nat) => a + (k : Int)
/-- Python `range(a, b, s)` for a positive step `s` -/
def pyRangeStep (a b s : Int) : List Int := (List.range ((b - a + s - 1) / s).toNat).map fun (k : Nat) => a + s * (k : Int)
/-- the code points of a string literal -/
def cps (s : String) : List Nat := s.toList.map Char.toNat"""


def lean_str(s):
    out = []
    for ch in s:
        o = ord(ch)
        if ch == '"':
            out.append('\\"')
        elif ch == "\\":
            out.append("\\\\")
        elif ch == "\n":
            out.append("\\n")
        elif o < 0x20 or o == 0x7F:
            out.append("\\x%02x" % o)
        elif o > 0x7E:
            out.append("\\u{%x}" % o)
        else:
            out.append(ch)
    return '"' + "".join(out) + '"'


def lv(name):
    """a Python variable as a Lean binder"""
    return "«" + name + "»" if name in LEAN_KEYWORDS else name


def fragments(api):
    Tr, U = api.Tr, api.Untranslatable
    find_func, strip_doc = api.find_func, api.strip_doc
    main = api.trees["main"]
    ibase = api.trees["image_base"]

    def need(cond, why):
        if not cond:
            raise U(why)

    def is_none(node):
        return isinstance(node, ast.Constant) and node.value is None

    def unp(node):
        return ast.unparse(node)

    def call_of(stmt_or_expr, func=None, nargs=None, kw=()):
        """the Call node of an expression statement / expression, with its shape checked"""
        node = stmt_or_expr.value if isinstance(stmt_or_expr, ast.Expr) else stmt_or_expr
        need(isinstance(node, ast.Call), "expected a call, found " + unp(stmt_or_expr)[:50])
        if func is not None:
            need(unp(node.func) == func, f"expected a call of {func}, found {unp(node.func)}")
        if nargs is not None:
            need(len(node.args) == nargs, f"{unp(node.func)}: expected {nargs} positional arguments")
        need(sorted(k.arg or "**" for k in node.keywords) == sorted(kw), f"{unp(node.func)}: keywords {[k.arg for k in node.keywords]}")
        need(not any(isinstance(a, ast.Starred) for a in node.args), "starred argument")
        return node

    def kwarg(call, name):
        return next(k.value for k in call.keywords if k.arg == name)

    def is_range(node):
        return isinstance(node, ast.Call) and unp(node.func) == "range" and not node.keywords

    def imported_as(tree, name):
        """`from m import name` at module level -> "m.name" """
        for s in tree.body:
            if isinstance(s, ast.ImportFrom):
                for a in s.names:
                    if (a.asname or a.name) == name:
                        return f"{s.module}.{a.name}"
        raise U("no module-level import of " + name)

    class TrB(Tr):
        def __init__(self, env, ty="Int", subscripts=None, none_tests=None, truth=None, calls=None, matrices=None):
            Tr.__init__(self, env, ty, subscripts)
            self.none_tests = none_tests or {}    # unparse(X) -> Lean Bool term for `X is None`
            self.truth = truth or {}              # unparse(X) -> Lean Bool term for the truth value of X
            self.calls = calls or {}              # unparse(f)  -> (arg nodes -> Lean term) for the number f(args)
            self.matrices = matrices or {}        # unparse(M)  -> (Lean function, index translator) for the truth value of M[i][j]

        def num(self, node):
            if isinstance(node, ast.Call):
                f = unp(node.func)
                if f in self.calls and not node.keywords:
                    return self.calls[f](node.args)
                if f == "cast" and len(node.args) == 2 and not node.keywords:
                    return self.num(node.args[1])
            return Tr.num(self, node)

        def boolean(self, node):
            if isinstance(node, ast.Compare) and len(node.ops) == 1 and isinstance(node.ops[0], (ast.Is, ast.IsNot)) \
                    and is_none(node.comparators[0]):
                key = unp(node.left)
                if key not in self.none_tests:
                    raise U("`is None` of " + key)
                t = self.none_tests[key]
                return t if isinstance(node.ops[0], ast.Is) else f"(!{t})"
            if isinstance(node, (ast.Name, ast.Attribute, ast.Call)) and unp(node) in self.truth:
                return self.truth[unp(node)]
            if isinstance(node, ast.Subscript) and isinstance(node.value, ast.Subscript) and unp(node.value.value) in self.matrices:
                f, itr = self.matrices[unp(node.value.value)]
                return f"({f} {itr.num(node.value.slice)} {itr.num(node.slice)})"
            if isinstance(node, ast.Call):
                raise U("truth value of the call " + unp(node)[:40])
            return Tr.boolean(self, node)

    class ListTr:
        """list-valued expressions; `elem(node)` translates a scalar element, `tr` the repeat counts (Nat)"""

        def __init__(self, tr, env, elem):
            self.tr, self.env, self.elem = tr, env, elem

        def listy(self, node):
            if isinstance(node, (ast.List, ast.ListComp)):
                return True
            if isinstance(node, ast.Name):
                return node.id in self.env
            if isinstance(node, ast.Attribute):
                return unp(node) in self.env
            if isinstance(node, ast.BinOp) and isinstance(node.op, (ast.Mult, ast.Add)):
                return self.listy(node.left)
            if isinstance(node, ast.Call):
                return unp(node.func) in ("cast", "list", "chain.from_iterable", "chain")
            return False

        def item(self, node):
            return self.lst(node) if self.listy(node) else self.elem(node)

        def lst(self, node):
            if isinstance(node, ast.List):
                need(not any(isinstance(e, ast.Starred) for e in node.elts), "starred list element")
                return "[" + ", ".join(self.item(e) for e in node.elts) + "]"
            if isinstance(node, (ast.Name, ast.Attribute)):
                if unp(node) in self.env:
                    return self.env[unp(node)]
                raise U("free list name " + unp(node))
            if isinstance(node, ast.BinOp) and isinstance(node.op, ast.Add):
                return f"({self.lst(node.left)} ++ {self.lst(node.right)})"
            if isinstance(node, ast.BinOp) and isinstance(node.op, ast.Mult):
                need(self.listy(node.left) and not self.listy(node.right), "list repetition " + unp(node)[:40])
                n = self.tr.num(node.right)
                if isinstance(node.left, ast.List) and len(node.left.elts) == 1:
                    return f"(List.replicate {n} {self.item(node.left.elts[0])})"
                return f"(List.replicate {n} {self.lst(node.left)}).flatten"
            if isinstance(node, ast.Call):
                f = unp(node.func)
                if f == "cast" and len(node.args) == 2 and not node.keywords:
                    return self.lst(node.args[1])
                if f == "list" and len(node.args) == 1 and not node.keywords:
                    return self.lst(node.args[0])
                if f == "chain.from_iterable" and len(node.args) == 1 and not node.keywords and isinstance(node.args[0], ast.GeneratorExp):
                    g = node.args[0]
                    need(len(g.generators) == 1 and not g.generators[0].ifs and isinstance(g.generators[0].target, ast.Name),
                         "generator shape")
                    v = g.generators[0].target.id
                    it = self.lst(g.generators[0].iter)
                    return f"({it}.flatMap fun {lv(v)} => {self.lst(g.elt)})"
                if f == "chain" and not node.keywords:
                    return "(" + " ++ ".join(self.lst(a) for a in node.args) + ")"
            raise U("list expression " + unp(node)[:50])

    class Writer:
        """the text a statement list writes to `out`, as a Lean `List Nat` of code points.
        trI: loop variables / bounds (Int or Nat as given by `loop_ty`); trN: subscripts of string tables (Nat)"""

        def __init__(self, tr_cond, tr_idx, tr_pos, loop_ty, tables, out="out"):
            self.trc, self.tri, self.trp, self.loop_ty, self.tables, self.out = tr_cond, tr_idx, tr_pos, loop_ty, tables, out

        def text(self, e):
            if isinstance(e, ast.Constant) and isinstance(e.value, str):
                return f"cps {lean_str(e.value)}"
            if isinstance(e, ast.BinOp) and isinstance(e.op, ast.Add):
                return f"({self.text(e.left)} ++ {self.text(e.right)})"
            if isinstance(e, ast.BinOp) and isinstance(e.op, ast.Mult):
                need(isinstance(e.left, ast.Constant) and isinstance(e.left.value, str), "string repetition " + unp(e)[:40])
                n = self.tri.num(e.right) if self.loop_ty == "Nat" else self.trp.num(e.right)
                if len(e.left.value) == 1:
                    return f"(List.replicate {n} {ord(e.left.value)})"
                return f"(List.replicate {n} (cps {lean_str(e.left.value)})).flatten"
            if isinstance(e, ast.Subscript) and unp(e.value) in self.tables:
                # one-character strings of a table of code points
                return f"[({self.tables[unp(e.value)]}).getD {self.trp.num(e.slice)} 0]"
            raise U("written text " + unp(e)[:50])

        def stmts(self, body):
            parts = [p for p in (self.stmt(s) for s in body) if p is not None]
            return "(" + " ++ ".join(parts) + ")" if parts else "[]"

        def stmt(self, s):
            if isinstance(s, ast.Expr) and isinstance(s.value, ast.Call) and unp(s.value.func) == self.out + ".write":
                c = call_of(s, self.out + ".write", 1)
                return self.text(c.args[0])
            if isinstance(s, ast.If):
                return f"(if {self.trc.boolean(s.test)} then {self.stmts(s.body)} else {self.stmts(s.orelse)})"
            if isinstance(s, ast.Assign) and len(s.targets) == 1 and isinstance(s.targets[0], ast.Name):
                self.trp.env[s.targets[0].id] = self.trp.num(s.value)      # inlined at its uses
                return None
            if isinstance(s, ast.For) and isinstance(s.target, ast.Name) and is_range(s.iter) and not s.orelse:
                v, a = s.target.id, s.iter.args
                for t in (self.trc, self.tri, self.trp):
                    t.env.pop(v, None)
                self.trc.env[v] = self.tri.env[v] = lv(v)
                if self.loop_ty == "Nat":
                    need(len(a) == 1, "range with a start in a Nat loop")
                    self.trp.env[v] = lv(v)
                    head = f"(List.range {self.tri.num(a[0])})"
                elif len(a) == 1:
                    head = f"(pyRange 0 {self.tri.num(a[0])})"
                elif len(a) == 2:
                    head = f"(pyRange {self.tri.num(a[0])} {self.tri.num(a[1])})"
                else:
                    need(isinstance(a[2], ast.Constant) and isinstance(a[2].value, int) and a[2].value > 0, "range step is not a positive constant")
                    head = f"(pyRangeStep {self.tri.num(a[0])} {self.tri.num(a[1])} {a[2].value})"
                body = self.stmts(s.body)
                return f"({head}.flatMap fun ({lv(v)} : {self.loop_ty}) => {body})"
            raise U("statement in a writing loop: " + unp(s)[:50])

    api.emit("prelude_b", lambda: PRELUDE)

    # ------------------------------------------------------------------------------------------------ B1: QRCode.best_fit
    def best_fit():
        fn = find_func(main, "QRCode.best_fit")
        need([a.arg for a in fn.args.args] == ["self", "start"] and len(fn.args.defaults) == 1 and is_none(fn.args.defaults[0])
             and not fn.args.kwonlyargs and fn.args.vararg is None and fn.args.kwarg is None, "signature of best_fit")
        body = strip_doc(fn.body)
        need(len(body) == 11, f"best_fit has {len(body)} statements, expected 11")
        out = []
        # 0: if start is None: start = <const>
        s = body[0]
        need(isinstance(s, ast.If) and not s.orelse and len(s.body) == 1 and unp(s.test) == "start is None"
             and isinstance(s.body[0], ast.Assign) and unp(s.body[0].targets[0]) == "start" and len(s.body[0].targets) == 1
             and isinstance(s.body[0].value, ast.Constant) and type(s.body[0].value.value) is int and s.body[0].value.value >= 0,
             "default of start")
        out.append(f"def best_fit_start (start : Option Nat) : Nat := match start with | none => {s.body[0].value.value} | some start => start")
        tr = TrB({"start": "start", "self.error_correction": "level"}, "Nat")
        # 1: util.check_version(start)
        c = call_of(body[1], None, 1)
        out.append(f"def best_fit_check_func : String := {lean_str(unp(c.func))}")
        out.append(f"def best_fit_check_arg (start : Nat) : Nat := {tr.num(c.args[0])}")
        # 2: mode_sizes = util.mode_sizes_for_version(start)
        s = body[2]
        need(isinstance(s, ast.Assign) and len(s.targets) == 1 and isinstance(s.targets[0], ast.Name), "mode_sizes assignment")
        sizes_var = s.targets[0].id
        c = call_of(s.value, None, 1)
        sizes_func = unp(c.func)
        out.append(f"def best_fit_sizes_func : String := {lean_str(sizes_func)}")
        out.append(f"def best_fit_sizes_arg (start : Nat) : Nat := {tr.num(c.args[0])}")
        sizes_arg_start = tr.num(c.args[0])
        # 3: buffer = util.BitBuffer()
        s = body[3]
        need(isinstance(s, ast.Assign) and len(s.targets) == 1 and isinstance(s.targets[0], ast.Name), "buffer assignment")
        buf = s.targets[0].id
        c = call_of(s.value, None, 0)
        out.append(f"def best_fit_buffer_init : String := {lean_str(unp(c))}")
        # 4: for data in self.data_list: buffer.put(data.mode, 4); buffer.put(len(data), mode_sizes[data.mode]); data.write(buffer)
        lp = body[4]
        need(isinstance(lp, ast.For) and isinstance(lp.target, ast.Name) and not lp.orelse and len(lp.body) == 3, "accumulation loop")
        d = lp.target.id
        out.append(f"def best_fit_loop_iter : String := {lean_str(unp(lp.iter))}")
        trl = TrB({d + ".mode": "mode"}, "Nat", {f"len({d})": "len"})
        p0 = call_of(lp.body[0], buf + ".put", 2)
        out.append(f"def best_fit_put_mode (mode len : Nat) : Nat × Nat := ({trl.num(p0.args[0])}, {trl.num(p0.args[1])})")
        p1 = call_of(lp.body[1], buf + ".put", 2)
        w = p1.args[1]
        need(isinstance(w, ast.Subscript) and isinstance(w.value, ast.Name) and w.value.id == sizes_var, "width is not a lookup in the mode sizes")
        out.append(f"def best_fit_put_len_key (mode len : Nat) : Nat := {trl.num(w.slice)}")
        trw = TrB({d + ".mode": "mode"}, "Nat", {f"len({d})": "len", unp(w): "width"})
        out.append(f"def best_fit_put_len (mode len width : Nat) : Nat × Nat := ({trw.num(p1.args[0])}, {trw.num(p1.args[1])})")
        p2 = call_of(lp.body[2], d + ".write", 1)
        need(unp(p2.args[0]) == buf, "data.write target")
        out.append(f"def best_fit_write_call : String := {lean_str(unp(p2))}")
        # 5: needed_bits = len(buffer)
        s = body[5]
        need(isinstance(s, ast.Assign) and len(s.targets) == 1 and isinstance(s.targets[0], ast.Name), "needed_bits assignment")
        trn = TrB({"start": "start", "self.error_correction": "level"}, "Nat", {f"len({buf})": "bufLen"})
        trn.env[s.targets[0].id] = trn.num(s.value)
        # 6: version = bisect_left(util.BIT_LIMIT_TABLE[self.error_correction], needed_bits, start)
        s = body[6]
        need(isinstance(s, ast.Assign) and len(s.targets) == 1 and isinstance(s.targets[0], ast.Name), "version assignment")
        ver = s.targets[0].id
        c = call_of(s.value, None, 3)
        need(isinstance(c.func, ast.Name), "bisect function")
        out.append(f"def best_fit_bisect_func : String := {lean_str(imported_as(main, c.func.id))}")
        t = c.args[0]
        need(isinstance(t, ast.Subscript), "bisect table")
        out.append(f"def best_fit_bisect_table : String := {lean_str(unp(t.value))}")
        out.append(f"def best_fit_bisect_row (level : Nat) : Nat := {trn.num(t.slice)}")
        out.append(f"def best_fit_bisect_x (start bufLen : Nat) : Nat := {trn.num(c.args[1])}")
        out.append(f"def best_fit_bisect_lo (start bufLen : Nat) : Nat := {trn.num(c.args[2])}")
        # 7: if version == 41: raise exceptions.DataOverflowError()
        s = body[7]
        need(isinstance(s, ast.If) and not s.orelse and len(s.body) == 1 and isinstance(s.body[0], ast.Raise) and s.body[0].exc is not None,
             "overflow test")
        trv = TrB({ver: "version"}, "Nat")
        out.append(f"def best_fit_overflow (version : Nat) : Bool := {trv.boolean(s.test)}")
        out.append(f"def best_fit_overflow_exc : String := {lean_str(unp(s.body[0].exc))}")
        # 8: self.version = version
        s = body[8]
        need(isinstance(s, ast.Assign) and len(s.targets) == 1 and unp(s.targets[0]) == "self.version", "version store")
        out.append(f"def best_fit_store (version : Nat) : Nat := {trv.num(s.value)}")
        trs = TrB({"self.version": "stored"}, "Nat")
        # 9: if mode_sizes is not util.mode_sizes_for_version(self.version): self.best_fit(start=self.version)
        s = body[9]
        need(isinstance(s, ast.If) and not s.orelse and len(s.body) == 1 and isinstance(s.test, ast.Compare) and len(s.test.ops) == 1
             and isinstance(s.test.ops[0], (ast.Is, ast.IsNot)) and isinstance(s.test.left, ast.Name) and s.test.left.id == sizes_var,
             "re-fit test")
        rc = call_of(s.test.comparators[0], sizes_func, 1)
        op = "≠" if isinstance(s.test.ops[0], ast.IsNot) else "="
        # `mode_sizes_for_version` returns one of the module-level dicts: identity of the results = equality of the class
        out.append(f"def best_fit_refit (sizeClass : Nat → Nat) (start stored : Nat) : Bool := "
                   f"decide (sizeClass {sizes_arg_start} {op} sizeClass {trs.num(rc.args[0])})")
        r = call_of(s.body[0], "self.best_fit", 0, kw=("start",))
        out.append(f"def best_fit_recurse_start (stored : Nat) : Nat := {trs.num(kwarg(r, 'start'))}")
        # 10: return self.version
        s = body[10]
        need(isinstance(s, ast.Return) and s.value is not None, "return")
        out.append(f"def best_fit_return : String := {lean_str(unp(s.value))}")
        return "\n".join(out)
    api.emit("best_fit", best_fit)

    # ------------------------------------------------------------------------------------------------ B2: QRCode.make / makeImpl
    def make():
        fn = find_func(main, "QRCode.make")
        need([a.arg for a in fn.args.args] == ["self", "fit"] and len(fn.args.defaults) == 1
             and isinstance(fn.args.defaults[0], ast.Constant) and isinstance(fn.args.defaults[0].value, bool), "signature of make")
        body = strip_doc(fn.body)
        need(len(body) == 3, f"make has {len(body)} statements, expected 3")
        out = [f"def make_fit_default : Bool := {'true' if fn.args.defaults[0].value else 'false'}"]
        # 0: self.data_cache = None
        s = body[0]
        need(isinstance(s, ast.Assign) and len(s.targets) == 1 and is_none(s.value), "first statement is not `X = None`")
        out.append(f"def make_reset_target : String := {lean_str(unp(s.targets[0]))}")
        out.append("def make_reset_value {α : Type} : Option α := none")
        # 1: if fit or self.version is None: self.best_fit(start=self.version)
        s = body[1]
        need(isinstance(s, ast.If) and not s.orelse and len(s.body) == 1, "fit test")
        tr = TrB({"self.version": "version", "self.mask_pattern": "mask"}, "Nat",
                 none_tests={"self.version": "versionIsNone", "self.mask_pattern": "maskIsNone"}, truth={"fit": "fit"})
        out.append(f"def make_fit_test (fit versionIsNone : Bool) : Bool := {tr.boolean(s.test)}")
        c = call_of(s.body[0], None, 0, kw=("start",))
        out.append(f"def make_fit_call : String := {lean_str(unp(c.func))}")
        out.append(f"def make_fit_start (version : Nat) : Nat := {tr.num(kwarg(c, 'start'))}")
        # 2: if self.mask_pattern is None: self.makeImpl(False, self.best_mask_pattern()) else: self.makeImpl(False, self.mask_pattern)
        s = body[2]
        need(isinstance(s, ast.If) and len(s.body) == 1 and len(s.orelse) == 1, "mask test")
        out.append(f"def make_mask_test (maskIsNone : Bool) : Bool := {tr.boolean(s.test)}")
        a = call_of(s.body[0], None, 2)
        b = call_of(s.orelse[0], None, 2)
        out.append(f"def make_none_call : String := {lean_str(unp(a.func))}")
        out.append(f"def make_none_test_arg : Bool := {tr.boolean(a.args[0])}")
        m = call_of(a.args[1], None, 0)
        out.append(f"def make_none_mask_call : String := {lean_str(unp(m))}")
        out.append(f"def make_some_call : String := {lean_str(unp(b.func))}")
        out.append(f"def make_some_test_arg : Bool := {tr.boolean(b.args[0])}")
        out.append(f"def make_some_mask_arg (mask : Nat) : Nat := {tr.num(b.args[1])}")
        return "\n".join(out)
    api.emit("make", make)

    def make_impl():
        fn = find_func(main, "QRCode.makeImpl")
        need([a.arg for a in fn.args.args] == ["self", "test", "mask_pattern"] and not fn.args.defaults, "signature of makeImpl")
        body = strip_doc(fn.body)
        need(len(body) == 6, f"makeImpl has {len(body)} statements, expected 6")
        out = []
        tr = TrB({"self.version": "version", "self.error_correction": "level", "mask_pattern": "mask"}, "Nat",
                 none_tests={"self.data_cache": "cacheIsNone"}, truth={"test": "test"})
        tri = TrB({"self.modules_count": "n"}, "Int")
        trn = TrB({"self.modules_count": "n"}, "Nat")
        # 0: self.modules_count = self.version * 4 + 17
        s = body[0]
        need(isinstance(s, ast.Assign) and len(s.targets) == 1 and unp(s.targets[0]) == "self.modules_count", "modules_count assignment")
        out.append(f"def makeImpl_modules_count (version : Nat) : Nat := {tr.num(s.value)}")
        # 1: if self.version in precomputed_qr_blanks: hit else: miss
        s = body[1]
        need(isinstance(s, ast.If) and isinstance(s.test, ast.Compare) and len(s.test.ops) == 1 and isinstance(s.test.ops[0], ast.In)
             and isinstance(s.test.comparators[0], ast.Name), "cache test")
        cache = s.test.comparators[0].id
        out.append(f"def makeImpl_cache_name : String := {lean_str(cache)}")
        out.append(f"def makeImpl_cache_key (version : Nat) : Nat := {tr.num(s.test.left)}")
        need(len(s.body) == 1 and isinstance(s.body[0], ast.Assign) and unp(s.body[0].targets[0]) == "self.modules", "cache hit branch")
        h = call_of(s.body[0].value, None, 1)
        need(isinstance(h.args[0], ast.Subscript) and unp(h.args[0].value) == cache, "cache hit value")
        out.append(f"def makeImpl_hit_copy : String := {lean_str(unp(h.func))}")
        out.append(f"def makeImpl_hit_key (version : Nat) : Nat := {tr.num(h.args[0].slice)}")
        cp = find_func(main, unp(h.func)) if isinstance(h.func, ast.Name) else None
        need(cp is not None and len(cp.body) == 1 and isinstance(cp.body[0], ast.Return), "copy function")
        out.append(f"def makeImpl_copy_body : String := {lean_str(unp(cp.body[0].value))}")
        miss = s.orelse
        need(len(miss) >= 2 and isinstance(miss[0], ast.Assign) and unp(miss[0].targets[0]) == "self.modules"
             and isinstance(miss[0].value, ast.ListComp), "cache miss branch")
        lc = miss[0].value
        need(len(lc.generators) == 1 and not lc.generators[0].ifs and is_range(lc.generators[0].iter) and len(lc.generators[0].iter.args) == 1
             and isinstance(lc.elt, ast.BinOp) and isinstance(lc.elt.op, ast.Mult) and isinstance(lc.elt.left, ast.List)
             and len(lc.elt.left.elts) == 1, "empty matrix construction")
        out.append(f"def makeImpl_empty_dims (n : Nat) : Nat × Nat := ({trn.num(lc.generators[0].iter.args[0])}, {trn.num(lc.elt.right)})")
        out.append(f"def makeImpl_empty_fill : String := {lean_str(unp(lc.elt.left.elts[0]))}")
        steps, probes = [], []
        for st in miss[1:-1]:
            c = call_of(st)
            need(not c.keywords, "keyword argument in a setup call")
            steps.append(unp(c.func))
            if c.args:
                need(len(c.args) == 2, "setup call arguments")
                probes.append(f"({tri.num(c.args[0])}, {tri.num(c.args[1])})")
            else:
                probes.append(None)
        out.append("def makeImpl_setup_calls : List String := [" + ", ".join(lean_str(x) for x in steps) + "]")
        out.append("def makeImpl_probe_args (n : Int) : List (Int × Int) := [" + ", ".join(p for p in probes if p) + "]")
        st = miss[-1]
        need(isinstance(st, ast.Assign) and len(st.targets) == 1 and isinstance(st.targets[0], ast.Subscript)
             and unp(st.targets[0].value) == cache, "cache store")
        out.append(f"def makeImpl_store_key (version : Nat) : Nat := {tr.num(st.targets[0].slice)}")
        out.append(f"def makeImpl_store_value : String := {lean_str(unp(st.value))}")
        # 2: self.setup_type_info(test, mask_pattern)
        c = call_of(body[2], None, 2)
        out.append(f"def makeImpl_type_info_call : String := {lean_str(unp(c.func))}")
        out.append(f"def makeImpl_type_info_args (test : Bool) (mask : Nat) : Bool × Nat := ({tr.boolean(c.args[0])}, {tr.num(c.args[1])})")
        # 3: if self.version >= 7: self.setup_type_number(test)
        s = body[3]
        need(isinstance(s, ast.If) and not s.orelse and len(s.body) == 1, "type number test")
        out.append(f"def makeImpl_type_number_test (version : Nat) : Bool := {tr.boolean(s.test)}")
        c = call_of(s.body[0], None, 1)
        out.append(f"def makeImpl_type_number_call : String := {lean_str(unp(c.func))}")
        out.append(f"def makeImpl_type_number_arg (test : Bool) : Bool := {tr.boolean(c.args[0])}")
        # 4: if self.data_cache is None: self.data_cache = util.create_data(self.version, self.error_correction, self.data_list)
        s = body[4]
        need(isinstance(s, ast.If) and not s.orelse and len(s.body) == 1 and isinstance(s.body[0], ast.Assign)
             and unp(s.body[0].targets[0]) == "self.data_cache", "data cache test")
        out.append(f"def makeImpl_data_test (cacheIsNone : Bool) : Bool := {tr.boolean(s.test)}")
        c = call_of(s.body[0].value, None, 3)
        out.append(f"def makeImpl_create_call : String := {lean_str(unp(c.func))}")
        out.append(f"def makeImpl_create_args (version level : Nat) : Nat × Nat × String := "
                   f"({tr.num(c.args[0])}, {tr.num(c.args[1])}, {lean_str(unp(c.args[2]))})")
        # 5: self.map_data(self.data_cache, mask_pattern)
        c = call_of(body[5], None, 2)
        out.append(f"def makeImpl_map_call : String := {lean_str(unp(c.func))}")
        out.append(f"def makeImpl_map_args (mask : Nat) : String × Nat := ({lean_str(unp(c.args[0]))}, {tr.num(c.args[1])})")
        return "\n".join(out)
    api.emit("makeImpl", make_impl)

    # ------------------------------------------------------------------------------------------------ B3: QRCode.get_matrix
    def get_matrix():
        fn = find_func(main, "QRCode.get_matrix")
        need([a.arg for a in fn.args.args] == ["self"], "signature of get_matrix")
        body = strip_doc(fn.body)
        need(len(body) >= 4, "get_matrix is too short")
        out = []
        trb = TrB({}, "Nat", none_tests={"self.data_cache": "cacheIsNone"}, truth={"self.border": "(decide (border ≠ 0))"})
        # 0: if self.data_cache is None: self.make()
        s = body[0]
        need(isinstance(s, ast.If) and not s.orelse and len(s.body) == 1, "implicit compile test")
        out.append(f"def get_matrix_compile_test (cacheIsNone : Bool) : Bool := {trb.boolean(s.test)}")
        out.append(f"def get_matrix_compile_call : String := {lean_str(unp(call_of(s.body[0], None, 0)))}")
        # 1: if not self.border: return self.modules
        s = body[1]
        need(isinstance(s, ast.If) and not s.orelse and len(s.body) == 1 and isinstance(s.body[0], ast.Return), "early return")
        out.append(f"def get_matrix_early (border : Nat) : Bool := {trb.boolean(s.test)}")
        out.append(f"def get_matrix_early_value : String := {lean_str(unp(s.body[0].value))}")
        # the rest builds a list in a local variable and returns it
        trn = TrB({"self.border": "border"}, "Nat", {"len(self.modules)": "modules.length"})

        def elem(node):
            if isinstance(node, ast.Constant) and node.value is False:
                return "pyFalse"
            raise U("matrix element " + unp(node)[:30])
        lt = ListTr(trn, {"self.modules": "modules"}, elem)
        acc, accname = None, None
        need(isinstance(body[-1], ast.Return) and isinstance(body[-1].value, ast.Name), "final return")
        result = body[-1].value.id
        for s in body[2:-1]:
            if isinstance(s, ast.Assign) and len(s.targets) == 1 and isinstance(s.targets[0], ast.Name):
                name = s.targets[0].id
                need(name != result or acc is None, "result list assigned twice")
                if lt.listy(s.value):
                    val = lt.lst(s.value)
                    if name == result:
                        acc = val
                    else:
                        lt.env[name] = val
                else:
                    val = trn.num(s.value)
                    trn.env[name] = val
                    if name == "width":
                        out.append(f"def get_matrix_width (len border : Nat) : Nat := {TrB({'self.border': 'border'}, 'Nat', {'len(self.modules)': 'len'}).num(s.value)}")
            elif isinstance(s, ast.For) and isinstance(s.target, ast.Name) and not s.orelse and len(s.body) == 1:
                need(acc is not None, "loop before the result list exists")
                c = call_of(s.body[0], result + ".append", 1)
                v = s.target.id
                it = lt.lst(s.iter)
                inner = ListTr(trn, dict(lt.env, **{v: lv(v)}), elem)
                acc = f"({acc} ++ ({it}.map fun {lv(v)} => {inner.lst(c.args[0])}))"
            elif isinstance(s, ast.AugAssign) and isinstance(s.op, ast.Add) and unp(s.target) == result:
                need(acc is not None, "`+=` before the result list exists")
                acc = f"({acc} ++ {lt.lst(s.value)})"
            else:
                raise U("statement of get_matrix: " + unp(s)[:50])
        need(acc is not None, "no result list")
        out.append("def get_matrix_code {α : Type} (pyFalse : α) (modules : List (List α)) (border : Nat) : List (List α) := " + acc)
        return "\n".join(out)
    api.emit("get_matrix", get_matrix)

    # ------------------------------------------------------------------------------------------------ B4: print_ascii / print_tty
    def default_out(s, out):
        """`if out is None: [import sys;] out = sys.stdout`"""
        need(isinstance(s, ast.If) and not s.orelse and unp(s.test) == "out is None" and isinstance(s.body[-1], ast.Assign)
             and unp(s.body[-1].targets[0]) == "out" and all(isinstance(x, ast.Import) for x in s.body[:-1]), "default stream")
        out.append(f"def PFX_default_stream : String := {lean_str(unp(s.body[-1].value))}")

    def refusal(s, tr, out, params, args):
        need(isinstance(s, ast.If) and not s.orelse and len(s.body) == 1 and isinstance(s.body[0], ast.Raise) and s.body[0].exc is not None,
             "tty refusal")
        out.append(f"def PFX_refuse ({params} : Bool) : Bool := {tr.boolean(s.test)}")
        exc = s.body[0].exc
        out.append(f"def PFX_refuse_exc : String := {lean_str(unp(exc.func) if isinstance(exc, ast.Call) else unp(exc))}")

    def implicit_compile(s, out):
        need(isinstance(s, ast.If) and not s.orelse and len(s.body) == 1, "implicit compile test")
        tr = TrB({}, "Nat", none_tests={"self.data_cache": "cacheIsNone"})
        out.append(f"def PFX_compile_test (cacheIsNone : Bool) : Bool := {tr.boolean(s.test)}")
        out.append(f"def PFX_compile_call : String := {lean_str(unp(call_of(s.body[0], None, 0)))}")

    def print_ascii():
        fn = find_func(main, "QRCode.print_ascii")
        need([a.arg for a in fn.args.args] == ["self", "out", "tty", "invert"] and [unp(d) for d in fn.args.defaults] == ["None", "False", "False"],
             "signature of print_ascii")
        body = strip_doc(fn.body)
        need(len(body) == 10, f"print_ascii has {len(body)} statements, expected 10")
        out = []
        default_out(body[0], out)
        trb = TrB({}, "Int", truth={"tty": "tty", "invert": "invert", "out.isatty()": "isatty"})
        refusal(body[1], trb, out, "tty isatty", None)
        implicit_compile(body[2], out)
        # 3: modcount = self.modules_count
        s = body[3]
        need(isinstance(s, ast.Assign) and len(s.targets) == 1 and isinstance(s.targets[0], ast.Name), "modcount assignment")
        modcount = s.targets[0].id
        out.append(f"def PFX_modcount : String := {lean_str(unp(s.value))}")
        # 4: codes = [bytes((code,)).decode("cp437") for code in (255, 223, 220, 219)]
        s = body[4]
        need(isinstance(s, ast.Assign) and len(s.targets) == 1 and isinstance(s.targets[0], ast.Name) and isinstance(s.value, ast.ListComp),
             "codes assignment")
        codes = s.targets[0].id
        lc = s.value
        need(len(lc.generators) == 1 and not lc.generators[0].ifs and isinstance(lc.generators[0].target, ast.Name)
             and isinstance(lc.generators[0].iter, (ast.Tuple, ast.List))
             and all(isinstance(e, ast.Constant) and type(e.value) is int and 0 <= e.value < 256 for e in lc.generators[0].iter.elts),
             "code list")
        v = lc.generators[0].target.id
        e = lc.elt
        need(isinstance(e, ast.Call) and isinstance(e.func, ast.Attribute) and e.func.attr == "decode" and len(e.args) == 1 and not e.keywords
             and isinstance(e.args[0], ast.Constant) and isinstance(e.args[0].value, str)
             and unp(e.func.value) == f"bytes(({v},))", "decoding expression")
        codec = e.args[0].value
        bytes_ = [x.value for x in lc.generators[0].iter.elts]
        try:
            points = [bytes((b,)).decode(codec) for b in bytes_]          # the comprehension, evaluated
        except Exception as ex:  # noqa
            raise U(f"cannot decode with {codec}: {ex}")
        need(all(len(p) == 1 for p in points), "a code decodes to several characters")
        out.append(f"def PFX_code_bytes : List Nat := [{', '.join(map(str, bytes_))}]")
        out.append(f"def PFX_codec : String := {lean_str(codec)}")
        out.append(f"def PFX_code_points : List Nat := [{', '.join(str(ord(p)) for p in points)}]")
        # 5: if tty: invert = True
        s = body[5]
        need(isinstance(s, ast.If) and not s.orelse and len(s.body) == 1 and isinstance(s.body[0], ast.Assign)
             and unp(s.body[0].targets[0]) == "invert", "tty forces invert")
        out.append(f"def PFX_invert (tty invert : Bool) : Bool := if {trb.boolean(s.test)} then {trb.boolean(s.body[0].value)} else invert")
        # 6: if invert: codes.reverse()
        s = body[6]
        need(isinstance(s, ast.If) and not s.orelse and len(s.body) == 1, "code reversal")
        c = call_of(s.body[0], codes + ".reverse", 0)
        out.append(f"def PFX_codes (invert : Bool) : List Nat := if {trb.boolean(s.test)} then PFX_code_points.reverse else PFX_code_points")
        # 7: def get_module ...   (translated by translate.py itself)
        need(isinstance(body[7], ast.FunctionDef) and [a.arg for a in body[7].args.args] == ["x", "y"], "get_module")
        gm = body[7].name
        # 8: the row loop
        env = {modcount: "modcount", "self.border": "border"}
        trc = TrB(dict(env), "Int", truth={"tty": "tty", "invert": "invert"})
        tri = TrB(dict(env), "Int")
        trp = TrB({}, "Nat", calls={gm: lambda args: (need(len(args) == 2, "get_module arity"), f"(gm {tri.num(args[0])} {tri.num(args[1])})")[1]})
        w = Writer(trc, tri, trp, "Int", {codes: "codes"})
        need(isinstance(body[8], ast.For), "row loop")
        out.append("def PFX_text (gm : Int → Int → Nat) (codes : List Nat) (modcount border : Int) (tty invert : Bool) : List Nat := "
                   + w.stmt(body[8]))
        # 9: out.flush()
        out.append(f"def PFX_tail : String := {lean_str(unp(call_of(body[9], None, 0)))}")
        return "\n".join(out).replace("PFX_", "print_ascii_")
    api.emit("print_ascii", print_ascii)

    def print_tty():
        fn = find_func(main, "QRCode.print_tty")
        need([a.arg for a in fn.args.args] == ["self", "out"] and [unp(d) for d in fn.args.defaults] == ["None"], "signature of print_tty")
        body = strip_doc(fn.body)
        need(len(body) >= 6, "print_tty is too short")
        out = []
        default_out(body[0], out)
        trb = TrB({}, "Nat", truth={"out.isatty()": "isatty"})
        refusal(body[1], trb, out, "isatty", None)
        implicit_compile(body[2], out)
        s = body[3]
        need(isinstance(s, ast.Assign) and len(s.targets) == 1 and isinstance(s.targets[0], ast.Name), "modcount assignment")
        modcount = s.targets[0].id
        out.append(f"def PFX_modcount : String := {lean_str(unp(s.value))}")
        env = {modcount: "modcount"}
        tri = TrB(dict(env), "Nat")
        trc = TrB(dict(env), "Nat", matrices={"self.modules": ("mods", tri)})
        w = Writer(trc, tri, TrB(dict(env), "Nat"), "Nat", {})
        out.append("def PFX_text (mods : Nat → Nat → Bool) (modcount : Nat) : List Nat := " + w.stmts(body[4:-1]))
        out.append(f"def PFX_tail : String := {lean_str(unp(call_of(body[-1], None, 0)))}")
        return "\n".join(out).replace("PFX_", "print_tty_")
    api.emit("print_tty", print_tty)

    # ------------------------------------------------------------------------------------------------ B5: PyPNG rows, pixel_size
    def pypng():
        tree = api.parse("qrcode/image/pure.py")
        env_n = {"self.box_size": "boxSize", "self.border": "border", "self.width": "width", "self.pixel_size": "pixelSize"}
        trn = TrB(dict(env_n), "Nat")

        def elem(node):
            if isinstance(node, ast.Constant) and type(node.value) is int and node.value >= 0:
                return str(node.value)
            if isinstance(node, ast.UnaryOp) and isinstance(node.op, ast.Not) and isinstance(node.operand, ast.Name):
                # a bool among the row's integers: True = 1, False = 0
                return f"(if (!{lv(node.operand.id)}) then 1 else 0)"
            raise U("row element " + unp(node)[:30])

        gens = {}

        def generator(fname):
            fn = find_func(tree, "PyPNGImage." + fname)
            need([a.arg for a in fn.args.args] == ["self"], "signature of " + fname)
            lt = ListTr(trn, {"self.modules": "modules"}, elem)

            def block(stmts, lt):
                parts = []
                for s in stmts:
                    if isinstance(s, ast.Expr) and isinstance(s.value, ast.YieldFrom):
                        c = call_of(s.value.value, None, 0)
                        f = unp(c.func)
                        need(f.startswith("self.") and f[5:] in gens, "yield from " + f)
                        parts.append(gens[f[5:]])
                    elif isinstance(s, ast.Expr) and isinstance(s.value, ast.Yield) and s.value.value is not None:
                        parts.append(f"[{lt.item(s.value.value)}]")
                    elif isinstance(s, ast.Assign) and len(s.targets) == 1 and isinstance(s.targets[0], ast.Name):
                        lt.env[s.targets[0].id] = lt.lst(s.value)
                    elif isinstance(s, ast.For) and isinstance(s.target, ast.Name) and not s.orelse:
                        v = s.target.id
                        if is_range(s.iter):
                            need(len(s.iter.args) == 1, "range with a start")
                            inner = ListTr(trn, {k: x for k, x in lt.env.items() if k != v}, elem)
                            parts.append(f"((List.range {trn.num(s.iter.args[0])}).flatMap fun ({lv(v)} : Nat) => {block(s.body, inner)})")
                        else:
                            it = lt.lst(s.iter)
                            inner = ListTr(trn, dict(lt.env, **{v: lv(v)}), elem)
                            parts.append(f"({it}.flatMap fun {lv(v)} => {block(s.body, inner)})")
                    else:
                        raise U(f"statement of {fname}: " + unp(s)[:50])
                return "(" + " ++ ".join(parts) + ")" if parts else "[]"
            return block(strip_doc(fn.body), lt)

        out = []
        b = generator("border_rows_iter")
        out.append(f"def pypng_border_rows (width border boxSize : Nat) : List (List Nat) := {b}")
        gens["border_rows_iter"] = "(pypng_border_rows width border boxSize)"
        r = generator("rows_iter")
        out.append(f"def pypng_rows (modules : List (List Bool)) (width border boxSize : Nat) : List (List Nat) := {r}")
        # new_image: PngWriter(self.pixel_size, self.pixel_size, greyscale=True, bitdepth=1)
        fn = find_func(tree, "PyPNGImage.new_image")
        ret = strip_doc(fn.body)[-1]
        need(isinstance(ret, ast.Return), "new_image does not end in a return")
        c = call_of(ret.value, None, 2, kw=("greyscale", "bitdepth"))
        g = kwarg(c, "greyscale")
        need(isinstance(g, ast.Constant) and isinstance(g.value, bool), "greyscale is not a Boolean literal")
        out.append(f"def pypng_writer : String := {lean_str(imported_as(tree, unp(c.func)))}")
        out.append(f"def pypng_writer_args (pixelSize : Nat) : Nat × Nat × Bool × Nat := ({trn.num(c.args[0])}, {trn.num(c.args[1])}, "
                   f"{'true' if g.value else 'false'}, {trn.num(kwarg(c, 'bitdepth'))})")
        # save: self._img.write(stream, self.rows_iter())
        fn = find_func(tree, "PyPNGImage.save")
        c = call_of(strip_doc(fn.body)[-1], None, 2)
        out.append(f"def pypng_save_call : String := {lean_str(unp(c))}")
        return "\n".join(out)
    api.emit("pypng", pypng)

    def pixel_size():
        fn = find_func(ibase, "BaseImage.__init__")
        tr = TrB({}, "Nat")
        params = [a.arg for a in fn.args.args]
        found = None
        for s in strip_doc(fn.body):
            if isinstance(s, ast.Assign) and len(s.targets) == 1 and isinstance(s.targets[0], ast.Attribute) and unp(s.targets[0].value) == "self":
                attr = s.targets[0].attr
                if attr == "pixel_size":
                    found = tr.num(s.value)
                    break
                # self.border = border ...: the attribute stands for the constructor's argument of the same position
                if isinstance(s.value, ast.Name) and s.value.id in params:
                    tr.env["self." + attr] = {"border": "border", "width": "width", "box_size": "boxSize"}.get(s.value.id) or None
                    need(tr.env["self." + attr] is not None, "unexpected constructor argument " + s.value.id)
        need(found is not None, "no assignment of self.pixel_size")
        need(params[:4] == ["self", "border", "width", "box_size"], "constructor parameters " + str(params))
        return f"def pixel_size (border width boxSize : Nat) : Nat := {found}"
    api.emit("pixel_size", pixel_size)

    # ------------------------------------------------------------------------------------------------ B6: SVG units / coords
    def svg_units():
        tree = api.parse("qrcode/image/svg.py")
        for n in ast.walk(tree):
            if isinstance(n, ast.Attribute) and n.attr in ("getcontext", "setcontext", "localcontext"):
                raise U("the module manipulates the decimal context: " + unp(n))
        fn = [f for f in find_func(tree, "SvgFragmentImage").body if isinstance(f, ast.FunctionDef) and f.name == "units"
              and not any(unp(d) == "overload" for d in f.decorator_list)]
        need(len(fn) == 1, "units definition")
        fn = fn[0]
        need([a.arg for a in fn.args.args] == ["self", "pixels", "text"] and len(fn.args.defaults) == 1
             and isinstance(fn.args.defaults[0], ast.Constant) and isinstance(fn.args.defaults[0].value, bool), "signature of units")
        body = strip_doc(fn.body)
        need(len(body) == 6, f"units has {len(body)} statements, expected 6")
        out = [f"def units_text_default : Bool := {'true' if fn.args.defaults[0].value else 'false'}"]

        def dec_exp(node):
            """Decimal("<literal>") -> minus its exponent (number of decimals the quantisation keeps)"""
            c = call_of(node, "Decimal", 1)
            need(isinstance(c.args[0], ast.Constant) and isinstance(c.args[0].value, str), "Decimal of a non-literal")
            try:
                t = decimal.Decimal(c.args[0].value).as_tuple()
            except Exception:  # noqa
                raise U("Decimal literal " + c.args[0].value)
            need(isinstance(t.exponent, int) and t.exponent <= 0, "quantum exponent")
            return -t.exponent
        # 0: units = Decimal(pixels) / 10
        s = body[0]
        need(isinstance(s, ast.Assign) and len(s.targets) == 1 and isinstance(s.targets[0], ast.Name) and isinstance(s.value, ast.BinOp)
             and isinstance(s.value.op, ast.Div) and unp(s.value.left) == "Decimal(pixels)" and isinstance(s.value.right, ast.Constant)
             and type(s.value.right.value) is int and s.value.right.value > 0, "pixel to unit conversion")
        var = s.targets[0].id
        out.append(f"def units_divisor : Nat := {s.value.right.value}")
        # 1: if not text: return units
        s = body[1]
        need(isinstance(s, ast.If) and not s.orelse and len(s.body) == 1 and isinstance(s.body[0], ast.Return) and unp(s.body[0].value) == var,
             "raw return")
        out.append(f"def units_raw_test (text : Bool) : Bool := {TrB({}, 'Nat', truth={'text': 'text'}).boolean(s.test)}")
        # 2: units = units.quantize(Decimal("0.001"))      (no rounding / context argument: the default context)
        s = body[2]
        need(isinstance(s, ast.Assign) and unp(s.targets[0]) == var, "quantisation")
        c = call_of(s.value, var + ".quantize", 1)
        out.append(f"def units_quantum_decimals : Nat := {dec_exp(c.args[0])}")
        out.append(f"def units_rounding : String := {lean_str(decimal.DefaultContext.rounding)}")
        # 3: context = decimal.Context(traps=[decimal.Inexact])
        s = body[3]
        need(isinstance(s, ast.Assign) and len(s.targets) == 1 and isinstance(s.targets[0], ast.Name), "cascade context")
        ctx = s.targets[0].id
        c = call_of(s.value, "decimal.Context", 0, kw=("traps",))
        tr_ = kwarg(c, "traps")
        need(isinstance(tr_, ast.List), "traps")
        out.append("def units_cascade_traps : List String := [" + ", ".join(lean_str(unp(e)) for e in tr_.elts) + "]")
        # 4: try: for d in (...): units = units.quantize(d, context=context)  except decimal.Inexact: pass
        s = body[4]
        need(isinstance(s, ast.Try) and len(s.body) == 1 and isinstance(s.body[0], ast.For) and len(s.handlers) == 1 and not s.orelse
             and not s.finalbody and len(s.handlers[0].body) == 1 and isinstance(s.handlers[0].body[0], ast.Pass)
             and s.handlers[0].type is not None, "cascade")
        lp = s.body[0]
        need(isinstance(lp.iter, (ast.Tuple, ast.List)) and isinstance(lp.target, ast.Name) and len(lp.body) == 1
             and isinstance(lp.body[0], ast.Assign) and unp(lp.body[0].targets[0]) == var, "cascade loop")
        q = call_of(lp.body[0].value, var + ".quantize", 1, kw=("context",))
        need(unp(q.args[0]) == lp.target.id and unp(kwarg(q, "context")) == ctx, "cascade quantisation")
        out.append("def units_cascade_decimals : List Nat := [" + ", ".join(str(dec_exp(e)) for e in lp.iter.elts) + "]")
        out.append(f"def units_cascade_except : String := {lean_str(unp(s.handlers[0].type))}")
        # 5: return f"{units}mm"
        s = body[5]
        need(isinstance(s, ast.Return) and isinstance(s.value, ast.JoinedStr) and len(s.value.values) == 2
             and isinstance(s.value.values[0], ast.FormattedValue) and unp(s.value.values[0].value) == var
             and s.value.values[0].conversion == -1 and s.value.values[0].format_spec is None
             and isinstance(s.value.values[1], ast.Constant), "formatted result")
        out.append(f"def units_suffix : String := {lean_str(s.value.values[1].value)}")
        return "\n".join(out)
    api.emit("svg_units", svg_units)

    def svg_root():
        tree = api.parse("qrcode/image/svg.py")
        out = []
        trn = TrB({"self.pixel_size": "pixelSize"}, "Nat")
        # SvgFragmentImage._svg: dimension = self.units(self.pixel_size); Element(tag, width=dimension, height=dimension, version=version)
        fn = find_func(tree, "SvgFragmentImage._svg")
        body = strip_doc(fn.body)
        asg = [s for s in body if isinstance(s, ast.Assign) and len(s.targets) == 1 and isinstance(s.targets[0], ast.Name)
               and isinstance(s.value, ast.Call) and unp(s.value.func) == "self.units"]
        need(len(asg) == 1, "dimension assignment")
        dim = asg[0].targets[0].id
        c = call_of(asg[0].value, "self.units", 1)
        out.append(f"def svg_dimension_arg (pixelSize : Nat) : Nat := {trn.num(c.args[0])}")
        ret = body[-1]
        need(isinstance(ret, ast.Return), "_svg return")
        e = call_of(ret.value, "ET.Element", 1, kw=("width", "height", "version", "**"))
        need(unp(kwarg(e, "width")) == dim and unp(kwarg(e, "height")) == dim, "width / height are not the dimension")
        out.append("def svg_root_attrs : List (String × String) := [" +
                   ", ".join(f"({lean_str(k.arg)}, {lean_str(unp(k.value))})" for k in e.keywords if k.arg) + "]")
        # SvgPathImage._svg: dimension = self.units(self.pixel_size, text=False); viewBox = "0 0 {d} {d}".format(d=dimension)
        fn = find_func(tree, "SvgPathImage._svg")
        test = strip_doc(fn.body)[0]
        need(isinstance(test, ast.If) and unp(test.test) == "viewBox is None" and len(test.body) == 2, "viewBox default")
        c = call_of(test.body[0].value, "self.units", 1, kw=("text",))
        need(unp(kwarg(c, "text")) == "False", "viewBox dimension is text")
        out.append(f"def svg_viewbox_arg (pixelSize : Nat) : Nat := {trn.num(c.args[0])}")
        f = call_of(test.body[1].value, None, 0, kw=("d",))
        need(isinstance(f.func, ast.Attribute) and f.func.attr == "format" and isinstance(f.func.value, ast.Constant)
             and unp(kwarg(f, "d")) == unp(test.body[0].targets[0]), "viewBox format")
        out.append(f"def svg_viewbox_format : String := {lean_str(f.func.value.value)}")
        # SvgImage._svg: if self.background: svg.append(ET.Element("rect", fill=self.background, x="0", y="0", width="100%", height="100%"))
        fn = find_func(tree, "SvgImage._svg")
        tests = [s for s in strip_doc(fn.body) if isinstance(s, ast.If)]
        need(len(tests) == 1 and len(tests[0].body) == 1 and not tests[0].orelse, "background test")
        out.append(f"def svg_background_test : String := {lean_str(unp(tests[0].test))}")
        ap = call_of(tests[0].body[0], None, 1)
        need(isinstance(ap.func, ast.Attribute) and ap.func.attr == "append", "background is not appended")
        e = call_of(ap.args[0], "ET.Element", 1, kw=("fill", "x", "y", "width", "height"))
        need(isinstance(e.args[0], ast.Constant), "background tag")
        out.append(f"def svg_background_tag : String := {lean_str(e.args[0].value)}")

        def attr_value(v):
            return v.value if isinstance(v, ast.Constant) and isinstance(v.value, str) else "<" + unp(v) + ">"
        out.append("def svg_background_attrs : List (String × String) := [" +
                   ", ".join(f"({lean_str(k.arg)}, {lean_str(attr_value(k.value))})" for k in e.keywords) + "]")
        # which factory has a background: the class attribute `background`, resolved along the bases defined in this module,
        # and whether its `_svg` chain contains the test above
        classes = {c.name: c for c in tree.body if isinstance(c, ast.ClassDef)}

        def mro(name):
            res = []
            while name in classes:
                res.append(name)
                bases = [unp(b) for b in classes[name].bases]
                need(len(bases) == 1, "multiple inheritance in " + name)
                name = bases[0]
            return res

        def class_attr(name, attr):
            for k in mro(name):
                for s in classes[k].body:
                    tgt = s.targets[0] if isinstance(s, ast.Assign) and len(s.targets) == 1 else s.target if isinstance(s, ast.AnnAssign) else None
                    if tgt is not None and isinstance(tgt, ast.Name) and tgt.id == attr and s.value is not None:
                        return s.value
            return None
        rows = []
        for k in ("SvgFragmentImage", "SvgImage", "SvgFillImage", "SvgPathImage", "SvgPathFillImage"):
            need(k in classes, "no class " + k)
            reaches = "SvgImage" in mro(k)
            for m in (mro(k) if reaches else []):
                if m == "SvgImage":
                    break
                sv = next((f for f in classes[m].body if isinstance(f, ast.FunctionDef) and f.name == "_svg"), None)
                if sv is not None:
                    need(any(isinstance(n, ast.Call) and unp(n.func) == "super()._svg" for n in ast.walk(sv)), m + "._svg does not chain up")
            v = class_attr(k, "background")
            need(v is None or isinstance(v, ast.Constant), "background of " + k)
            val = v.value if v is not None else None
            rows.append(f"({lean_str(k)}, {'true' if (reaches and bool(val)) else 'false'})")
        out.append("def svg_has_background : List (String × Bool) := [" + ", ".join(rows) + "]")
        return "\n".join(out)
    api.emit("svg_root", svg_root)

    def svg_drawers():
        tree = api.parse("qrcode/image/styles/moduledrawers/svg.py")
        out = []
        # ---- BaseSvgQRModuleDrawer.initialize: box_delta, box_size, box_half for size_ratio = num / den, as fractions
        #      (numerator, divisor) of 1/den pixels
        fn = find_func(tree, "BaseSvgQRModuleDrawer.initialize")
        metrics = {}

        def intval(node):
            if isinstance(node, ast.Constant) and type(node.value) is int and node.value >= 0:
                return str(node.value)
            if unp(node) in ("self.img.box_size", "Decimal(self.img.box_size)"):
                return "b"
            return None

        def sc(node):
            """(Lean numerator over the unit 1/den pixel, constant divisor)"""
            if intval(node) is not None:
                return f"({intval(node)} * den)", 1
            if unp(node) == "self.size_ratio":
                return "num", 1
            if isinstance(node, ast.Attribute) and unp(node.value) == "self" and node.attr in metrics:
                return metrics[node.attr]
            if isinstance(node, ast.BinOp) and isinstance(node.op, (ast.Add, ast.Sub)):
                (a, da), (b, db) = sc(node.left), sc(node.right)
                op = "+" if isinstance(node.op, ast.Add) else "-"
                if da == db:
                    return f"({a} {op} {b})", da
                return f"(({a} * {db}) {op} ({b} * {da}))", da * db
            if isinstance(node, ast.BinOp) and isinstance(node.op, ast.Mult):
                if intval(node.right) is not None:
                    a, da = sc(node.left)
                    return f"({a} * {intval(node.right)})", da
                if intval(node.left) is not None:
                    b, db = sc(node.right)
                    return f"({intval(node.left)} * {b})", db
                raise U("product of two non-integers " + unp(node)[:40])
            if isinstance(node, ast.BinOp) and isinstance(node.op, ast.Div):
                need(isinstance(node.right, ast.Constant) and type(node.right.value) is int and node.right.value > 0, "division by a non-constant")
                a, da = sc(node.left)
                return a, da * node.right.value
            raise U("drawer metric " + unp(node)[:40])
        for s in strip_doc(fn.body):
            if isinstance(s, ast.Assign) and len(s.targets) == 1 and isinstance(s.targets[0], ast.Attribute) and unp(s.targets[0].value) == "self":
                metrics[s.targets[0].attr] = sc(s.value)
            else:
                need(isinstance(s, ast.Expr) and isinstance(s.value, ast.Call) and unp(s.value.func) == "super().initialize",
                     "statement of initialize: " + unp(s)[:40])
        for k in ("box_delta", "box_size", "box_half"):
            need(k in metrics, "no assignment of self." + k)
            out.append(f"def svg_{k} (num den b : Nat) : Nat × Nat := ({metrics[k][0]}, {metrics[k][1]})")
        # ---- Coords and coords()
        cls = find_func(tree, "Coords")
        fields = [s.target.id for s in cls.body if isinstance(s, ast.AnnAssign) and isinstance(s.target, ast.Name)]
        need(len(fields) == 6 and [unp(b) for b in cls.bases] == ["NamedTuple"], "Coords fields")
        out.append("def svg_coords_fields : List String := [" + ", ".join(lean_str(f) for f in fields) + "]")
        fn = find_func(tree, "BaseSvgQRModuleDrawer.coords")
        need([a.arg for a in fn.args.args] == ["self", "box"], "signature of coords")
        body = strip_doc(fn.body)
        env = {"self.box_delta": "delta", "self.box_size": "size", "self.box_half": "half"}
        tr = TrB(env, "Nat")
        s = body[0]
        need(isinstance(s, ast.Assign) and isinstance(s.targets[0], ast.Tuple) and len(s.targets[0].elts) == 2 and unp(s.value) == "box[0]"
             and all(isinstance(e, ast.Name) for e in s.targets[0].elts), "unpacking of box[0]")
        env[s.targets[0].elts[0].id], env[s.targets[0].elts[1].id] = "px", "py"       # box[0] = (px, py)
        for s in body[1:-1]:
            need(isinstance(s, ast.Assign) and len(s.targets) == 1 and isinstance(s.targets[0], ast.Name), "statement of coords")
            env[s.targets[0].id] = tr.num(s.value)
        ret = body[-1]
        need(isinstance(ret, ast.Return), "coords return")
        c = call_of(ret.value, "Coords", 6)
        out.append("def svg_coords (px py delta size half : Nat) : Nat × Nat × Nat × Nat × Nat × Nat := (" +
                   ", ".join(tr.num(a) for a in c.args) + ")")
        # ---- the drawers: which coordinate goes into which attribute / path variable
        params = " ".join(fields) + " delta size half"

        def value_tr(extra):
            e = {"coords." + f: f for f in fields}
            e.update({"self.box_delta": "delta", "self.box_size": "size", "self.box_half": "half"})
            e.update(extra)
            t = TrB(e, "Nat")

            def units_call(args):
                need(len(args) == 1, "units arity")
                return t.num(args[0])
            t.calls["self.img.units"] = units_call
            return t

        def units_value(t, node):
            """self.img.units(e) / self.img.units(e, text=False): the length e (printing is `units`)"""
            if isinstance(node, ast.Call) and unp(node.func) == "self.img.units":
                need(len(node.args) == 1 and all(k.arg == "text" for k in node.keywords), "units call")
                return t.num(node.args[0])
            return t.num(node)

        def init_attrs(clsname):
            """attributes a drawer's initialize() computes with units(): name -> Lean value"""
            res = {}
            k = find_func(tree, clsname)
            ini = next((f for f in k.body if isinstance(f, ast.FunctionDef) and f.name == "initialize"), None)
            if ini is not None:
                t = value_tr({})
                for s in strip_doc(ini.body):
                    if isinstance(s, ast.Assign) and len(s.targets) == 1 and isinstance(s.targets[0], ast.Attribute) and unp(s.targets[0].value) == "self" \
                            and isinstance(s.value, ast.Call) and unp(s.value.func) == "self.img.units":
                        res["self." + s.targets[0].attr] = units_value(t, s.value)
            return res

        def element(clsname, lean):
            k = find_func(tree, clsname)
            el = next((f for f in k.body if isinstance(f, ast.FunctionDef) and f.name == "el"), None)
            need(el is not None, clsname + ".el")
            body = strip_doc(el.body)
            need(len(body) == 2 and unp(body[0]) == "coords = self.coords(box)" and isinstance(body[1], ast.Return), clsname + ".el shape")
            e = call_of(body[1].value, "ET.Element", 1, kw=tuple(kw.arg for kw in body[1].value.keywords))
            need(unp(e.args[0]) == "self.tag_qname", "element tag")
            tag = None
            for base in (clsname, "SvgQRModuleDrawer"):
                for s in find_func(tree, base).body:
                    if tag is None and isinstance(s, ast.Assign) and unp(s.targets[0]) == "tag" and isinstance(s.value, ast.Constant):
                        tag = s.value.value
            need(tag is not None, "tag of " + clsname)
            t = value_tr(init_attrs(clsname))
            out.append(f"def svg_{lean}_tag : String := {lean_str(tag)}")
            out.append(f"def svg_{lean}_attrs : List String := [" + ", ".join(lean_str(kw.arg) for kw in e.keywords) + "]")
            out.append(f"def svg_{lean}_el ({params} : Nat) : List Nat := [" + ", ".join(units_value(t, kw.value) for kw in e.keywords) + "]")
        element("SvgSquareDrawer", "square")
        element("SvgCircleDrawer", "circle")

        def subpath(clsname, lean):
            fn = find_func(tree, clsname + ".subpath")
            body = strip_doc(fn.body)
            need(len(body) >= 2 and unp(body[0]) == "coords = self.coords(box)" and isinstance(body[-1], ast.Return)
                 and isinstance(body[-1].value, ast.JoinedStr), clsname + ".subpath shape")
            t = value_tr({})
            vars_ = []
            for s in body[1:-1]:
                need(isinstance(s, ast.Assign) and len(s.targets) == 1 and isinstance(s.targets[0], ast.Name) and isinstance(s.value, ast.Call)
                     and unp(s.value.func) == "self.img.units" and [unp(k.value) for k in s.value.keywords if k.arg == "text"] == ["False"],
                     "path variable " + unp(s)[:40])
                vars_.append((s.targets[0].id, units_value(t, s.value)))
            parts = []
            for v in body[-1].value.values:
                if isinstance(v, ast.Constant):
                    parts.append(v.value)
                else:
                    need(isinstance(v, ast.FormattedValue) and isinstance(v.value, ast.Name) and v.conversion == -1 and v.format_spec is None
                         and v.value.id in dict(vars_), "path template")
                    parts.append("{" + v.value.id + "}")
            out.append(f"def svg_{lean}_template : List String := [" + ", ".join(lean_str(p) for p in parts) + "]")
            out.append(f"def svg_{lean}_vars ({params} : Nat) : List (String × Nat) := [" +
                       ", ".join(f"({lean_str(n)}, {v})" for n, v in vars_) + "]")
        subpath("SvgPathSquareDrawer", "path_square")
        subpath("SvgPathCircleDrawer", "path_circle")
        return "\n".join(out)
    api.emit("svg_drawers", svg_drawers)
