"""T2 fragments D5: the six Pillow module drawers of qrcode/image/styles/moduledrawers/pil.py (geometry of what each drawer
paints), `StyledPilImage.init_new_image / process / save` (statement skeletons) and the colour-mask constructors /
`initialize`s of qrcode/image/styles/colormasks.py.

Everything is read from the Python AST on every run; every generated name starts with `dr_`.

Conventions (repeated in the generated doc comments):
  * `self.img.box_size`, `box[i][j]` are Python ints (Lean `Int`); the constructor ratios (`size_ratio`, `radius_ratio`,
    `horizontal_shrink`, `vertical_shrink`) are real numbers (Lean `Rat`, exact arithmetic assumed for the float products);
  * `int(a / b)` with int-typed a, b is `Int.tdiv a b`; `int(real)` is `dr_pyInt` (truncation toward zero);
  * each straight-line function (`initialize`, `setup_*`) becomes five definitions:
      `_ints`  : the int-valued assignments  (target, value) in statement order,
      `_reals` : the real-valued assignments,
      `_stamps`: the images it builds (target, (width, height), how),
      `_draws` : the `ellipse` / `rectangle` calls with numeric coordinates (callee, coordinates, fill),
      `_order` : kind and target of every statement, in order; `_other`: full text of the statements that are not arithmetic;
  * `drawrect` becomes a function to `List dr_Op` (the `rectangle` / `paste` calls it makes, in order).
"""
import ast
import fractions


def fragments(api):
    U = api.Untranslatable
    find_func, strip_doc = api.find_func, api.strip_doc

    def need(cond, why):
        if not cond:
            raise U(why)

    def unp(node):
        return ast.unparse(node)

    def lean_str(s):
        out = []
        for ch in s:
            o = ord(ch)
            if ch == '"':
                out.append('\\"')
            elif ch == "\\":
                out.append("\\\\")
            elif ch == "\n":
                out.append("\\n")
            elif o < 0x20 or o == 0x7F:
                out.append("\\x%02x" % o)
            elif o > 0x7E:
                out.append("\\u{%x}" % o)
            else:
                out.append(ch)
        return '"' + "".join(out) + '"'

    def str_list(xs):
        return "[" + ", ".join(lean_str(x) for x in xs) + "]"

    def is_int(node):
        return isinstance(node, ast.Constant) and isinstance(node.value, int) and not isinstance(node.value, bool)

    def name_of(node):
        if isinstance(node, ast.Name):
            return node.id
        if isinstance(node, ast.Attribute):
            return name_of(node.value) + "." + node.attr
        raise U("unsupported name " + unp(node)[:50])

    def is_path(node):
        try:
            name_of(node)
            return True
        except U:
            return False

    def ident(pyname):
        return pyname.replace(".", "_")

    PIL = "qrcode/image/styles/moduledrawers/pil.py"

    # ----------------------------------------------------------------------------------------------------------------------
    # typed arithmetic: ("int", term) | ("real", term) | ("quot", (a, b)) | ("tuple", [(type, term), ...])
    class Geo:
        def __init__(self, env):
            self.env = dict(env)

        def ex(self, node):
            if is_int(node):
                return ("int", f"({node.value} : Int)")
            if isinstance(node, ast.Constant) and isinstance(node.value, float):
                fr = fractions.Fraction(node.value)
                return ("real", f"(({fr.numerator} : Rat) / {fr.denominator})")
            if isinstance(node, (ast.Name, ast.Attribute)):
                n = name_of(node)
                if n in self.env:
                    return self.env[n]
                raise U("free name " + n)
            if isinstance(node, ast.Subscript):
                k = unp(node)
                if k in self.env:
                    return self.env[k]
                raise U("subscript " + k)
            if isinstance(node, ast.UnaryOp) and isinstance(node.op, ast.USub):
                t, e = self.ex(node.operand)
                need(t in ("int", "real"), "negation of a non-number")
                return (t, f"(-{e})")
            if isinstance(node, ast.Tuple):
                return ("tuple", [self.value(e) for e in node.elts])
            if isinstance(node, ast.BinOp):
                (ta, a), (tb, b) = self.ex(node.left), self.ex(node.right)
                need(ta in ("int", "real") and tb in ("int", "real"), "arithmetic on a non-number")
                if isinstance(node.op, (ast.Add, ast.Sub, ast.Mult)):
                    op = {ast.Add: "+", ast.Sub: "-", ast.Mult: "*"}[type(node.op)]
                    if ta == "int" and tb == "int":
                        return ("int", f"({a} {op} {b})")
                    return ("real", f"({self.real(ta, a)} {op} {self.real(tb, b)})")
                if isinstance(node.op, ast.Div):
                    if ta == "int" and tb == "int":
                        return ("quot", (a, b))                      # only meaningful under int(...)
                    return ("real", f"({self.real(ta, a)} / {self.real(tb, b)})")
                raise U("operator " + type(node.op).__name__)
            if isinstance(node, ast.Call) and isinstance(node.func, ast.Name) and node.func.id == "int" and len(node.args) == 1 and not node.keywords:
                t, e = self.ex(node.args[0])
                if t == "int":
                    return ("int", e)
                if t == "quot":
                    return ("int", f"(Int.tdiv {e[0]} {e[1]})")
                if t == "real":
                    return ("int", f"(dr_pyInt {e})")
                raise U("int() of a tuple")
            raise U("expression " + unp(node)[:60])

        def real(self, t, e):
            return e if t == "real" else f"(({e} : Int) : Rat)"

        def value(self, node):
            t, e = self.ex(node)
            need(t != "quot", "true division of ints outside int(...): " + unp(node)[:40])
            return t, e

        def as_real(self, node):
            t, e = self.value(node)
            need(t in ("int", "real"), "number expected: " + unp(node)[:40])
            return self.real(t, e)

        def as_int(self, node):
            t, e = self.value(node)
            need(t == "int", "int expected: " + unp(node)[:40])
            return e

    LTY = {"int": "Int", "real": "Rat"}

    # ----------------------------------------------------------------------------------------------------------------------
    def module_const(tree, name):
        st = [s for s in tree.body if isinstance(s, ast.Assign) and any(isinstance(t, ast.Name) and t.id == name for t in s.targets)]
        need(len(st) == 1 and len(st[0].targets) == 1 and is_int(st[0].value), f"module constant {name}")
        for n in ast.walk(tree):
            if isinstance(n, (ast.Assign, ast.AugAssign, ast.AnnAssign)) and n is not st[0]:
                tg = n.targets if isinstance(n, ast.Assign) else [n.target]
                need(not any(isinstance(x, ast.Name) and x.id == name for t in tg for x in ast.walk(t)), f"{name} is assigned twice")
        return st[0].value.value

    def cls_of(tree, cname):
        c = [s for s in tree.body if isinstance(s, ast.ClassDef) and s.name == cname]
        need(len(c) == 1, "class " + cname)
        return c[0]

    def class_attr(cls, name):
        st = [s for s in cls.body if isinstance(s, ast.Assign) and len(s.targets) == 1 and isinstance(s.targets[0], ast.Name) and s.targets[0].id == name]
        return st[-1].value if st else None

    def prelude():
        tree = api.parse(PIL)
        k = module_const(tree, "ANTIALIASING_FACTOR")
        main = api.trees["main"]
        awn = cls_of(main, "ActiveWithNeighbors")
        fields = [s.target.id for s in awn.body if isinstance(s, ast.AnnAssign) and isinstance(s.target, ast.Name)]
        need(all(unp(s.annotation) == "bool" for s in awn.body if isinstance(s, ast.AnnAssign)), "ActiveWithNeighbors field types")
        need(len(fields) == len(set(fields)) and fields, "ActiveWithNeighbors fields")
        fns = [s for s in awn.body if isinstance(s, ast.FunctionDef)]
        need(len(fns) == 1 and fns[0].name == "__bool__" and len(fns[0].body) == 1 and isinstance(fns[0].body[0], ast.Return), "ActiveWithNeighbors.__bool__")
        rv = fns[0].body[0].value
        need(isinstance(rv, ast.Attribute) and unp(rv.value) == "self" and rv.attr in fields, "__bool__ does not return a field")
        need(len(awn.body) == len(fields) + 1, "ActiveWithNeighbors has other members")
        # the base drawer's defaults
        base = api.parse("qrcode/image/styles/moduledrawers/base.py")
        bcls = cls_of(base, "QRModuleDrawer")
        nn = class_attr(bcls, "needs_neighbors")
        need(isinstance(nn, ast.Constant) and isinstance(nn.value, bool), "QRModuleDrawer.needs_neighbors")
        binit = find_func(base, "QRModuleDrawer.initialize")
        bb = strip_doc(binit.body)
        need(len(bb) == 1 and unp(bb[0]) == "self.img = img", "QRModuleDrawer.initialize is not `self.img = img`")
        return ("/-- Python `int(x)` of a real number: truncation toward zero -/\n"
                "def dr_pyInt (q : Rat) : Int := if q ≥ 0 then q.floor else -((-q).floor)\n"
                "/-- `qrcode.main.ActiveWithNeighbors` (fields in source order) -/\n"
                f"structure dr_Active where\n  ({' '.join(fields)} : Bool)\nderiving DecidableEq, Repr\n"
                "/-- `ActiveWithNeighbors.__bool__` -/\n"
                f"def dr_Active.truth (self : dr_Active) : Bool := self.{rv.attr}\n"
                f"def dr_Active_fields : List String := {str_list(fields)}\n"
                "/-- a pixel box `[(x0, y0), (x1, y1)]` as returned by `pixel_box` -/\n"
                "abbrev dr_Box := (Int × Int) × (Int × Int)\n"
                "/-- what `drawrect` does to the image: `rectangle(xy, fill=..)` (xy = x0, y0, x1, y1) or `paste(stamp, (x, y))` -/\n"
                "inductive dr_Op where\n"
                "  | rectangle (callee : String) (xy : Rat × Rat × Rat × Rat) (fill : String)\n"
                "  | paste (callee : String) (stamp : String) (pos : Int × Int)\nderiving DecidableEq, Repr\n"
                f"def dr_ANTIALIASING_FACTOR : Int := {k}\n"
                f"def dr_base_needs_neighbors : Bool := {'true' if nn.value else 'false'}\n"
                f"def dr_base_initialize : List String := {str_list([unp(s) for s in bb])}")
    api.emit("dr_prelude", prelude)

    # ----------------------------------------------------------------------------------------------------------------------
    # transposes that keep / swap the size
    KEEP = {"Image.Transpose.FLIP_TOP_BOTTOM", "Image.Transpose.FLIP_LEFT_RIGHT", "Image.Transpose.ROTATE_180"}
    SWAP = {"Image.Transpose.ROTATE_90", "Image.Transpose.ROTATE_270", "Image.Transpose.TRANSPOSE", "Image.Transpose.TRANSVERSE"}

    def straight(prefix, fn, params, env0, first=None, last=None):
        """a straight-line function -> the five definitions.  params: [(lean name, lean type)], env0: python name -> (type, term)"""
        body = strip_doc(fn.body)
        need(not fn.decorator_list, "decorated")
        geo = Geo(env0)
        lets, ints, reals, stamps, draws, order, other = [], [], [], [], [], [], []
        sizes = {}                 # python target -> (w term, h term)
        handles = {}               # draw handle name -> image name
        if first is not None:
            need(body and unp(body[0]) == first, f"first statement is not `{first}`")
            order.append("call:" + first)
            other.append(first)
            body = body[1:]
        if last is not None:
            need(body and unp(body[-1]) == last, f"last statement is not `{last}`")
        tail = [body[-1]] if last is not None else []
        body = body[:-1] if last is not None else body

        def size_of(node):
            need(isinstance(node, ast.Tuple) and len(node.elts) == 2, "size is not a pair: " + unp(node)[:40])
            return (geo.as_int(node.elts[0]), geo.as_int(node.elts[1]))

        def draw_call(call):
            """`<handle>.ellipse|rectangle((a, b, c, d), fill=colour)`; handle = a name bound to ImageDraw.Draw(X) or ImageDraw.Draw(X) itself"""
            need(isinstance(call.func, ast.Attribute) and call.func.attr in ("ellipse", "rectangle"), "call " + unp(call)[:50])
            h = call.func.value
            if isinstance(h, ast.Call):
                need(unp(h.func) == "ImageDraw.Draw" and len(h.args) == 1 and not h.keywords and is_path(h.args[0]), "draw handle " + unp(h)[:40])
                target = name_of(h.args[0])
            else:
                need(is_path(h) and name_of(h) in handles, "unknown draw handle " + unp(h)[:40])
                target = handles[name_of(h)]
            need(target in sizes, "drawing on an unknown image " + target)
            need(len(call.args) == 1 and len(call.keywords) == 1 and call.keywords[0].arg == "fill" and is_path(call.keywords[0].value), "draw arguments")
            t, xs = geo.value(call.args[0])
            need(t == "tuple" and len(xs) == 4 and all(x[0] in ("int", "real") for x in xs), "draw coordinates")
            coords = ", ".join(geo.real(*x) for x in xs)
            draws.append(f"({lean_str(target + '.' + call.func.attr)}, [{coords}], {lean_str(name_of(call.keywords[0].value))})")
            order.append("draw:" + target + "." + call.func.attr)

        for s in body:
            if isinstance(s, ast.Assign):
                need(len(s.targets) == 1 and is_path(s.targets[0]), "assignment target " + unp(s)[:40])
                tgt = name_of(s.targets[0])
                need(tgt.count(".") == 0 or (tgt.startswith("self.") and tgt.count(".") == 1), "assignment target " + tgt)
                v = s.value
                # images
                if isinstance(v, ast.Call) and unp(v.func) == "Image.new":
                    need(len(v.args) == 3 and not v.keywords and is_path(v.args[0]) and is_path(v.args[2]), "Image.new arguments")
                    w, h = size_of(v.args[1])
                    sizes[tgt] = (w, h)
                    stamps.append(f"({lean_str(tgt)}, ({w}, {h}), {lean_str('Image.new(' + name_of(v.args[0]) + ', ' + name_of(v.args[2]) + ')')})")
                    order.append("image:" + tgt)
                    continue
                if isinstance(v, ast.Call) and isinstance(v.func, ast.Attribute) and v.func.attr == "resize":
                    need(is_path(v.func.value) and name_of(v.func.value) in sizes, "resize of an unknown image")
                    need(len(v.args) == 2 and not v.keywords and is_path(v.args[1]), "resize arguments")
                    w, h = size_of(v.args[0])
                    sizes[tgt] = (w, h)
                    stamps.append(f"({lean_str(tgt)}, ({w}, {h}), {lean_str(name_of(v.func.value) + '.resize(' + name_of(v.args[1]) + ')')})")
                    order.append("image:" + tgt)
                    continue
                if isinstance(v, ast.Call) and isinstance(v.func, ast.Attribute) and v.func.attr == "transpose":
                    need(is_path(v.func.value) and name_of(v.func.value) in sizes, "transpose of an unknown image")
                    need(len(v.args) == 1 and not v.keywords and is_path(v.args[0]), "transpose arguments")
                    kind = name_of(v.args[0])
                    need(kind in KEEP or kind in SWAP, "transpose kind " + kind)
                    w, h = sizes[name_of(v.func.value)]
                    if kind in SWAP:
                        w, h = h, w
                    sizes[tgt] = (w, h)
                    stamps.append(f"({lean_str(tgt)}, ({w}, {h}), {lean_str(name_of(v.func.value) + '.transpose(' + kind + ')')})")
                    order.append("image:" + tgt)
                    continue
                if isinstance(v, ast.Call) and unp(v.func) == "ImageDraw.Draw":
                    need(len(v.args) == 1 and not v.keywords and is_path(v.args[0]), "ImageDraw.Draw arguments")
                    handles[tgt] = name_of(v.args[0])
                    if name_of(v.args[0]) not in sizes:
                        need(name_of(v.args[0]) == "self.img._img", "draw handle on " + name_of(v.args[0]))
                        sizes["self.img._img"] = ("0", "0")
                    order.append("handle:" + tgt)
                    other.append(unp(s))
                    continue
                # arithmetic
                try:
                    t, e = geo.value(v)
                    need(t in ("int", "real"), "tuple-valued assignment")
                except U as err:
                    if is_path(v):                                        # alias: mode = self.img.mode
                        need(tgt not in geo.env, "alias shadows a number")
                        order.append("alias:" + tgt)
                        other.append(unp(s))
                        continue
                    raise U(f"{tgt} = {unp(v)[:40]}: {err}")
                need(tgt not in sizes and tgt not in handles, "number stored over an image")
                lets.append(f"  let {ident(tgt)} : {LTY[t]} := {e}")
                geo.env[tgt] = (t, ident(tgt))
                (ints if t == "int" else reals).append(f"({lean_str(tgt)}, {ident(tgt)})")
                order.append(t + ":" + tgt)
                continue
            if isinstance(s, ast.Expr) and isinstance(s.value, ast.Call):
                draw_call(s.value)
                continue
            raise U("statement " + unp(s)[:50])
        for s in tail:
            order.append("call:" + unp(s))
            other.append(unp(s))
        ps = " ".join(f"({n} : {t})" for n, t in params)
        L = "\n".join(lets)
        L = L + "\n" if L else ""
        return (f"def {prefix}_ints {ps} : List (String × Int) :=\n{L}  [{', '.join(ints)}]\n"
                f"def {prefix}_reals {ps} : List (String × Rat) :=\n{L}  [{', '.join(reals)}]\n"
                f"def {prefix}_stamps {ps} : List (String × (Int × Int) × String) :=\n{L}  [{', '.join(stamps)}]\n"
                f"def {prefix}_draws {ps} : List (String × List Rat × String) :=\n{L}  [{', '.join(draws)}]\n"
                f"def {prefix}_order : List String := {str_list(order)}\n"
                f"def {prefix}_other : List String := {str_list(other)}")

    SUPER_INIT = "super().initialize(*args, **kwargs)"

    def check_args(fn, names, star=False):
        a = fn.args
        got = [x.arg for x in a.args]
        need(got == names and not a.kwonlyargs and not a.posonlyargs, f"{fn.name}: arguments {got}")
        if star:
            need(a.vararg is not None and a.vararg.arg == "args" and a.kwarg is not None and a.kwarg.arg == "kwargs", f"{fn.name}: *args/**kwargs")
        else:
            need(a.vararg is None and a.kwarg is None, f"{fn.name}: star arguments")

    def ctor(prefix, cname, attr):
        """`def __init__(self, <attr>=<default>): self.<attr> = <attr>`"""
        tree = api.parse(PIL)
        fn = find_func(tree, cname + ".__init__")
        check_args(fn, ["self", attr])
        body = strip_doc(fn.body)
        need(len(body) == 1 and unp(body[0]) == f"self.{attr} = {attr}", "body is not one store of the argument")
        need(len(fn.args.defaults) == 1, "default")
        d = fn.args.defaults[0]
        need(isinstance(d, ast.Constant) and isinstance(d.value, (int, float)) and not isinstance(d.value, bool), "default is not a number")
        fr = fractions.Fraction(d.value)
        return (f"/-- `{cname}.__init__`: `self.{attr}` after construction (`none`: argument omitted); the default is the exact value of the literal `{unp(d)}` -/\n"
                f"def {prefix}_init ({attr} : Option Rat) : Rat := match {attr} with | none => (({fr.numerator} : Rat) / {fr.denominator}) | some {attr} => {attr}\n"
                f"def {prefix}_init_attr : String := {lean_str('self.' + attr)}")

    # ----------------------------------------------------------------------------------------------------------------------
    # drawrect
    def drawrect(prefix, cname, self_env, params):
        tree = api.parse(PIL)
        cls = cls_of(tree, cname)
        nn = class_attr(cls, "needs_neighbors")
        if nn is None:
            neighbours = None
        else:
            need(isinstance(nn, ast.Constant) and isinstance(nn.value, bool), "needs_neighbors")
            neighbours = nn.value
        fn = find_func(tree, cname + ".drawrect")
        check_args(fn, ["self", "box", "is_active"])
        body = strip_doc(fn.body)
        if neighbours:
            truth = "(dr_Active.truth is_active)"
            aty = "dr_Active"
        else:
            truth = "is_active"
            aty = "Bool"

        def boolean(node, benv):
            if isinstance(node, ast.BoolOp):
                op = " && " if isinstance(node.op, ast.And) else " || "
                return "(" + op.join(boolean(v, benv) for v in node.values) + ")"
            if isinstance(node, ast.UnaryOp) and isinstance(node.op, ast.Not):
                return f"(!{boolean(node.operand, benv)})"
            if isinstance(node, ast.Name) and node.id == "is_active":
                return truth
            if isinstance(node, ast.Name) and node.id in benv:
                return node.id
            if isinstance(node, ast.Attribute) and isinstance(node.value, ast.Name) and node.value.id == "is_active":
                need(neighbours, "neighbour flag of a plain bool")
                need(node.attr in fields(), "unknown flag " + node.attr)
                return f"is_active.{node.attr}"
            if isinstance(node, ast.Constant) and isinstance(node.value, bool):
                return "true" if node.value else "false"
            raise U("condition " + unp(node)[:50])

        # guard
        if len(body) == 1 and isinstance(body[0], ast.If):
            need(not body[0].orelse, "else branch")
            guard = boolean(body[0].test, {})
            stmts = body[0].body
            wrap = lambda b: f"  if {guard} then\n{b}\n  else []"
        else:
            need(len(body) >= 2 and isinstance(body[0], ast.If) and not body[0].orelse and len(body[0].body) == 1
                 and isinstance(body[0].body[0], ast.Return) and body[0].body[0].value is None, "neither `if ..: <draw>` nor `if ..: return` first")
            guard = boolean(body[0].test, {})
            stmts = body[1:]
            wrap = lambda b: f"  if {guard} then [] else\n{b}"
        env = {"box[0][0]": ("int", "box.1.1"), "box[0][1]": ("int", "box.1.2"), "box[1][0]": ("int", "box.2.1"), "box[1][1]": ("int", "box.2.2")}
        env.update(self_env)
        geo = Geo(env)
        benv, senv, tenv = set(), set(), {}
        lets, ops = [], []
        for s in stmts:
            if isinstance(s, ast.Assign):
                need(len(s.targets) == 1 and isinstance(s.targets[0], ast.Name), "assignment target")
                tgt = s.targets[0].id
                need(tgt not in benv and tgt not in senv and tgt not in tenv and tgt not in ("box", "is_active", "self"), "name assigned twice: " + tgt)
                need(not ops, "assignment after a drawing call")
                v = s.value
                if isinstance(v, ast.IfExp):
                    need(is_path(v.body) and is_path(v.orelse), "stamp choice")
                    lets.append(f"    let {tgt} : String := if {boolean(v.test, benv)} then {lean_str(name_of(v.body))} else {lean_str(name_of(v.orelse))}")
                    senv.add(tgt)
                elif isinstance(v, ast.Tuple):
                    t, xs = geo.value(v)
                    need(len(xs) == 4 and all(x[0] in ("int", "real") for x in xs), "box tuple")
                    lets.append(f"    let {tgt} : Rat × Rat × Rat × Rat := ({', '.join(geo.real(*x) for x in xs)})")
                    tenv[tgt] = tgt
                else:
                    lets.append(f"    let {tgt} : Bool := {boolean(v, benv)}")
                    benv.add(tgt)
                continue
            need(isinstance(s, ast.Expr) and isinstance(s.value, ast.Call) and isinstance(s.value.func, ast.Attribute), "statement " + unp(s)[:50])
            c = s.value
            callee = name_of(c.func)
            if c.func.attr == "paste":
                need(len(c.args) == 2 and not c.keywords, "paste arguments")
                st, pos = c.args
                if isinstance(st, ast.Name) and st.id in senv:
                    stamp = st.id
                else:
                    need(is_path(st) and name_of(st).startswith("self."), "pasted object " + unp(st)[:40])
                    stamp = lean_str(name_of(st))
                need(isinstance(pos, ast.Tuple) and len(pos.elts) == 2, "paste position")
                ops.append(f"dr_Op.paste {lean_str(callee)} {stamp} ({geo.as_int(pos.elts[0])}, {geo.as_int(pos.elts[1])})")
            elif c.func.attr == "rectangle":
                need(len(c.args) == 1 and len(c.keywords) == 1 and c.keywords[0].arg == "fill" and is_path(c.keywords[0].value), "rectangle arguments")
                a = c.args[0]
                if isinstance(a, ast.Name) and a.id == "box":
                    xy = "(((box.1.1 : Int) : Rat), ((box.1.2 : Int) : Rat), ((box.2.1 : Int) : Rat), ((box.2.2 : Int) : Rat))"
                elif isinstance(a, ast.Name) and a.id in tenv:
                    xy = a.id
                else:
                    t, xs = geo.value(a)
                    need(t == "tuple" and len(xs) == 4 and all(x[0] in ("int", "real") for x in xs), "rectangle coordinates")
                    xy = "(" + ", ".join(geo.real(*x) for x in xs) + ")"
                ops.append(f"dr_Op.rectangle {lean_str(callee)} {xy} {lean_str(name_of(c.keywords[0].value))}")
            else:
                raise U("call " + unp(c)[:50])
        need(ops, "draws nothing")
        ps = " ".join(f"({n} : {t})" for n, t in params)
        b = "\n".join(lets) + ("\n" if lets else "") + "    [" + ",\n     ".join(ops) + "]"
        nn_txt = "none" if neighbours is None else ("some true" if neighbours else "some false")
        return (f"/-- `{cname}.drawrect`: the drawing calls, in order (a whole `box` passed to `rectangle` is flattened to x0, y0, x1, y1) -/\n"
                f"def {prefix}_drawrect {ps} (box : dr_Box) (is_active : {aty}) : List dr_Op :=\n{wrap(b)}\n"
                f"/-- the class attribute `needs_neighbors` (`none`: inherited) -/\n"
                f"def {prefix}_needs_neighbors : Option Bool := {nn_txt}")

    _fields = {}

    def fields():
        if "f" not in _fields:
            awn = cls_of(api.trees["main"], "ActiveWithNeighbors")
            _fields["f"] = [s.target.id for s in awn.body if isinstance(s, ast.AnnAssign) and isinstance(s.target, ast.Name)]
        return _fields["f"]

    def only_methods(cname, names):
        """the class defines exactly these methods (an extra override, e.g. of drawrect_context, would change behaviour)"""
        cls = cls_of(api.parse(PIL), cname)
        got = [s.name for s in cls.body if isinstance(s, (ast.FunctionDef, ast.AsyncFunctionDef))]
        need(got == names, f"{cname}: methods {got}")
        need(len(cls.bases) == 1 and unp(cls.bases[0]) == "StyledPilQRModuleDrawer", f"{cname}: bases")
        for s in cls.body:
            need(isinstance(s, (ast.FunctionDef, ast.Assign, ast.AnnAssign)) or (isinstance(s, ast.Expr) and isinstance(s.value, ast.Constant)), f"{cname}: member {unp(s)[:30]}")

    BS = {"self.img.box_size": ("int", "box_size")}

    def init_fn(cname, star=True):
        fn = find_func(api.parse(PIL), cname + ".initialize")
        check_args(fn, ["self"], star=True)
        return fn

    # ---- SquareModuleDrawer
    def square():
        only_methods("SquareModuleDrawer", ["initialize", "drawrect"])
        a = straight("dr_square_initialize", init_fn("SquareModuleDrawer"), [("box_size", "Int")], BS, first=SUPER_INIT)
        b = drawrect("dr_square", "SquareModuleDrawer", {}, [])
        return a + "\n" + b
    api.emit("dr_square", square)

    # ---- GappedSquareModuleDrawer
    def gapped():
        only_methods("GappedSquareModuleDrawer", ["__init__", "initialize", "drawrect"])
        c = ctor("dr_gapped", "GappedSquareModuleDrawer", "size_ratio")
        env = dict(BS)
        env["self.size_ratio"] = ("real", "size_ratio")
        a = straight("dr_gapped_initialize", init_fn("GappedSquareModuleDrawer"), [("box_size", "Int"), ("size_ratio", "Rat")], env, first=SUPER_INIT)
        b = drawrect("dr_gapped", "GappedSquareModuleDrawer", {"self.delta": ("real", "self_delta")}, [("self_delta", "Rat")])
        return c + "\n" + a + "\n" + b
    api.emit("dr_gapped", gapped)

    # ---- CircleModuleDrawer
    def circle():
        only_methods("CircleModuleDrawer", ["initialize", "drawrect"])
        env = dict(BS)
        env["ANTIALIASING_FACTOR"] = ("int", "dr_ANTIALIASING_FACTOR")
        a = straight("dr_circle_initialize", init_fn("CircleModuleDrawer"), [("box_size", "Int")], env, first=SUPER_INIT)
        b = drawrect("dr_circle", "CircleModuleDrawer", {}, [])
        cls = cls_of(api.parse(PIL), "CircleModuleDrawer")
        ca = class_attr(cls, "circle")
        need(ca is not None and unp(ca) == "None", "class attribute circle")
        return a + "\n" + b
    api.emit("dr_circle", circle)

    # ---- RoundedModuleDrawer
    def rounded():
        only_methods("RoundedModuleDrawer", ["__init__", "initialize", "setup_corners", "drawrect"])
        c = ctor("dr_rounded", "RoundedModuleDrawer", "radius_ratio")
        a = straight("dr_rounded_initialize", init_fn("RoundedModuleDrawer"), [("box_size", "Int")], BS, first=SUPER_INIT, last="self.setup_corners()")
        fn = find_func(api.parse(PIL), "RoundedModuleDrawer.setup_corners")
        check_args(fn, ["self"])
        env = {"self.corner_width": ("int", "self_corner_width"), "self.radius_ratio": ("real", "self_radius_ratio"),
               "ANTIALIASING_FACTOR": ("int", "dr_ANTIALIASING_FACTOR")}
        s = straight("dr_rounded_setup_corners", fn, [("self_corner_width", "Int"), ("self_radius_ratio", "Rat")], env)
        b = drawrect("dr_rounded", "RoundedModuleDrawer", {"self.corner_width": ("int", "self_corner_width")}, [("self_corner_width", "Int")])
        return c + "\n" + a + "\n" + s + "\n" + b
    api.emit("dr_rounded", rounded)

    # ---- VerticalBarsDrawer / HorizontalBarsDrawer
    def bars(prefix, cname, attr, half):
        def go():
            only_methods(cname, ["__init__", "initialize", "setup_edges", "drawrect"])
            c = ctor(prefix, cname, attr)
            env = dict(BS)
            env["self." + attr] = ("real", "self_" + attr)
            a = straight(prefix + "_initialize", init_fn(cname), [("box_size", "Int"), ("self_" + attr, "Rat")], env, first=SUPER_INIT, last="self.setup_edges()")
            fn = find_func(api.parse(PIL), cname + ".setup_edges")
            check_args(fn, ["self"])
            env2 = {"self." + half: ("int", "self_" + half), "self." + attr: ("real", "self_" + attr), "ANTIALIASING_FACTOR": ("int", "dr_ANTIALIASING_FACTOR")}
            s = straight(prefix + "_setup_edges", fn, [("self_" + half, "Int"), ("self_" + attr, "Rat")], env2)
            b = drawrect(prefix, cname, {"self." + half: ("int", "self_" + half), "self.delta": ("int", "self_delta")},
                         [("self_" + half, "Int"), ("self_delta", "Int")])
            return c + "\n" + a + "\n" + s + "\n" + b
        return go
    api.emit("dr_vbars", bars("dr_vbars", "VerticalBarsDrawer", "horizontal_shrink", "half_height"))
    api.emit("dr_hbars", bars("dr_hbars", "HorizontalBarsDrawer", "vertical_shrink", "half_width"))

    # ---- the public names of the drawers (what `module_drawer=` can be)
    def classes():
        tree = api.parse(PIL)
        names = [s.name for s in tree.body if isinstance(s, ast.ClassDef)]
        return f"def dr_pil_classes : List String := {str_list(names)}"
    api.emit("dr_classes", classes)

    # ----------------------------------------------------------------------------------------------------------------------
    # StyledPilImage.init_new_image / process / save: statement skeletons
    def styled_skeleton():
        tree = api.parse("qrcode/image/styledpil.py")
        fn = find_func(tree, "StyledPilImage.init_new_image")
        check_args(fn, ["self"])
        b = strip_doc(fn.body)
        need(len(b) == 2 and all(isinstance(s, ast.Expr) and isinstance(s.value, ast.Call) for s in b), "init_new_image: two calls")
        c0, c1 = b[0].value, b[1].value
        need(unp(c0.func) == "self.color_mask.initialize" and len(c0.args) == 2 and not c0.keywords, "init_new_image: first call")
        need(unp(c1) == "super().init_new_image()", "init_new_image: second call")
        # the base class: both drawers are initialised with the image
        ib = api.trees["image_base"]
        bfn = find_func(ib, "BaseImageWithDrawer.init_new_image")
        bb = strip_doc(bfn.body)
        need(len(bb) == 3 and isinstance(bb[2], ast.Return), "BaseImageWithDrawer.init_new_image shape")
        pfn = find_func(tree, "StyledPilImage.process")
        check_args(pfn, ["self"])
        pb = strip_doc(pfn.body)
        need(len(pb) == 2 and isinstance(pb[0], ast.Expr) and isinstance(pb[1], ast.If) and not pb[1].orelse and len(pb[1].body) == 1, "process shape")
        need(unp(pb[0].value.func) == "self.color_mask.apply_mask" and len(pb[0].value.args) == 1 and not pb[0].value.keywords, "process: first call")
        t = pb[1].test
        need(is_path(t), "process: test")
        sfn = find_func(tree, "StyledPilImage.save")
        check_args_save(sfn)
        sb = strip_doc(sfn.body)
        need(len(sb) == 3 and isinstance(sb[0], ast.If) and isinstance(sb[1], ast.If) and isinstance(sb[2], ast.Expr), "save shape")
        i0, i1 = sb[0], sb[1]
        need(not i0.orelse and len(i0.body) == 1 and isinstance(i0.body[0], ast.Assign) and unp(i0.body[0].targets[0]) == "format", "save: first if")
        need(isinstance(i0.test, ast.Compare) and len(i0.test.ops) == 1 and isinstance(i0.test.ops[0], ast.Is) and unp(i0.test.left) == "format"
             and unp(i0.test.comparators[0]) == "None", "save: first test")
        g = i0.body[0].value
        need(isinstance(g, ast.Call) and unp(g.func) == "kwargs.get" and len(g.args) == 2 and isinstance(g.args[0], ast.Constant) and is_path(g.args[1]), "save: default")
        need(not i1.orelse and len(i1.body) == 1 and isinstance(i1.body[0], ast.Delete) and len(i1.body[0].targets) == 1, "save: second if")
        need(isinstance(i1.test, ast.Compare) and len(i1.test.ops) == 1 and isinstance(i1.test.ops[0], ast.In) and isinstance(i1.test.left, ast.Constant)
             and unp(i1.test.comparators[0]) == "kwargs", "save: second test")
        d = i1.body[0].targets[0]
        need(isinstance(d, ast.Subscript) and unp(d.value) == "kwargs" and isinstance(d.slice, ast.Constant), "save: del")
        call = sb[2].value
        need(isinstance(call, ast.Call) and unp(call.func) == "self._img.save", "save: last call")
        kind = cls_of(tree, "StyledPilImage")
        kv = class_attr(kind, "kind")
        need(isinstance(kv, ast.Constant) and isinstance(kv.value, str), "class attribute kind")
        npv = class_attr(kind, "needs_processing")
        need(isinstance(npv, ast.Constant) and isinstance(npv.value, bool), "needs_processing")
        dd = class_attr(kind, "default_drawer_class")
        need(dd is not None and is_path(dd), "default_drawer_class")
        return ("/-- `StyledPilImage.init_new_image`: the colour mask is initialised first (callee, arguments), then the base class -/\n"
                f"def dr_spil_init_new_image : List (String × List String) := [({lean_str(unp(c0.func))}, {str_list([unp(a) for a in c0.args])}), ({lean_str(unp(c1.func))}, {str_list([unp(a) for a in c1.args])})]\n"
                f"def dr_base_init_new_image : List String := {str_list([unp(s) for s in bb])}\n"
                "/-- `StyledPilImage.process`: calls made, given the truth value of the tested attribute -/\n"
                f"def dr_spil_process (embeded_image : Bool) : List String := [{lean_str(unp(pb[0].value))}] ++ (if embeded_image then {str_list([unp(s) for s in pb[1].body])} else [])\n"
                f"def dr_spil_process_test : String := {lean_str(name_of(t))}\n"
                "/-- `StyledPilImage.save`: the format passed to Pillow (`format`: the argument, `kw_kind`: `kwargs.get(key)`) -/\n"
                f"def dr_spil_save_format (format kw_kind : Option String) (self_kind : String) : String := match format with | some f => f | none => (match kw_kind with | some k => k | none => self_kind)\n"
                f"def dr_spil_save_keys : List String := [{lean_str(g.args[0].value)}, {lean_str(i1.test.left.value)}, {lean_str(d.slice.value)}]\n"
                f"def dr_spil_save_default : String := {lean_str(name_of(g.args[1]))}\n"
                f"def dr_spil_save_call : String := {lean_str(unp(call))}\n"
                f"def dr_spil_kind : String := {lean_str(kv.value)}\n"
                f"def dr_spil_needs_processing : Bool := {'true' if npv.value else 'false'}\n"
                f"def dr_spil_default_drawer : String := {lean_str(name_of(dd))}")

    def check_args_save(fn):
        a = fn.args
        need([x.arg for x in a.args] == ["self", "stream", "format"] and a.vararg is None and a.kwarg is not None and a.kwarg.arg == "kwargs"
             and len(a.defaults) == 1 and unp(a.defaults[0]) == "None", "save: arguments")
    api.emit("dr_spil_skeleton", styled_skeleton)

    # ----------------------------------------------------------------------------------------------------------------------
    # colormasks.py: constructors and `initialize`
    def masks():
        tree = api.parse("qrcode/image/styles/colormasks.py")
        outs, names = [], []
        for cls in tree.body:
            if not isinstance(cls, ast.ClassDef):
                continue
            init = next((s for s in cls.body if isinstance(s, ast.FunctionDef) and s.name == "__init__"), None)
            if init is not None:
                need(init.args.vararg is None and init.args.kwarg is None and not init.args.kwonlyargs, f"{cls.name}.__init__: star arguments")
                args = [x.arg for x in init.args.args][1:]
                defs = init.args.defaults
                need(len(defs) == len(args), f"{cls.name}.__init__: every argument has a default")
                stores = []
                for s in strip_doc(init.body):
                    if isinstance(s, ast.Assign) and len(s.targets) == 1 and is_path(s.targets[0]) and name_of(s.targets[0]).startswith("self."):
                        stores.append((name_of(s.targets[0]), unp(s.value)))
                    else:
                        stores.append(("stmt", unp(s)))
                dl = []
                for a, d in zip(args, defs):
                    if isinstance(d, ast.Tuple) and all(is_int(e) for e in d.elts):
                        dl.append(f"({lean_str(a)}, some [{', '.join(str(e.value) for e in d.elts)}])")
                    else:
                        need(unp(d) == "None", f"{cls.name}.__init__: default of {a}")
                        dl.append(f"({lean_str(a)}, none)")
                outs.append(f"/-- `{cls.name}.__init__`: arguments with their default colours, then the stores (target, value) in order -/\n"
                            f"def dr_cm_init_defaults_{cls.name} : List (String × Option (List Int)) := [{', '.join(dl)}]\n"
                            f"def dr_cm_init_stores_{cls.name} : List (String × String) := [{', '.join('(' + lean_str(a) + ', ' + lean_str(b) + ')' for a, b in stores)}]")
            ini = next((s for s in cls.body if isinstance(s, ast.FunctionDef) and s.name == "initialize"), None)
            if ini is not None:
                need([x.arg for x in ini.args.args] == ["self", "styledPilImage", "image"], f"{cls.name}.initialize: arguments")
                outs.append(f"def dr_cm_initialize_{cls.name} : List String := {str_list([unp(s) for s in strip_doc(ini.body)])}")
            if init is not None or ini is not None:
                names.append(cls.name)
        need(names, "no colour mask class")
        outs.append(f"def dr_cm_classes : List String := {str_list(names)}")
        return "\n".join(outs)
    api.emit("dr_cm_ctor", masks)
