"""T2 fragments, package D2: the QRCode object of qrcode/main.py - `_check_box_size`, `_check_border`, `_check_mask_pattern`
(complete bodies, argument of dynamic type int | bool | float | None | other), the properties `version`, `border`,
`mask_pattern` (getters and setters), `QRCode.__init__`, `QRCode.clear`, the cache reset at the end of `add_data`,
`QRCode.make_image` (the implementation, not the overloads), `QRCode.is_constrained`, `QRCode.active_with_neighbors`.

Every function is translated statement by statement from the current AST (all generated names start with `ob_`):
  * `self` is a record `ob_QR D C F` (D = type of a data_list element, C = type of the data cache, F = type of image classes);
    an assignment `self.x = e` is a record update, an assignment to a property runs the translated setter;
  * a function that can raise returns `Except String _` (the exception CLASS NAME as a string, read from the `raise`);
    a function that calls an effectful method of `self` which is not part of this package (`self.make()`, `self.best_fit()`)
    threads a "world" `w : W` (everything mutable outside `self`, e.g. the process-wide cache of blanks) together with `self`
    and takes the callee as a parameter `self_make : W × ob_QR → (W × ob_QR) × Except String Unit`;
  * other free callees / class attributes are parameters named after the source (`util_check_version`, `issubclass_BaseImage`,
    `im_needs_drawrect`, ...); names of methods called on the image, keyword names, import lines are string literals;
  * `for x in range(..)` loops are folds of a translated body over the translated range;
  * `if` with fall-through duplicates the continuation (CPS), `return` / `raise` end a path.
The Python builtins used get a fixed Lean meaning in `ob_prelude`.  Anything whose shape is not understood is Untranslatable.
"""
import ast
import json


def fragments(api):
    U = api.Untranslatable
    find_func, strip_doc = api.find_func, api.strip_doc

    PRELUDE = '''/-- dynamic type of an argument: int | bool | float (finite, represented by its truncation, i.e. by `int(x)`) | None |
other (an object that `int()` rejects with TypeError and that is not an `int` instance) -/
inductive ob_Val where
  | int (i : Int)
  | bool (b : Bool)
  | float (trunc : Int)
  | none
  | other
  deriving DecidableEq, Repr
/-- `int(x)` -/
def ob_py_int : ob_Val → Except String Int
  | .int i => .ok i
  | .bool b => .ok (if b then 1 else 0)
  | .float t => .ok t
  | .none => .error "TypeError"
  | .other => .error "TypeError"
/-- `x is None` -/
def ob_py_is_none : ob_Val → Bool
  | .none => true
  | _ => false
/-- `isinstance(x, int)` (bool is a subclass of int) -/
def ob_py_isinstance_int : ob_Val → Bool
  | .int _ => true
  | .bool _ => true
  | _ => false
/-- value of an `int` instance in a comparison (only emitted under a dominating `isinstance(x, int)` test) -/
def ob_py_num : ob_Val → Int
  | .int i => i
  | .bool b => if b then 1 else 0
  | _ => 0
/-- the attributes of a `QRCode` object -/
structure ob_QR (D C F : Type) where
  _version : ob_Val
  error_correction : Int
  box_size : Int
  _border : Int
  _mask_pattern : ob_Val
  image_factory : Option F
  modules : List (List (Option Bool))
  modules_count : Nat
  data_cache : Option C
  data_list : List D
/-- a call `cls(*pos, **kw, **star)` of an image class -/
structure ob_Call (F K : Type) where
  cls : F
  pos : List Int
  kw : List (String × List (List (Option Bool)))
  star : List (String × K)
/-- a method call on the image: method name, positional arguments, keyword arguments (name, source text of the value) -/
structure ob_Ev where
  method : String
  args : List Int
  kw : List (String × String)
  deriving DecidableEq, Repr
/-- `range(a, b)` -/
def ob_py_range (a b : Int) : List Int := (List.range (b - a).toNat).map (fun (k : Nat) => a + Int.ofNat k)
/-- truth value of a module (`None` is falsy) -/
def ob_py_truthy_cell : Option Bool → Bool
  | some b => b
  | none => false
/-- `kwargs.get(key)` -/
def ob_py_kwargs_get {K : Type} (kwargs : List (String × K)) (key : String) : Option K := kwargs.lookup key
/-- truth value of `kwargs.get(key)` (`None` is falsy) -/
def ob_py_truthy_opt {K : Type} (truthy : K → Bool) : Option K → Bool
  | some v => truthy v
  | none => false'''

    FIELDS = {"_version": "val", "error_correction": "int", "box_size": "int", "_border": "int", "_mask_pattern": "val",
              "image_factory": "optF", "modules": "mods", "modules_count": "nat", "data_cache": "optC", "data_list": "listD"}
    LEAN_TY = {"val": "ob_Val", "int": "Int", "nat": "Nat", "bool": "Bool", "optF": "Option F", "F": "F",
               "mods": "List (List (Option Bool))", "kwargs": "List (String × K)"}
    PARAM_TY = {
        "util_check_version": "ob_Val → Except String Unit",
        "issubclass_BaseImage": "F → Bool",
        "truthy_kwarg": "K → Bool",
        "Image": "Bool", "PilImage": "F", "PyPNGImage": "F",
        "im_needs_drawrect": "F → Bool", "im_needs_context": "F → Bool", "im_needs_processing": "F → Bool",
        "self_make": "W × ob_QR D C F → (W × ob_QR D C F) × Except String Unit",
        "self_best_fit": "W × ob_QR D C F → (W × ob_QR D C F) × Except String Unit",
    }
    PARAM_ORDER = list(PARAM_TY)
    QR = "ob_QR D C F"

    def need(cond, why):
        if not cond:
            raise U(why)

    def unp(node):
        return ast.unparse(node)

    def lstr(s):
        need(all(0x20 <= ord(ch) <= 0x7E for ch in s), "non-ASCII text in a literal")
        return json.dumps(s)

    main = api.trees["main"]
    memo = {}

    def cached(key, thunk):
        if key not in memo:
            try:
                memo[key] = ("ok", thunk())
            except U as e:
                memo[key] = ("err", e)
        kind, v = memo[key]
        if kind == "err":
            raise U(str(v))
        return v

    # ------------------------------------------------------------------------------------------------ class facts
    def qrcode_class():
        return find_func(main, "QRCode")

    def prop_func(name, kind):
        """the getter (`@property`) or setter (`@name.setter`) of property `name` of QRCode"""
        want = "property" if kind == "get" else f"{name}.setter"
        found = [n for n in qrcode_class().body if isinstance(n, ast.FunctionDef) and n.name == name
                 and [unp(d) for d in n.decorator_list] == [want]]
        need(len(found) == 1, f"property {name}: expected exactly one `@{want}` definition")
        others = [n for n in qrcode_class().body if isinstance(n, ast.FunctionDef) and n.name == name
                  and [unp(d) for d in n.decorator_list] not in (["property"], [f"{name}.setter"])]
        need(not others, f"property {name}: other definitions of the same name")
        return found[0]

    def plain_method(name):
        found = [n for n in qrcode_class().body if isinstance(n, ast.FunctionDef) and n.name == name and not n.decorator_list]
        need(len(found) == 1, f"QRCode.{name}: expected exactly one undecorated definition")
        return found[0]

    def module_func(name):
        found = [n for n in main.body if isinstance(n, ast.FunctionDef) and n.name == name]
        need(len(found) == 1 and not found[0].decorator_list, f"{name}: expected exactly one undecorated definition")
        return found[0]

    def simple_args(fn):
        a = fn.args
        need(not a.vararg and not a.kwonlyargs and not a.posonlyargs, f"{fn.name}: signature")
        return [x.arg for x in a.args]

    def constant_of(name):
        tree = api.parse("qrcode/constants.py")
        vals = [s.value for s in tree.body if isinstance(s, ast.Assign) and len(s.targets) == 1
                and isinstance(s.targets[0], ast.Name) and s.targets[0].id == name]
        need(len(vals) == 1 and isinstance(vals[0], ast.Constant) and type(vals[0].value) is int, f"constants.{name}")
        imp = [s for s in main.body if isinstance(s, ast.ImportFrom) and s.module == "qrcode"
               and any(a.name == "constants" and a.asname is None for a in s.names)]
        need(len(imp) == 1, "`constants` is not qrcode.constants")
        return vals[0].value

    # ------------------------------------------------------------------------------------------------ compiler
    class Cx:
        """per-function context: environment, parameters needed, literals recorded, temporaries"""
        def __init__(self, fname, mode):
            self.fname, self.mode = fname, mode        # mode: "E" (Except String _) or "WS" ((W × QR) × Except String _)
            self.params, self.lits, self.n = [], [], 0
            self.final = None

        def param(self, p):
            need(p in PARAM_TY, "unknown parameter " + p)
            if p not in self.params:
                self.params.append(p)
            return p

        def use(self, callee):
            """call of another translated function: its parameters become ours; returns the applied head"""
            (name, params) = callee
            for p in params:
                self.param(p)
            return " ".join([name] + params)

        def tmp(self):
            self.n += 1
            return f"t{self.n}"

        def lit(self, name, text):
            self.lits.append((name, text))

    class Env:
        def __init__(self, d=None, known_int=(), facts=()):
            self.d, self.known_int, self.facts = dict(d or {}), frozenset(known_int), frozenset(facts)

        def set(self, name, term, ty):
            e = Env(self.d, self.known_int - {name}, self.facts)
            e.d[name] = (term, ty)
            return e

        def know_int(self, name):
            return Env(self.d, self.known_int | {name}, self.facts)

        def fact(self, f):
            return Env(self.d, self.known_int, self.facts | {f})

    def coerce(t, ty, want, what=""):
        if ty == want:
            return t
        if ty == "intlit" and want in ("int", "nat"):
            return t
        if ty == "intlit" and want == "val":
            return f"(ob_Val.int {t})"
        if ty == "int" and want == "val":
            return f"(ob_Val.int {t})"
        if ty == "nat" and want == "int":
            return f"(Int.ofNat {t})"
        if ty == "none" and want == "val":
            return "ob_Val.none"
        if ty == "none" and want in ("optF", "optC"):
            return "none"
        if ty == "emptylist" and want == "listD":
            return "[]"
        raise U(f"{what}: a {ty} where a {want} is expected")

    def ex(node, env, cx, binds):
        """expression -> (Lean term, type); fallible subexpressions are appended to `binds` as (variable, Except term)"""
        if isinstance(node, ast.Constant):
            v = node.value
            if v is None:
                return "none", "none"
            if isinstance(v, bool):
                return ("true" if v else "false"), "bool"
            if type(v) is int:
                return (str(v) if v >= 0 else f"({v})"), "intlit"
            raise U("constant " + repr(v))
        if isinstance(node, ast.List):
            if not node.elts:
                return "[]", "emptylist"
            if len(node.elts) == 1 and isinstance(node.elts[0], ast.List) and not node.elts[0].elts:
                return "[[]]", "mods"
            raise U("list display " + unp(node))
        if isinstance(node, ast.Name):
            need(node.id in env.d, "free name " + node.id)
            return env.d[node.id]
        if isinstance(node, ast.Attribute) and isinstance(node.value, ast.Name):
            base, attr = node.value.id, node.attr
            if base == "self" and "self" in env.d:
                if attr in FIELDS:
                    need(not is_property(attr), f"self.{attr} is a property")
                    return f"self.{attr}", FIELDS[attr]
                if attr in ("border", "mask_pattern"):
                    (head, ty) = cached("getter:" + attr, lambda: getter(attr))
                    return f"({cx.use(head)} self)", ty
                raise U("attribute self." + attr)
            if base == "constants" and "constants" not in env.d:
                return str(constant_of(attr)), "intlit"
            if base in env.d and env.d[base][1] == "im":
                p = cx.param("im_" + attr) if ("im_" + attr) in PARAM_TY else None
                need(p is not None, "attribute im." + attr)
                return f"({p} {env.d[base][0]}.cls)", "bool"
            raise U("attribute " + unp(node))
        if isinstance(node, ast.BinOp) and isinstance(node.op, (ast.Add, ast.Sub)):
            (a, ta), (b, tb) = ex(node.left, env, cx, binds), ex(node.right, env, cx, binds)
            a, b = coerce(a, ta, "int", unp(node)), coerce(b, tb, "int", unp(node))
            return f"({a} {'+' if isinstance(node.op, ast.Add) else '-'} {b})", "int"
        if isinstance(node, ast.IfExp):
            c = boolean(node.test, env, cx, binds)
            (a, ta), (b, tb) = ex(node.body, env, cx, binds), ex(node.orelse, env, cx, binds)
            need(ta == tb, "conditional expression of two types")
            return f"(if {c} then {a} else {b})", ta
        if isinstance(node, ast.Subscript):
            return subscript(node, env, cx, binds)
        if isinstance(node, ast.Call):
            f = unp(node.func)
            if f == "int" and "int" not in env.d and len(node.args) == 1 and not node.keywords:
                (a, ta) = ex(node.args[0], env, cx, binds)
                if ta in ("int", "intlit"):
                    return a, "int"
                need(ta == "val", "int() of a " + ta)
                t = cx.tmp()
                binds.append((t, f"ob_py_int {a}"))
                return t, "int"
            if f == "cast" and "cast" not in env.d and len(node.args) == 2 and not node.keywords:
                imp = [s for s in main.body if isinstance(s, ast.ImportFrom) and s.module == "typing"
                       and any(a.name == "cast" and a.asname is None for a in s.names)]
                need(len(imp) == 1, "`cast` is not typing.cast")
                cx.lit(cx.fname + "_cast_type", unp(node.args[0]))
                return ex(node.args[1], env, cx, binds)
            if f == "len" and "len" not in env.d and len(node.args) == 1 and not node.keywords:
                (a, ta) = ex(node.args[0], env, cx, binds)
                need(ta in ("mods", "row"), "len of a " + ta)
                return f"(Int.ofNat {a}.length)", "int"
            if f == "bool" and "bool" not in env.d and len(node.args) == 1 and not node.keywords:
                return boolean(node.args[0], env, cx, binds), "bool"
            if f == "kwargs.get" and env.d.get("kwargs", (None, None))[1] == "kwargs" and len(node.args) == 1 and not node.keywords:
                k = node.args[0]
                need(isinstance(k, ast.Constant) and isinstance(k.value, str), "kwargs.get of a non-literal key")
                return f"(ob_py_kwargs_get kwargs {lstr(k.value)})", "optK"
            if f == "self.is_constrained" and "self" in env.d and len(node.args) == 2 and not node.keywords:
                head = cached("is_constrained", is_constrained)
                (a, ta), (b, tb) = ex(node.args[0], env, cx, binds), ex(node.args[1], env, cx, binds)
                return f"({cx.use(head)} self {coerce(a, ta, 'int', f)} {coerce(b, tb, 'int', f)})", "bool"
            raise U("call " + unp(node)[:50])
        raise U("expression " + unp(node)[:50])

    def subscript(node, env, cx, binds):
        """X[i]: `getD` is emitted only where the index is known to be in range or a loop index over the object's own size"""
        (a, ta) = ex(node.value, env, cx, binds)
        (i, ti) = ex(node.slice, env, cx, binds)
        need(ta in ("mods", "row"), "subscript of a " + ta)
        dflt, out = ("[]", "row") if ta == "mods" else ("none", "cell")
        if ti == "nat":
            need(("rangevar", unp(node.slice)) in env.facts, f"{unp(node)}: index is not a loop index over range(self.modules_count)")
            return f"({a}.getD {i} {dflt})", out
        need(ti == "int", "index of type " + ti)
        if ta == "mods":
            ok = ({("nonneg", unp(node.slice)), ("ltlen", unp(node.slice), unp(node.value))} <= env.facts
                  or any(f[0] == "constrained" and f[1] == unp(node.slice) and unp(node.value) == "self.modules" for f in env.facts))
        else:
            need(isinstance(node.value, ast.Subscript), "column index into a row that is not X[r]")
            ok = any(f[0] == "constrained" and f[1] == unp(node.value.slice) and f[2] == unp(node.slice)
                     and unp(node.value.value) == "self.modules" for f in env.facts)
        need(ok, f"{unp(node)}: index not guarded by a bounds test")
        return f"({a}.getD {i}.toNat {dflt})", out

    CMP = {ast.Lt: "<", ast.LtE: "≤", ast.Gt: ">", ast.GtE: "≥", ast.Eq: "=", ast.NotEq: "≠"}

    def boolean(node, env, cx, binds):
        """expression in a Boolean context -> Lean Bool term"""
        if isinstance(node, ast.BoolOp):
            parts, e = [], env
            for v in node.values:
                parts.append(boolean(v, e, cx, binds))
                if isinstance(node.op, ast.And):
                    e = learn(v, e)
            return "(" + (" && " if isinstance(node.op, ast.And) else " || ").join(parts) + ")"
        if isinstance(node, ast.UnaryOp) and isinstance(node.op, ast.Not):
            return f"(!{boolean(node.operand, env, cx, binds)})"
        if isinstance(node, ast.Compare):
            need(len(node.ops) == 1, "chained comparison")
            op, l, r = node.ops[0], node.left, node.comparators[0]
            if isinstance(op, (ast.Is, ast.IsNot)):
                need(isinstance(r, ast.Constant) and r.value is None, "identity test against something else than None")
                (a, ta) = ex(l, env, cx, binds)
                if ta == "val":
                    t = f"(ob_py_is_none {a})"
                elif ta in ("optF", "optC"):
                    t = f"{a}.isNone"
                else:
                    raise U("`is None` of a " + ta)
                return t if isinstance(op, ast.Is) else f"(!{t})"
            need(type(op) in CMP, "comparison operator " + type(op).__name__)
            (a, ta), (b, tb) = ex(l, env, cx, binds), ex(r, env, cx, binds)

            def numeric(t, ty, src):
                if ty == "val":
                    need(isinstance(src, ast.Name) and src.id in env.known_int,
                         f"comparison of {unp(src)} without a dominating isinstance(.., int) test")
                    return f"(ob_py_num {t})"
                return coerce(t, ty, "int", unp(node))
            return f"decide ({numeric(a, ta, l)} {CMP[type(op)]} {numeric(b, tb, r)})"
        if isinstance(node, ast.Call) and unp(node.func) == "isinstance" and "isinstance" not in env.d:
            need(len(node.args) == 2 and not node.keywords and unp(node.args[1]) == "int" and "int" not in env.d, "isinstance shape")
            (a, ta) = ex(node.args[0], env, cx, binds)
            need(ta == "val", "isinstance of a " + ta)
            return f"(ob_py_isinstance_int {a})"
        if isinstance(node, ast.Call) and unp(node.func) == "issubclass" and "issubclass" not in env.d:
            need(len(node.args) == 2 and not node.keywords and unp(node.args[1]) == "BaseImage", "issubclass shape")
            imp = [s for s in main.body if isinstance(s, ast.ImportFrom) and s.module == "qrcode.image.base"
                   and any(a.name == "BaseImage" and a.asname is None for a in s.names)]
            need(len(imp) == 1, "`BaseImage` is not qrcode.image.base.BaseImage")
            (a, ta) = ex(node.args[0], env, cx, binds)
            need(ta == "F", "issubclass of a " + ta)
            return f"({cx.param('issubclass_BaseImage')} {a})"
        (t, ty) = ex(node, env, cx, binds)
        if ty == "bool":
            return t
        if ty == "optK":
            return f"(ob_py_truthy_opt {cx.param('truthy_kwarg')} {t})"
        if ty == "cell":
            return f"(ob_py_truthy_cell {t})"
        raise U(f"truth value of a {ty}: {unp(node)[:40]}")

    def learn(test, env):
        """facts known after `test` was true (for the conjuncts to its right / the statements it guards)"""
        if isinstance(test, ast.Compare) and len(test.ops) == 1:
            op, l, r = test.ops[0], test.left, test.comparators[0]
            if isinstance(op, ast.GtE) and isinstance(r, ast.Constant) and r.value == 0 and type(r.value) is int:
                return env.fact(("nonneg", unp(l)))
            if isinstance(op, ast.Lt) and isinstance(r, ast.Call) and unp(r.func) == "len" and len(r.args) == 1:
                return env.fact(("ltlen", unp(l), unp(r.args[0])))
        if isinstance(test, ast.Call) and unp(test.func) == "self.is_constrained" and len(test.args) == 2:
            return env.fact(("constrained", unp(test.args[0]), unp(test.args[1])))
        return env

    def is_property(name):
        return any(isinstance(n, ast.FunctionDef) and n.name == name for n in qrcode_class().body)

    # ---- results / sequencing, depending on the mode
    def r_err(cx, exc):
        return f'.error {lstr(exc)}' if cx.mode == "E" else f'((w, self), .error {lstr(exc)})'

    def r_ok(cx, v):
        return f".ok {v}" if cx.mode == "E" else f"((w, self), .ok {v})"

    def with_binds(cx, binds, body):
        """bind the fallible subexpressions (which do not touch `self`) in order, then `body`"""
        for (v, m) in reversed(binds):
            if cx.mode == "E":
                body = f"Except.bind ({m}) fun {v} =>\n  {body}"
            else:
                body = f"(match (generalizing := false) {m} with\n  | .error e => ((w, self), .error e)\n  | .ok {v} =>\n  {body})"
        return body

    def exc_name(s):
        need(isinstance(s, ast.Raise) and s.cause is None and isinstance(s.exc, ast.Call) and isinstance(s.exc.func, ast.Name),
             "raise shape")
        return s.exc.func.id

    def stmts(ss, env, cx):
        """statement list -> Lean term (CPS: the continuation of an `if` is duplicated)"""
        if not ss:
            return r_ok(cx, cx.final(env))
        s, rest = ss[0], ss[1:]
        if isinstance(s, ast.Return):
            if s.value is None:
                return r_ok(cx, cx.final(env))
            binds = []
            (v, ty) = ex(s.value, env, cx, binds)
            need(cx.ret_ty is not None, "return of a value")
            return with_binds(cx, binds, r_ok(cx, coerce(v, ty, cx.ret_ty, "return")))
        if isinstance(s, ast.Raise):
            cx.lit(f"{cx.fname}_raise{len([1 for (n, _) in cx.lits if '_raise' in n])}", unp(s.exc))
            return r_err(cx, exc_name(s))
        if isinstance(s, ast.Assert):
            need(s.msg is None, "assert with a message")
            binds = []
            c = boolean(s.test, env, cx, binds)
            return with_binds(cx, binds, f"(if {c} then {stmts(rest, env, cx)}\n   else {r_err(cx, 'AssertionError')})")
        if isinstance(s, ast.If):
            binds = []
            c = boolean(s.test, env, cx, binds)
            env_then = learn(s.test, env)
            env_else = env
            # `if not isinstance(x, int): raise ...` : afterwards x is known to be an int instance
            t = s.test
            if isinstance(t, ast.UnaryOp) and isinstance(t.op, ast.Not) and isinstance(t.operand, ast.Call) \
                    and unp(t.operand.func) == "isinstance" and isinstance(t.operand.args[0], ast.Name):
                env_else = env.know_int(t.operand.args[0].id)
            return with_binds(cx, binds, f"(if {c} then {stmts(list(s.body) + rest, env_then, cx)}\n   else {stmts(list(s.orelse) + rest, env_else, cx)})")
        if isinstance(s, ast.ImportFrom):
            need(cx.fname == "ob_make_image", "import inside a function")
            cx.lit(cx.fname + "_import", unp(s))
            e = env
            for a in s.names:
                need(a.asname is None and a.name in ("Image", "PilImage"), "imported name " + a.name)
                e = e.set(a.name, cx.param(a.name), "bool" if a.name == "Image" else "F")
            return stmts(rest, e, cx)
        if isinstance(s, ast.Expr) and isinstance(s.value, ast.Call):
            call = s.value
            f = unp(call.func)
            need(not call.keywords and not any(isinstance(a, ast.Starred) for a in call.args), "call shape " + unp(call)[:40])
            if f in ("_check_box_size", "_check_border", "_check_mask_pattern") and f not in env.d:
                head = cached("validator:" + f, lambda: validator(f))
                need(len(call.args) == 1, f + ": arity")
                binds = []
                (a, ta) = ex(call.args[0], env, cx, binds)
                m = f"{cx.use(head)} {coerce(a, ta, 'val', f)}"
                return with_binds(cx, binds + [("_", m)], stmts(rest, env, cx))
            if f == "util.check_version" and "util" not in env.d:
                imp = [x for x in main.body if isinstance(x, ast.ImportFrom) and x.module == "qrcode"
                       and any(a.name == "util" and a.asname is None for a in x.names)]
                need(len(imp) == 1 and len(call.args) == 1, "`util` is not qrcode.util")
                binds = []
                (a, ta) = ex(call.args[0], env, cx, binds)
                m = f"{cx.param('util_check_version')} {coerce(a, ta, 'val', f)}"
                return with_binds(cx, binds + [("_", m)], stmts(rest, env, cx))
            if f == "self.clear" and "self" in env.d:
                need(not call.args, "self.clear with arguments")
                head = cached("clear", clear)
                return f"(let self := {cx.use(head)} self;\n  {stmts(rest, env, cx)})"
            if f in ("self.make", "self.best_fit") and "self" in env.d:
                need(cx.mode == "WS" and not call.args, f + ": call with arguments / in a function without a world")
                need(len([n for n in qrcode_class().body if isinstance(n, ast.FunctionDef) and n.name == f[5:]]) == 1, f + ": not a method")
                p = cx.param(f.replace(".", "_"))
                return (f"(match (generalizing := false) {p} (w, self) with\n  | ((w, self), .error e) => ((w, self), .error e)\n"
                        f"  | ((w, self), .ok _) =>\n  {stmts(rest, env, cx)})")
            raise U("call statement " + unp(call)[:50])
        if isinstance(s, ast.Assign):
            need(len(s.targets) == 1, "multiple assignment targets")
            tgt = s.targets[0]
            binds = []
            if isinstance(tgt, ast.Attribute) and unp(tgt.value) == "self" and "self" in env.d:
                (v, ty) = ex(s.value, env, cx, binds)
                if tgt.attr in ("version", "border", "mask_pattern"):
                    need(cx.mode == "E", "assignment to a property in a function with a world")
                    head = cached("setter:" + tgt.attr, lambda: setter(tgt.attr))
                    m = f"{cx.use(head)} self {coerce(v, ty, 'val', unp(tgt))}"
                    return with_binds(cx, binds + [("self", m)], stmts(rest, env, cx))
                need(tgt.attr in FIELDS and not is_property(tgt.attr), "assignment to self." + tgt.attr)
                v = coerce(v, ty, FIELDS[tgt.attr], unp(tgt))
                return with_binds(cx, binds, f"(let self := {{ self with {tgt.attr} := {v} }};\n  {stmts(rest, env, cx)})")
            if isinstance(tgt, ast.Name):
                need(tgt.id in env.d and tgt.id not in ("self", "w"), "assignment to a new local name " + tgt.id)
                (v, ty) = ex(s.value, env, cx, binds)
                want = env.d[tgt.id][1]
                if want == "optF" and ty == "F":
                    v, ty = f"(some {v})", "optF"
                v = coerce(v, ty, want, unp(tgt))
                return with_binds(cx, binds, f"(let {tgt.id} := {v};\n  {stmts(rest, env.set(tgt.id, tgt.id, want), cx)})")
            raise U("assignment target " + unp(tgt))
        raise U("statement " + unp(s)[:50])

    def signature(cx, extra, ret, world=False):
        ps = [p for p in PARAM_ORDER if p in cx.params]
        tys = "{D C F : Type}"
        if any("K" in PARAM_TY[p].split() for p in ps) or "K" in extra:
            tys = "{D C F K : Type}"
        if world:
            tys = tys.replace(" : Type}", " W : Type}")
        return ps, tys + " " + " ".join(f"({p} : {PARAM_TY[p]})" for p in ps) + (" " if ps else "") + extra + " : " + ret

    def lits_text(cx):
        seen, out = {}, []
        for (n, t) in cx.lits:
            if n in seen:
                need(seen[n] == t, "two different texts for the literal " + n)
                continue
            seen[n] = t
            out.append(f"def {n} : String := {lstr(t)}")
        return "\n".join(out)

    # ------------------------------------------------------------------------------------------------ the functions
    def validator(pyname):
        fn = module_func(pyname)
        args = simple_args(fn)
        need(len(args) == 1 and not fn.args.defaults and not fn.args.kwarg, pyname + ": signature")
        arg = args[0]
        need(arg.isidentifier() and arg not in ("self", "w", "e") and not arg.startswith("t"), "parameter name " + arg)
        name = "ob" + pyname
        cx = Cx(name, "E")
        cx.final, cx.ret_ty = (lambda env: "()"), None
        body = stmts(list(strip_doc(fn.body)), Env({arg: (arg, "val")}), cx)
        need(not cx.params, pyname + " needs parameters")
        text = f"/-- `{pyname}({arg})` -/\ndef {name} ({arg} : ob_Val) : Except String Unit :=\n  {body}"
        lt = lits_text(cx)
        memo["text:" + name] = text + ("\n" + lt if lt else "")
        return (name, [])

    def getter(prop):
        fn = prop_func(prop, "get")
        need(simple_args(fn) == ["self"] and not fn.args.kwarg, prop + " getter: signature")
        body = strip_doc(fn.body)
        need(len(body) == 1 and isinstance(body[0], ast.Return) and body[0].value is not None, prop + " getter: not a single return")
        cx = Cx("ob_get_" + prop, "E")
        binds = []
        (v, ty) = ex(body[0].value, Env({"self": ("self", "self")}), cx, binds)
        need(not binds and not cx.params and ty in LEAN_TY, prop + " getter: expression")
        memo["text:ob_get_" + prop] = (f"/-- the `{prop}` property (getter) -/\n"
                                       f"def ob_get_{prop} {{D C F : Type}} (self : {QR}) : {LEAN_TY[ty]} := {v}")
        return (("ob_get_" + prop, []), ty)

    def version_getter():
        fn = prop_func("version", "get")
        need(simple_args(fn) == ["self"] and not fn.args.kwarg, "version getter: signature")
        cx = Cx("ob_get_version", "WS")
        cx.final, cx.ret_ty = (lambda env: (_ for _ in ()).throw(U("version getter falls off the end"))), "val"
        body = stmts(list(strip_doc(fn.body)), Env({"self": ("self", "self")}), cx)
        ps, sig = signature(cx, f"(w : W) (self : {QR})", f"(W × {QR}) × Except String ob_Val", world=True)
        lt = lits_text(cx)
        memo["text:ob_get_version"] = (f"/-- the `version` property (getter): runs `best_fit()` first when `_version is None` -/\n"
                                       f"def ob_get_version {sig} :=\n  {body}" + ("\n" + lt if lt else ""))
        return ("ob_get_version", ps)

    def setter(prop):
        fn = prop_func(prop, "set")
        args = simple_args(fn)
        need(len(args) == 2 and args[0] == "self" and not fn.args.defaults and not fn.args.kwarg, prop + " setter: signature")
        arg = args[1]
        need(arg.isidentifier() and arg not in ("self", "w", "e") and not arg.startswith("t"), "parameter name " + arg)
        prop_func(prop, "get")      # a setter without its getter is not a property
        name = "ob_set_" + prop
        cx = Cx(name, "E")
        cx.final, cx.ret_ty = (lambda env: "self"), None
        body = stmts(list(strip_doc(fn.body)), Env({"self": ("self", "self"), arg: (arg, "val")}), cx)
        ps, sig = signature(cx, f"(self : {QR}) ({arg} : ob_Val)", f"Except String ({QR})")
        lt = lits_text(cx)
        memo["text:" + name] = f"/-- `self.{prop} = {arg}` (the property's setter) -/\ndef {name} {sig} :=\n  {body}" + ("\n" + lt if lt else "")
        return (name, ps)

    def clear():
        fn = plain_method("clear")
        need(simple_args(fn) == ["self"] and not fn.args.kwarg, "clear: signature")
        cx = Cx("ob_clear", "E")
        cx.final, cx.ret_ty = (lambda env: "self"), None
        body = strip_doc(fn.body)
        need(all(isinstance(s, ast.Assign) for s in body), "clear: a statement that is not an assignment")
        t = stmts(list(body), Env({"self": ("self", "self")}), cx)
        need(not cx.params and t.count(".ok self") == 1, "clear: shape")
        # all paths are `.ok self`: drop the Except wrapper
        t = t.replace(".ok self", "self")
        memo["text:ob_clear"] = f"/-- `clear()` -/\ndef ob_clear {{D C F : Type}} (self : {QR}) : {QR} :=\n  {t}"
        return ("ob_clear", [])

    def add_data_reset():
        fn = plain_method("add_data")
        body = strip_doc(fn.body)
        need(len(body) == 2 and isinstance(body[0], ast.If) and isinstance(body[1], ast.Assign), "add_data: statement kinds")
        # the branches only call self.data_list.append / extend
        calls = []
        node = body[0]
        while True:
            need(len(node.body) == 1 and isinstance(node.body[0], ast.Expr) and isinstance(node.body[0].value, ast.Call), "add_data: branch")
            calls.append(unp(node.body[0].value))
            if len(node.orelse) == 1 and isinstance(node.orelse[0], ast.If):
                node = node.orelse[0]
                continue
            need(len(node.orelse) == 1 and isinstance(node.orelse[0], ast.Expr) and isinstance(node.orelse[0].value, ast.Call), "add_data: else")
            calls.append(unp(node.orelse[0].value))
            break
        need(all(c.startswith("self.data_list.append(") or c.startswith("self.data_list.extend(") for c in calls), "add_data: branch writes elsewhere")
        cx = Cx("ob_add_data_reset", "E")
        cx.final, cx.ret_ty = (lambda env: "self"), None
        t = stmts([body[1]], Env({"self": ("self", "self")}), cx).replace(".ok self", "self")
        return (f"/-- the last statement of `add_data` (after the branches that extend `data_list`) -/\n"
                f"def ob_add_data_reset {{D C F : Type}} (self : {QR}) : {QR} :=\n  {t}\n"
                f"def ob_add_data_branches : List String := [{', '.join(lstr(c) for c in calls)}]")

    def add_data():
        """the whole of `add_data`: `data` is a QRData object (Sum.inl) or anything else (Sum.inr); `util.optimal_data_chunks` and
        `util.QRData` are parameters"""
        fn = plain_method("add_data")
        need(simple_args(fn) == ["self", "data", "optimize"] and len(fn.args.defaults) == 1 and not fn.args.kwarg, "add_data: signature")
        d = fn.args.defaults[0]
        need(isinstance(d, ast.Constant) and type(d.value) is int, "add_data: default of optimize")
        body = strip_doc(fn.body)
        need(len(body) == 2 and isinstance(body[0], ast.If) and isinstance(body[1], ast.Assign), "add_data: statement kinds")
        b0 = body[0]
        need(unp(b0.test) == "isinstance(data, util.QRData)" and len(b0.orelse) == 1 and isinstance(b0.orelse[0], ast.If), "add_data: first test")
        b1 = b0.orelse[0]
        need(isinstance(b1.test, ast.Name) and b1.test.id == "optimize" and len(b1.orelse) == 1, "add_data: second test")
        imp = [x for x in main.body if isinstance(x, ast.ImportFrom) and x.module == "qrcode"
               and any(a.name == "util" and a.asname is None for a in x.names)]
        need(len(imp) == 1, "`util` is not qrcode.util")

        def value(node, dvar):
            if isinstance(node, ast.Name) and node.id == "data":
                return dvar, ("D" if dvar == "data_obj" else "X")
            if isinstance(node, ast.Name) and node.id == "optimize":
                return "optimize", "int"
            if isinstance(node, ast.Call) and unp(node.func) == "util.optimal_data_chunks":
                need(len(node.args) == 1 and len(node.keywords) == 1 and node.keywords[0].arg == "minimum", "optimal_data_chunks arguments")
                (a, ta), (b, tb) = value(node.args[0], dvar), value(node.keywords[0].value, dvar)
                need(ta == "X" and tb == "int", "optimal_data_chunks argument types")
                return f"(util_optimal_data_chunks {a} {b})", "listD"
            if isinstance(node, ast.Call) and unp(node.func) == "util.QRData":
                need(len(node.args) == 1 and not node.keywords, "QRData arguments")
                (a, ta) = value(node.args[0], dvar)
                need(ta == "X", "QRData argument type")
                return f"(util_QRData {a})", "D"
            raise U("add_data: expression " + unp(node)[:40])

        def branch(ss, dvar):
            need(len(ss) == 1 and isinstance(ss[0], ast.Expr) and isinstance(ss[0].value, ast.Call) and not ss[0].value.keywords
                 and len(ss[0].value.args) == 1, "add_data: branch")
            c = ss[0].value
            (v, ty) = value(c.args[0], dvar)
            if unp(c.func) == "self.data_list.append":
                need(ty == "D", "append of a " + ty)
                return f"(let self := {{ self with data_list := self.data_list ++ [{v}] }};\n    @@TAIL@@)"
            if unp(c.func) == "self.data_list.extend":
                need(ty == "listD", "extend by a " + ty)
                return f"(let self := {{ self with data_list := self.data_list ++ {v} }};\n    @@TAIL@@)"
            raise U("add_data: branch calls " + unp(c.func))
        cx = Cx("ob_add_data", "E")
        cx.final, cx.ret_ty = (lambda env: "self"), None
        tail = stmts([body[1]], Env({"self": ("self", "self")}), cx).replace(".ok self", "self")
        t = (f"(match (generalizing := false) data with\n  | .inl data_obj => {branch(b0.body, 'data_obj')}\n"
             f"  | .inr data_raw =>\n    (if decide (optimize ≠ 0) then {branch(b1.body, 'data_raw')}\n"
             f"     else {branch(b1.orelse, 'data_raw')}))").replace("@@TAIL@@", tail)
        return (f"/-- `add_data(data, optimize={d.value})`: `data` is a `QRData` object (`Sum.inl`) or something else (`Sum.inr`) -/\n"
                f"def ob_add_data {{D C F X : Type}} (util_optimal_data_chunks : X → Int → List D) (util_QRData : X → D) (self : {QR}) "
                f"(data : Sum D X) (optimize : Int) : {QR} :=\n  {t}\n"
                f"def ob_add_data_optimize_default : Int := {d.value}")

    def init():
        fn = plain_method("__init__")
        args = simple_args(fn)
        need(args == ["self", "version", "error_correction", "box_size", "border", "image_factory", "mask_pattern"] and not fn.args.kwarg,
             "__init__: parameters " + ", ".join(args))
        defaults = [unp(d) for d in fn.args.defaults]
        need(len(defaults) == 6, "__init__: defaults")
        cx = Cx("ob_init", "E")
        cx.final, cx.ret_ty = (lambda env: "self"), None
        env = Env({"self": ("self", "self"), "image_factory": ("image_factory", "optF")})
        for a in ("version", "error_correction", "box_size", "border", "mask_pattern"):
            env = env.set(a, a, "val")
        body = list(strip_doc(fn.body))
        # `if image_factory is not None: assert issubclass(image_factory, BaseImage)`: see `stmts` (narrowing) below
        t = stmts(body, env, cx)
        ps, sig = signature(cx, f"(self : {QR}) (version error_correction box_size border : ob_Val) (image_factory : Option F) (mask_pattern : ob_Val)",
                            f"Except String ({QR})")
        dv = []
        for (a, d) in zip(args[1:], fn.args.defaults):
            if isinstance(d, ast.Attribute) and unp(d.value) == "constants":
                dv.append(f"({lstr(a)}, {lstr(unp(d))}, {lstr(str(constant_of(d.attr)))})")
            else:
                dv.append(f"({lstr(a)}, {lstr(unp(d))}, {lstr(unp(d))})")
        cls_attrs = [unp(s) for s in qrcode_class().body if isinstance(s, (ast.Assign, ast.AnnAssign))
                     and not (isinstance(s, ast.AnnAssign) and s.value is None)]
        return (f"/-- `QRCode.__init__` (`self` on entry: the attributes before the constructor ran - every one is overwritten) -/\n"
                f"def ob_init {sig} :=\n  {t}\n"
                f"/-- parameters of `__init__` with their defaults (source text, value) -/\n"
                f"def ob_init_defaults : List (String × String × String) := [{', '.join(dv)}]\n"
                f"/-- class attributes with a value -/\n"
                f"def ob_class_attributes : List String := [{', '.join(lstr(c) for c in cls_attrs)}]"
                + ("\n" + lits_text(cx) if cx.lits else ""))

    # narrowing: `if X is not None: assert ...` with X an optional class becomes a `match` in whose `some` branch X is a class.
    # (`match (generalizing := false)`: with generalisation Lean re-binds the shadowed `self` of the enclosing `let`s by NAME
    # and picks the wrong one - found by the bridge proof of `construct`.)
    _stmts = stmts

    def stmts(ss, env, cx):      # noqa: F811
        if ss and isinstance(ss[0], ast.If):
            t = ss[0].test
            if isinstance(t, ast.Compare) and len(t.ops) == 1 and isinstance(t.ops[0], ast.IsNot) and isinstance(t.left, ast.Name) \
                    and isinstance(t.comparators[0], ast.Constant) and t.comparators[0].value is None \
                    and t.left.id in env.d and env.d[t.left.id][1] == "optF":
                x = t.left.id
                s, rest = ss[0], ss[1:]
                need(not any(isinstance(n, ast.Assign) and any(isinstance(g, ast.Name) and g.id == x for g in n.targets)
                             for b in s.body for n in ast.walk(b)), f"{x} reassigned where it is known to be a class")
                then = _stmts_narrow(list(s.body), rest, env, cx, x)
                other = stmts(list(s.orelse) + rest, env, cx)
                return f"(match (generalizing := false) {x} with\n  | some {x}_cls =>\n  {then}\n  | none =>\n  {other})"
        return _stmts(ss, env, cx)

    def _stmts_narrow(body, rest, env, cx, x):
        # inside BODY `x` is a class (`x_cls`); afterwards it is `x` again
        need(all(isinstance(b, ast.Assert) for b in body), "body of `if X is not None` is not a list of asserts")
        out = stmts(rest, env, cx)
        for b in reversed(body):
            need(b.msg is None, "assert with a message")
            binds = []
            c = boolean(b.test, env.set(x, x + "_cls", "F"), cx, binds)
            need(not binds, "assert with a fallible test")
            out = f"(if {c} then {out}\n   else {r_err(cx, 'AssertionError')})"
        return out

    def is_constrained():
        fn = plain_method("is_constrained")
        need(simple_args(fn) == ["self", "row", "col"] and not fn.args.defaults and not fn.args.kwarg, "is_constrained: signature")
        body = strip_doc(fn.body)
        need(len(body) == 1 and isinstance(body[0], ast.Return) and body[0].value is not None, "is_constrained: not a single return")
        cx = Cx("ob_is_constrained", "E")
        binds = []
        env = Env({"self": ("self", "self"), "row": ("row", "int"), "col": ("col", "int")})
        t = boolean(body[0].value, env, cx, binds)
        need(not binds and not cx.params, "is_constrained: expression")
        memo["text:ob_is_constrained"] = (f"/-- `is_constrained(row, col)` -/\n"
                                          f"def ob_is_constrained {{D C F : Type}} (self : {QR}) (row col : Int) : Bool :=\n  {t}")
        return ("ob_is_constrained", [])

    def range_of(node, env, cx, ty):
        need(isinstance(node, ast.Call) and unp(node.func) == "range" and "range" not in env.d and not node.keywords
             and 1 <= len(node.args) <= 2, "loop is not over range(a[, b])")
        binds = []
        if ty == "nat":
            need(len(node.args) == 1, "range with a start in a loop over the matrix")
            (a, ta) = ex(node.args[0], env, cx, binds)
            need(ta == "nat" and not binds, "range bound")
            return f"(List.range {a})", unp(node.args[0])
        need(len(node.args) == 2, "range without a start")
        (a, ta), (b, tb) = ex(node.args[0], env, cx, binds), ex(node.args[1], env, cx, binds)
        need(not binds, "range bound")
        return f"(ob_py_range {coerce(a, ta, 'int', 'range')} {coerce(b, tb, 'int', 'range')})", None

    def awn():
        fn = plain_method("active_with_neighbors")
        need(simple_args(fn) == ["self", "row", "col"] and not fn.args.defaults and not fn.args.kwarg, "active_with_neighbors: signature")
        body = strip_doc(fn.body)
        need(len(body) == 3, "active_with_neighbors: statement count")
        s0, s1, s2 = body
        need(isinstance(s0, (ast.Assign, ast.AnnAssign)) and isinstance(s0.value, ast.List) and not s0.value.elts, "context = []")
        acc = (s0.target if isinstance(s0, ast.AnnAssign) else s0.targets[0])
        need(isinstance(acc, ast.Name), "accumulator")
        acc = acc.id
        need(isinstance(s1, ast.For) and not s1.orelse and isinstance(s1.target, ast.Name) and len(s1.body) == 1, "outer loop")
        s11 = s1.body[0]
        need(isinstance(s11, ast.For) and not s11.orelse and isinstance(s11.target, ast.Name) and len(s11.body) == 1, "inner loop")
        r, c = s1.target.id, s11.target.id
        need(len({r, c, acc, "row", "col", "self"}) == 6 and r.isidentifier() and c.isidentifier(), "loop variable names")
        app = s11.body[0]
        need(isinstance(app, ast.Expr) and isinstance(app.value, ast.Call) and unp(app.value.func) == acc + ".append"
             and len(app.value.args) == 1 and not app.value.keywords, "loop body is not an append")
        cx = Cx("ob_awn", "E")
        env = Env({"self": ("self", "self"), "row": ("row", "int"), "col": ("col", "int")})
        (rng_r, _) = range_of(s1.iter, env, cx, "int")
        env_r = env.set(r, r, "int")
        (rng_c, _) = range_of(s11.iter, env_r, cx, "int")
        env_c = env_r.set(c, c, "int")
        binds = []
        cell = boolean(app.value.args[0], env_c, cx, binds)
        need(not binds, "appended expression")
        need(isinstance(s2, ast.Return) and isinstance(s2.value, ast.Call) and unp(s2.value.func) == "ActiveWithNeighbors"
             and len(s2.value.args) == 1 and isinstance(s2.value.args[0], ast.Starred) and unp(s2.value.args[0].value) == acc
             and not s2.value.keywords, "return ActiveWithNeighbors(*context)")
        nt = find_func(main, "ActiveWithNeighbors")
        need([unp(b) for b in nt.bases] == ["NamedTuple"], "ActiveWithNeighbors is not a NamedTuple")
        fields = [s.target.id for s in nt.body if isinstance(s, ast.AnnAssign) and isinstance(s.target, ast.Name)]
        need(all(isinstance(s, ast.AnnAssign) and unp(s.annotation) == "bool" and s.value is None for s in nt.body if isinstance(s, ast.AnnAssign)),
             "ActiveWithNeighbors fields")
        bl = [s for s in nt.body if isinstance(s, ast.FunctionDef)]
        need(len(bl) == 1 and bl[0].name == "__bool__" and len(strip_doc(bl[0].body)) == 1 and isinstance(strip_doc(bl[0].body)[0], ast.Return)
             and isinstance(strip_doc(bl[0].body)[0].value, ast.Attribute) and unp(strip_doc(bl[0].body)[0].value.value) == "self",
             "ActiveWithNeighbors.__bool__")
        ps = [p for p in PARAM_ORDER if p in cx.params]
        need(not ps, "active_with_neighbors needs parameters")
        return (f"/-- body of the inner loop of `active_with_neighbors`: `{acc}.append(...)` -/\n"
                f"def ob_awn_cell {{D C F : Type}} (self : {QR}) ({r} {c} : Int) ({acc} : List Bool) : List Bool :=\n  {acc} ++ [{cell}]\n"
                f"/-- `for {c} in {unp(s11.iter)}` -/\n"
                f"def ob_awn_row {{D C F : Type}} (self : {QR}) (row col : Int) ({r} : Int) ({acc} : List Bool) : List Bool :=\n"
                f"  {rng_c}.foldl (fun {acc} {c} => ob_awn_cell self {r} {c} {acc}) {acc}\n"
                f"/-- `active_with_neighbors(row, col)`: the list passed to `ActiveWithNeighbors(*{acc})` -/\n"
                f"def ob_awn {{D C F : Type}} (self : {QR}) (row col : Int) : List Bool :=\n"
                f"  {rng_r}.foldl (fun {acc} {r} => ob_awn_row self row col {r} {acc}) []\n"
                f"/-- field order of the NamedTuple `ActiveWithNeighbors`, and the field `__bool__` returns -/\n"
                f"def ob_awn_fields : List String := [{', '.join(lstr(f) for f in fields)}]\n"
                f"def ob_awn_bool_field : String := {lstr(strip_doc(bl[0].body)[0].value.attr)}")

    def make_image():
        impls = [n for n in qrcode_class().body if isinstance(n, ast.FunctionDef) and n.name == "make_image"
                 and not n.decorator_list]
        need(len(impls) == 1, "make_image: expected exactly one implementation besides the overloads")
        overl = [n for n in qrcode_class().body if isinstance(n, ast.FunctionDef) and n.name == "make_image" and n.decorator_list]
        need(all([unp(d) for d in n.decorator_list] == ["overload"] for n in overl), "make_image: decorated definition that is not an overload")
        need(qrcode_class().body.index(impls[0]) > max([qrcode_class().body.index(n) for n in overl] + [-1]), "implementation is not the last definition")
        fn = impls[0]
        need(simple_args(fn) == ["self", "image_factory"] and [unp(d) for d in fn.args.defaults] == ["None"]
             and fn.args.kwarg is not None and fn.args.kwarg.arg == "kwargs", "make_image: signature")
        body = list(strip_doc(fn.body))
        need(len(body) == 8, f"make_image: {len(body)} statements")
        head, s_new, s_draw, s_proc, s_ret = body[:4], body[4], body[5], body[6], body[7]

        # ---- tail: im = image_factory(...); draw; process; return im
        cxn = Cx("ob_make_image_new", "E")
        need(isinstance(s_new, ast.Assign) and len(s_new.targets) == 1 and isinstance(s_new.targets[0], ast.Name)
             and isinstance(s_new.value, ast.Call) and unp(s_new.value.func) == "image_factory", "im = image_factory(...)")
        im = s_new.targets[0].id
        need(im.isidentifier() and im not in ("self", "w", "e", "kwargs", "image_factory", "evs"), "variable name " + im)
        envn = Env({"self": ("self", "self"), "kwargs": ("kwargs", "kwargs")})
        call = s_new.value
        need(not any(isinstance(a, ast.Starred) for a in call.args), "starred positional argument")
        pos, kws, star = [], [], None
        binds = []
        for a in call.args:
            (t, ty) = ex(a, envn, cxn, binds)
            pos.append(coerce(t, ty, "int", "positional argument"))
        for k in call.keywords:
            if k.arg is None:
                need(star is None and unp(k.value) == "kwargs", "**" + unp(k.value))
                star = "kwargs"
            else:
                need(star is None, "keyword after **kwargs")
                (t, ty) = ex(k.value, envn, cxn, binds)
                need(ty == "mods", "keyword argument of type " + ty)
                kws.append(f"({lstr(k.arg)}, {t})")
        need(not binds and not cxn.params, "factory arguments")
        new_txt = (f"/-- `{im} = {unp(call)[:60]}...`: class, positional arguments in order, keyword arguments, `**kwargs` -/\n"
                   f"def ob_make_image_new {{D C F K : Type}} (self : {QR}) (image_factory : F) (kwargs : List (String × K)) : ob_Call F K :=\n"
                   f"  {{ cls := image_factory, pos := [{', '.join(pos)}], kw := [{', '.join(kws)}], star := {star or '[]'} }}")

        # draw
        cxd = Cx("ob_make_image_draw", "E")
        envd = Env({"self": ("self", "self"), im: (im, "im")})
        need(isinstance(s_draw, ast.If) and not s_draw.orelse and len(s_draw.body) == 1, "if im.needs_drawrect: <loop>")
        binds = []
        draw_test = boolean(s_draw.test, envd, cxd, binds)
        lo = s_draw.body[0]
        need(isinstance(lo, ast.For) and not lo.orelse and isinstance(lo.target, ast.Name) and len(lo.body) == 1, "outer loop")
        li = lo.body[0]
        need(isinstance(li, ast.For) and not li.orelse and isinstance(li.target, ast.Name) and len(li.body) == 1, "inner loop")
        r, c = lo.target.id, li.target.id
        need(len({r, c, im, "self", "evs", "kwargs"}) == 6 and r.isidentifier() and c.isidentifier(), "loop variable names")
        (rng_r, src_r) = range_of(lo.iter, envd, cxd, "nat")
        (rng_c, src_c) = range_of(li.iter, envd, cxd, "nat")
        need(src_r == "self.modules_count" and src_c == "self.modules_count", "loops are not over range(self.modules_count)")
        envc = envd.set(r, r, "nat").set(c, c, "nat").fact(("rangevar", r)).fact(("rangevar", c))

        def event(st):
            need(isinstance(st, ast.Expr) and isinstance(st.value, ast.Call) and isinstance(st.value.func, ast.Attribute)
                 and unp(st.value.func.value) == im, "statement is not a method call on the image")
            cl = st.value
            args = []
            for a in cl.args:
                need(not isinstance(a, ast.Starred), "starred argument")
                (t, ty) = ex(a, envc, cxd, binds)
                args.append(coerce(t, ty, "int", "argument of " + cl.func.attr))
            kw = []
            for k in cl.keywords:
                need(k.arg is not None, "** in a method call on the image")
                kw.append(f"({lstr(k.arg)}, {lstr(unp(k.value))})")
            return f"{{ method := {lstr(cl.func.attr)}, args := [{', '.join(args)}], kw := [{', '.join(kw)}] }}"

        def cell_stmts(ss):
            if not ss:
                return "evs"
            s, rest = ss[0], ss[1:]
            if isinstance(s, ast.If):
                t = boolean(s.test, envc, cxd, binds)
                return f"(if {t} then {cell_stmts(list(s.body) + rest)}\n   else {cell_stmts(list(s.orelse) + rest)})"
            ev = event(s)
            k = cell_stmts(rest)
            need(k == "evs", "statements after a draw call")
            return f"(evs ++ [{ev}])"
        cell = cell_stmts(list(li.body))
        need(isinstance(s_proc, ast.If) and not s_proc.orelse and len(s_proc.body) == 1, "if im.needs_processing: im.process()")
        proc_test = boolean(s_proc.test, envd, cxd, binds)
        proc_ev = event(s_proc.body[0])
        need(not binds, "draw expressions")
        need(isinstance(s_ret, ast.Return) and unp(s_ret.value) == im, "return im")
        psd = [p for p in PARAM_ORDER if p in cxd.params]
        pd = " ".join(f"({p} : {PARAM_TY[p]})" for p in psd)
        ad = " ".join(psd)
        draw_txt = (f"/-- body of the inner loop of `make_image` -/\n"
                    f"def ob_make_image_cell {{D C F K : Type}} {pd} (self : {QR}) ({im} : ob_Call F K) ({r} {c} : Nat) (evs : List ob_Ev) : List ob_Ev :=\n  {cell}\n"
                    f"/-- `for {c} in {unp(li.iter)}` -/\n"
                    f"def ob_make_image_row {{D C F K : Type}} {pd} (self : {QR}) ({im} : ob_Call F K) ({r} : Nat) (evs : List ob_Ev) : List ob_Ev :=\n"
                    f"  {rng_c}.foldl (fun evs {c} => ob_make_image_cell {ad} self {im} {r} {c} evs) evs\n"
                    f"/-- `if {unp(s_draw.test)}: for {r} in {unp(lo.iter)}: ...` then `if {unp(s_proc.test)}: {unp(s_proc.body[0])}`:\n"
                    f"    the method calls on the image, in order -/\n"
                    f"def ob_make_image_draw {{D C F K : Type}} {pd} (self : {QR}) ({im} : ob_Call F K) : List ob_Ev :=\n"
                    f"  let evs : List ob_Ev := []\n"
                    f"  let evs := if {draw_test} then {rng_r}.foldl (fun evs {r} => ob_make_image_row {ad} self {im} {r} evs) evs else evs\n"
                    f"  let evs := if {proc_test} then evs ++ [{proc_ev}] else evs\n"
                    f"  evs")

        # ---- head: embedded-image test, box-size check, implicit compile, factory selection; then the tail
        cx = Cx("ob_make_image", "WS")
        for p in psd:
            cx.param(p)
        cx.ret_ty = None
        tail_call = (f"(let {im} := ob_make_image_new self image_factory_cls kwargs;\n"
                     f"   ({im}, ob_make_image_draw {ad} self {im}))")

        def final(env):
            # after the factory selection `image_factory` must be a class on every path
            return "@@TAIL@@"
        cx.final = final
        env = Env({"self": ("self", "self"), "kwargs": ("kwargs", "kwargs"), "image_factory": ("image_factory", "optF")})
        need(isinstance(head[3], ast.If) and unp(head[3].test) == "image_factory is not None" and len(head[3].orelse) == 2,
             "factory selection shape")
        # statement 3 is compiled by hand: the `else` branch assigns classes to image_factory
        sel = head[3]
        e1, e2 = sel.orelse
        need(isinstance(e1, ast.Assign) and unp(e1) == "image_factory = self.image_factory", "else: image_factory = self.image_factory")
        need(isinstance(e2, ast.If) and unp(e2.test) == "image_factory is None" and not e2.orelse and len(e2.body) == 2
             and isinstance(e2.body[0], ast.ImportFrom) and isinstance(e2.body[1], ast.Assign)
             and unp(e2.body[1].targets[0]) == "image_factory", "default factory shape")
        top_imp = [x for x in main.body if isinstance(x, ast.ImportFrom) and any(a.name == "PyPNGImage" and a.asname is None for a in x.names)]
        need(len(top_imp) == 1, "PyPNGImage import")
        cx.lit("ob_make_image_pure_import", unp(top_imp[0]))
        cx.lit("ob_make_image_import", unp(e2.body[0]))
        envi = env
        for a in e2.body[0].names:
            need(a.asname is None and a.name in ("Image", "PilImage"), "imported name " + a.name)
            envi = envi.set(a.name, cx.param(a.name), "bool" if a.name == "Image" else "F")
        envi = envi.set("PyPNGImage", cx.param("PyPNGImage"), "F")
        binds = []
        (dflt, tyd) = ex(e2.body[1].value, envi, cx, binds)
        need(tyd == "F" and not binds, "default factory expression")
        asserts = sel.body
        need(len(asserts) == 1 and isinstance(asserts[0], ast.Assert) and asserts[0].msg is None, "assert issubclass(...)")
        atest = boolean(asserts[0].test, env.set("image_factory", "image_factory_cls", "F"), cx, binds)
        need(not binds, "assert test")
        use = lambda cls: f"(let image_factory_cls := {cls};\n   ((w, self), .ok {tail_call}))"
        select = (f"(match (generalizing := false) image_factory with\n"
                  f"  | some image_factory_cls =>\n    (if {atest} then {use('image_factory_cls')}\n     else {r_err(cx, 'AssertionError')})\n"
                  f"  | none =>\n    (match (generalizing := false) self.image_factory with\n"
                  f"     | some image_factory_cls => {use('image_factory_cls')}\n"
                  f"     | none => {use(dflt)}))")
        t = stmts(head[:3], env, cx)
        need(t.count("((w, self), .ok @@TAIL@@)") >= 1, "head shape")
        t = t.replace("((w, self), .ok @@TAIL@@)", "ob_make_image_rest " + " ".join(
            [p for p in PARAM_ORDER if p in ("issubclass_BaseImage", "Image", "PilImage", "PyPNGImage") or p in psd]) + " w self image_factory kwargs")
        rest_ps = [p for p in PARAM_ORDER if p in ("issubclass_BaseImage", "Image", "PilImage", "PyPNGImage") or p in psd]
        for p in rest_ps:
            cx.param(p)
        ps = [p for p in PARAM_ORDER if p in cx.params]
        RET = f"(W × {QR}) × Except String (ob_Call F K × List ob_Ev)"
        rest_txt = (f"/-- `make_image`, from the factory selection on: `if image_factory is not None: assert ... else: ...`, the call of the\n"
                    f"    class, the draw loops, `return {im}` -/\n"
                    f"def ob_make_image_rest {{D C F K W : Type}} " + " ".join(f"({p} : {PARAM_TY[p]})" for p in rest_ps)
                    + f" (w : W) (self : {QR}) (image_factory : Option F) (kwargs : List (String × K)) : {RET} :=\n  {select}")
        main_txt = (f"/-- `make_image(image_factory=None, **kwargs)`: the embedded-image test, the box-size check, the implicit compile, then the rest -/\n"
                    f"def ob_make_image {{D C F K W : Type}} " + " ".join(f"({p} : {PARAM_TY[p]})" for p in ps)
                    + f" (w : W) (self : {QR}) (image_factory : Option F) (kwargs : List (String × K)) : {RET} :=\n  {t}")
        return "\n".join([new_txt, draw_txt, rest_txt, main_txt, lits_text(cx)])

    # ------------------------------------------------------------------------------------------------ emission
    def text_of(key, thunk, name):
        def f():
            cached(key, thunk)
            return memo["text:" + name]
        return f

    api.emit("ob_prelude", lambda: PRELUDE)
    for py in ("_check_box_size", "_check_border", "_check_mask_pattern"):
        api.emit("ob" + py, text_of("validator:" + py, (lambda py=py: validator(py)), "ob" + py))
    api.emit("ob_clear", text_of("clear", clear, "ob_clear"))
    api.emit("ob_add_data_reset", add_data_reset)
    api.emit("ob_add_data", add_data)
    for p in ("border", "mask_pattern"):
        api.emit("ob_get_" + p, text_of("getter:" + p, (lambda p=p: getter(p)), "ob_get_" + p))
    api.emit("ob_get_version", text_of("getter:version", version_getter, "ob_get_version"))
    for p in ("version", "border", "mask_pattern"):
        api.emit("ob_set_" + p, text_of("setter:" + p, (lambda p=p: setter(p)), "ob_set_" + p))
    api.emit("ob_init", init)
    api.emit("ob_is_constrained", text_of("is_constrained", is_constrained, "ob_is_constrained"))
    api.emit("ob_awn", awn)
    api.emit("ob_make_image", make_image)
