"""T2 fragments, list D6 ("small leftovers"): every emitted name starts with `lo_`.

  base.py             Polynomial.__getitem__ / __iter__ / __len__
  util.py             pattern_position, QRData.__repr__, BitBuffer.__repr__
  main.py             make() (the module-level shortcut), QRCode.setup_position_probe_pattern, setup_timing_pattern,
                      setup_position_adjust_pattern - each translated WHOLE by one small statement compiler over an abstract
                      matrix (`isSet m r c` = `self.modules[r][c] is not None`, `set m r c v` = `self.modules[r][c] = v`)
  console_scripts.py  commas, get_drawer_help

Every emitter reads the Python AST of the current source; the statement compiler accepts only `for x in range(..)`,
`if t: continue`, `if t: .. else: ..`, `self.modules[a][b] = v`, `name = int-expression`; anything else is Untranslatable.
Python list semantics (negative indices, slices, str.join, range) get one fixed Lean meaning in the prelude `lo_py_*`.
"""
import ast
import json


PRELUDE = '''/-- `len(l)` -/
def lo_py_len {α : Type} (l : List α) : Int := (l.length : Int)
/-- `l[i]` for a Python int `i` (negative indices count from the end); `none` = IndexError -/
def lo_py_getitem {α : Type} (l : List α) (i : Int) : Option α :=
  if (if i < 0 then i + (l.length : Int) else i) < 0 then none else l[(if i < 0 then i + (l.length : Int) else i).toNat]?
/-- `l[i]` where the surrounding code guarantees the index (value `default` otherwise) -/
def lo_py_getitemD {α : Type} [Inhabited α] (l : List α) (i : Int) : α := (lo_py_getitem l i).getD default
/-- a slice bound, clamped as Python does -/
def lo_py_clamp (len i : Int) : Nat :=
  if (if i < 0 then i + len else i) < 0 then 0
  else if (if i < 0 then i + len else i) > len then len.toNat else (if i < 0 then i + len else i).toNat
/-- `l[lo:hi]` (step 1) -/
def lo_py_slice {α : Type} (l : List α) (lo hi : Option Int) : List α :=
  (l.take (match hi with | none => l.length | some i => lo_py_clamp l.length i)).drop
    (match lo with | none => 0 | some i => lo_py_clamp l.length i)
/-- `sep.join(parts)` -/
def lo_py_join (sep : String) : List String → String
  | [] => ""
  | [p] => p
  | p :: q :: rest => p ++ sep ++ lo_py_join sep (q :: rest)
/-- `range(a, b)` -/
def lo_range (a b : Int) : List Int := (List.range (b - a).toNat).map (fun (k : Nat) => a + (k : Int))
/-- a dict of sets, both in insertion order: `d.setdefault(k, set()).add(x)` -/
def lo_py_setdefault_add (d : List (String × List String)) (k x : String) : List (String × List String) :=
  if d.any (fun e => e.1 == k) then d.map (fun e => if e.1 == k then (e.1, if e.2.contains x then e.2 else e.2 ++ [x]) else e)
  else d ++ [(k, [x])]'''


def fragments(api):
    U = api.Untranslatable
    find_func, strip_doc, Tr = api.find_func, api.strip_doc, api.Tr

    def need(cond, why):
        if not cond:
            raise U(why)

    def unp(node):
        return ast.unparse(node)

    def lean_str(s):
        out = []
        for ch in s:
            o = ord(ch)
            if ch == '"':
                out.append('\\"')
            elif ch == "\\":
                out.append("\\\\")
            elif ch == "\n":
                out.append("\\n")
            elif o < 0x20 or o > 0x7E:
                out.append("\\u{%x}" % o)
            else:
                out.append(ch)
        return '"' + "".join(out) + '"'

    def plain_args(fn, names):
        a = fn.args
        need([x.arg for x in a.args] == names and not a.vararg and not a.kwarg and not a.kwonlyargs and not a.posonlyargs
             and not a.defaults, f"signature of {fn.name}: expected ({', '.join(names)})")

    def no_decorators(fn):
        need(not fn.decorator_list, f"{fn.name} is decorated")

    api.emit("lo_prelude", lambda: PRELUDE)

    # ============================================================================================================
    # base.py: Polynomial.__getitem__, __iter__, __len__
    # ============================================================================================================
    def poly():
        base = api.parse("qrcode/base.py")
        out = []
        # __getitem__(self, index): return self.num[index]
        fn = find_func(base, "Polynomial.__getitem__")
        no_decorators(fn)
        plain_args(fn, ["self", "index"])
        body = strip_doc(fn.body)
        need(len(body) == 1 and isinstance(body[0], ast.Return) and isinstance(body[0].value, ast.Subscript), "__getitem__: not `return X[i]`")
        sub = body[0].value
        need(isinstance(sub.value, ast.Attribute) and isinstance(sub.value.value, ast.Name) and sub.value.value.id == "self",
             "__getitem__: container is not an attribute of self")
        need(not isinstance(sub.slice, ast.Slice), "__getitem__: slice")
        tr = Tr({"index": "index"}, "Int")
        out.append(f"def lo_poly_getitem_attr : String := {lean_str(unp(sub.value))}")
        out.append(f"def lo_poly_getitem {{α : Type}} (num : List α) (index : Int) : Option α := lo_py_getitem num {tr.num(sub.slice)}")
        # __iter__(self): return iter(self.num)
        fn = find_func(base, "Polynomial.__iter__")
        no_decorators(fn)
        plain_args(fn, ["self"])
        body = strip_doc(fn.body)
        need(len(body) == 1 and isinstance(body[0], ast.Return) and isinstance(body[0].value, ast.Call), "__iter__: not `return f(X)`")
        call = body[0].value
        need(isinstance(call.func, ast.Name) and call.func.id == "iter" and len(call.args) == 1 and not call.keywords, "__iter__: not iter(X)")
        need(isinstance(call.args[0], ast.Attribute) and unp(call.args[0].value) == "self", "__iter__: argument is not an attribute of self")
        out.append(f"def lo_poly_iter_attr : String := {lean_str(unp(call.args[0]))}")
        out.append("/-- the sequence of values the iterator yields -/\n"
                   "def lo_poly_iter {α : Type} (num : List α) : List α := num")
        # __len__(self): return len(self.num)
        fn = find_func(base, "Polynomial.__len__")
        no_decorators(fn)
        plain_args(fn, ["self"])
        body = strip_doc(fn.body)
        need(len(body) == 1 and isinstance(body[0], ast.Return) and isinstance(body[0].value, ast.Call), "__len__: not `return f(X)`")
        call = body[0].value
        need(isinstance(call.func, ast.Name) and call.func.id == "len" and len(call.args) == 1 and not call.keywords, "__len__: not len(X)")
        need(isinstance(call.args[0], ast.Attribute) and unp(call.args[0].value) == "self", "__len__: argument is not an attribute of self")
        out.append(f"def lo_poly_len_attr : String := {lean_str(unp(call.args[0]))}")
        out.append("def lo_poly_len {α : Type} (num : List α) : Int := lo_py_len num")
        # the attribute the three read is the one __init__ stores
        init = find_func(base, "Polynomial.__init__")
        stores = [unp(t) for s in ast.walk(init) if isinstance(s, ast.Assign) for t in s.targets if unp(t).startswith("self.")]
        out.append(f"def lo_poly_init_stores : List String := [{', '.join(lean_str(x) for x in stores)}]")
        return "\n".join(out)
    api.emit("lo_poly_accessors", poly)

    # ============================================================================================================
    # util.py: pattern_position, QRData.__repr__, BitBuffer.__repr__
    # ============================================================================================================
    def patpos():
        util = api.trees["util"]
        fn = find_func(util, "pattern_position")
        no_decorators(fn)
        plain_args(fn, ["version"])
        body = strip_doc(fn.body)
        need(len(body) == 1 and isinstance(body[0], ast.Return) and isinstance(body[0].value, ast.Subscript), "not `return T[e]`")
        sub = body[0].value
        need(isinstance(sub.value, ast.Name), "table is not a module-level name")
        need(not isinstance(sub.slice, ast.Slice), "slice")
        # the table name must be a module-level literal assignment (T1 regenerates it under the same name)
        asg = [s for s in util.body if isinstance(s, ast.Assign) and any(isinstance(t, ast.Name) and t.id == sub.value.id for t in s.targets)]
        need(len(asg) == 1 and isinstance(asg[0].value, ast.List), "table is not assigned exactly once to a list literal")
        tr = Tr({"version": "version"}, "Int")
        return (f"def lo_pattern_position_table : String := {lean_str(sub.value.id)}\n"
                f"def lo_pattern_position_index (version : Int) : Int := {tr.num(sub.slice)}\n"
                f"def lo_pattern_position {{α : Type}} (table : List α) (version : Int) : Option α := "
                f"lo_py_getitem table (lo_pattern_position_index version)")
    api.emit("lo_pattern_position", patpos)

    def reprs():
        util = api.trees["util"]
        fn = find_func(util, "QRData.__repr__")
        no_decorators(fn)
        plain_args(fn, ["self"])
        body = strip_doc(fn.body)
        need(len(body) == 1 and isinstance(body[0], ast.Return) and isinstance(body[0].value, ast.Call), "QRData.__repr__: not `return f(X)`")
        call = body[0].value
        need(isinstance(call.func, ast.Name) and len(call.args) == 1 and not call.keywords, "QRData.__repr__: call shape")
        out = [f"def lo_qrdata_repr : String × String := ({lean_str(call.func.id)}, {lean_str(unp(call.args[0]))})"]
        fn = find_func(util, "BitBuffer.__repr__")
        no_decorators(fn)
        plain_args(fn, ["self"])
        body = strip_doc(fn.body)
        need(len(body) == 1 and isinstance(body[0], ast.Return) and isinstance(body[0].value, ast.Call), "BitBuffer.__repr__: not `return s.join(..)`")
        call = body[0].value
        need(isinstance(call.func, ast.Attribute) and call.func.attr == "join" and isinstance(call.func.value, ast.Constant)
             and isinstance(call.func.value.value, str) and len(call.args) == 1 and not call.keywords, "BitBuffer.__repr__: not 'sep'.join(..)")
        comp = call.args[0]
        need(isinstance(comp, (ast.ListComp, ast.GeneratorExp)) and len(comp.generators) == 1, "BitBuffer.__repr__: comprehension")
        g = comp.generators[0]
        need(isinstance(g.target, ast.Name) and not g.ifs and not g.is_async and unp(g.iter) == "self.buffer", "BitBuffer.__repr__: generator")
        e = comp.elt
        need(isinstance(e, ast.Call) and isinstance(e.func, ast.Name) and e.func.id == "str" and len(e.args) == 1
             and isinstance(e.args[0], ast.Name) and e.args[0].id == g.target.id, "BitBuffer.__repr__: element is not str(n)")
        out.append(f"def lo_bitbuffer_repr (buffer : List Nat) : String := lo_py_join {lean_str(call.func.value.value)} (buffer.map (fun n => toString n))")
        return "\n".join(out)
    api.emit("lo_reprs", reprs)

    # ============================================================================================================
    # main.py: make(data=None, **kwargs)
    # ============================================================================================================
    def shortcut():
        main = api.trees["main"]
        fn = find_func(main, "make")
        no_decorators(fn)
        a = fn.args
        need([x.arg for x in a.args] == ["data"] and not a.vararg and a.kwarg is not None and not a.kwonlyargs and not a.posonlyargs
             and len(a.defaults) == 1, "signature is not (data=<default>, **kwargs)")
        need(isinstance(a.defaults[0], ast.Constant) and a.defaults[0].value is None, "default of data is not None")
        kw = a.kwarg.arg
        body = strip_doc(fn.body)
        need(len(body) == 3, "expected three statements")
        s1, s2, s3 = body
        # qr = QRCode(**kwargs)
        need(isinstance(s1, ast.Assign) and len(s1.targets) == 1 and isinstance(s1.targets[0], ast.Name) and isinstance(s1.value, ast.Call),
             "statement 1 is not `x = C(..)`")
        obj = s1.targets[0].id
        c1 = s1.value
        need(isinstance(c1.func, ast.Name), "statement 1: callee")
        need(not c1.args and len(c1.keywords) == 1 and c1.keywords[0].arg is None and isinstance(c1.keywords[0].value, ast.Name)
             and c1.keywords[0].value.id == kw, "statement 1: the constructor does not receive exactly **kwargs")
        # qr.add_data(data)
        need(isinstance(s2, ast.Expr) and isinstance(s2.value, ast.Call), "statement 2 is not a call")
        c2 = s2.value
        need(isinstance(c2.func, ast.Attribute) and isinstance(c2.func.value, ast.Name) and c2.func.value.id == obj, "statement 2: not a method of the new object")
        need(len(c2.args) == 1 and not c2.keywords and isinstance(c2.args[0], ast.Name) and c2.args[0].id == "data", "statement 2: arguments are not (data)")
        # return qr.make_image()
        need(isinstance(s3, ast.Return) and isinstance(s3.value, ast.Call), "statement 3 is not `return call`")
        c3 = s3.value
        need(isinstance(c3.func, ast.Attribute) and isinstance(c3.func.value, ast.Name) and c3.func.value.id == obj, "statement 3: not a method of the new object")
        need(not c3.args and not c3.keywords, "statement 3: arguments")
        # the name the constructor resolves to: the class of this module
        cls = [s for s in main.body if isinstance(s, ast.ClassDef) and s.name == c1.func.id]
        need(len(cls) == 1, "constructor is not a class of qrcode/main.py")
        return (f"def lo_make_data_default : String := {lean_str(unp(a.defaults[0]))}\n"
                f"def lo_make_callees : String × String × String := ({lean_str(c1.func.id)}, {lean_str(c2.func.attr)}, {lean_str(c3.func.attr)})\n"
                "/-- the statement sequence: the constructor gets all keyword arguments (and nothing else), the method `lo_make_callees.2.1`\n"
                "    gets `data` only, the result is what the method `lo_make_callees.2.2` returns for the same object; exceptions propagate -/\n"
                "def lo_make {Kw D Obj Img E : Type} (ctor : Kw → Except E Obj) (m2 : Obj → D → Except E Obj) (m3 : Obj → Except E Img)\n"
                f"    ({kw} : Kw) (data : D) : Except E Img :=\n"
                f"  match ctor {kw} with\n"
                "  | .error e => .error e\n"
                f"  | .ok {obj} =>\n"
                f"    match m2 {obj} {c2.args[0].id} with\n"
                "    | .error e => .error e\n"
                f"    | .ok {obj} => m3 {obj}")
    api.emit("lo_make", shortcut)

    # ============================================================================================================
    # main.py: the three pattern writers, by one statement compiler
    # ============================================================================================================
    class Comp:
        """statements over the matrix state `m`; ints are Lean Int; lists of ints are parameters"""
        def __init__(self, env, lists):
            self.env = dict(env)          # python name -> lean Int term
            self.lists = dict(lists)      # python name -> lean (List Int) term

        def tr(self, extra=None):
            subs = {}
            return Tr(self.env, "Int", subs)

        def prep(self, node):
            """register the list subscripts / len() calls occurring in `node` so that api.Tr can print them"""
            subs = {}
            for n in ast.walk(node):
                if isinstance(n, ast.Subscript) and isinstance(n.value, ast.Name) and n.value.id in self.lists:
                    need(not isinstance(n.slice, ast.Slice), "slice of " + n.value.id)
                    inner = self.prep(n.slice)
                    subs[unp(n)] = f"(lo_py_getitemD {self.lists[n.value.id]} {inner.num(n.slice)})"
                if isinstance(n, ast.Call) and isinstance(n.func, ast.Name) and n.func.id == "len" and len(n.args) == 1 and not n.keywords \
                        and isinstance(n.args[0], ast.Name) and n.args[0].id in self.lists:
                    subs[unp(n)] = f"(lo_py_len {self.lists[n.args[0].id]})"
            return Tr(self.env, "Int", subs)

        def num(self, node):
            return self.prep(node).num(node)

        def cell(self, node):
            """self.modules[a][b] -> (a, b)"""
            need(isinstance(node, ast.Subscript) and isinstance(node.value, ast.Subscript) and unp(node.value.value) == "self.modules"
                 and not isinstance(node.slice, ast.Slice) and not isinstance(node.value.slice, ast.Slice),
                 "not a cell self.modules[a][b]: " + unp(node)[:50])
            return self.num(node.value.slice), self.num(node.slice)

        def test(self, node):
            if isinstance(node, ast.Compare) and len(node.ops) == 1 and isinstance(node.ops[0], (ast.Is, ast.IsNot)):
                need(isinstance(node.comparators[0], ast.Constant) and node.comparators[0].value is None, "identity test against something else than None")
                a, b = self.cell(node.left)
                t = f"isSet m {a} {b}"
                return f"({t})" if isinstance(node.ops[0], ast.IsNot) else f"(!({t}))"
            for n in ast.walk(node):
                if isinstance(n, ast.Compare) and any(isinstance(o, (ast.Is, ast.IsNot)) for o in n.ops):
                    raise U("identity test inside a compound condition")
            return self.prep(node).boolean(node)

        def value(self, node):
            """the value stored into a cell: a Bool"""
            return self.prep(node).boolean(node)

        def has_continue(self, stmts):
            for s in stmts:
                for n in ast.walk(s):
                    if isinstance(n, (ast.Continue, ast.Break, ast.Return)):
                        return True
            return False

        def block(self, stmts, ind):
            """Lean term (type M) for the state after `stmts`, starting from the variable `m`; `continue` = the current `m`"""
            pad = "  " * ind
            if not stmts:
                return pad + "m"
            s, rest = stmts[0], stmts[1:]
            if isinstance(s, ast.If) and len(s.body) == 1 and isinstance(s.body[0], ast.Continue):
                need(not s.orelse, "else branch after continue")
                return f"{pad}if {self.test(s.test)} then m else\n" + self.block(rest, ind)
            if isinstance(s, ast.If):
                need(not self.has_continue(s.body) and not self.has_continue(s.orelse), "continue/break/return inside a two-way branch")
                saved = dict(self.env)
                a = self.block(s.body, ind + 2)
                self.env = dict(saved)
                b = self.block(s.orelse, ind + 2)
                self.env = saved
                return (f"{pad}let m : M :=\n{pad}  if {self.test(s.test)} then\n{a}\n{pad}  else\n{b}\n" + self.block(rest, ind))
            if isinstance(s, ast.Assign):
                need(len(s.targets) == 1, "multiple assignment targets")
                t = s.targets[0]
                if isinstance(t, ast.Name):
                    need(t.id not in self.lists, "list variable reassigned")
                    v = self.num(s.value)
                    self.env[t.id] = t.id
                    return f"{pad}let {t.id} : Int := {v}\n" + self.block(rest, ind)
                a, b = self.cell(t)
                return f"{pad}let m : M := set m {a} {b} ({self.value(s.value)})\n" + self.block(rest, ind)
            if isinstance(s, ast.For):
                need(not s.orelse, "for ... else")
                need(isinstance(s.target, ast.Name), "loop target")
                it = s.iter
                need(isinstance(it, ast.Call) and isinstance(it.func, ast.Name) and it.func.id == "range" and not it.keywords
                     and 1 <= len(it.args) <= 2, "loop is not over range(a[, b])")
                lo = "0" if len(it.args) == 1 else self.num(it.args[0])
                hi = self.num(it.args[-1])
                for n in ast.walk(s):
                    if isinstance(n, (ast.Break, ast.Return)):
                        raise U("break/return inside a loop")
                x = s.target.id
                need(x not in self.env and x not in self.lists, "loop variable shadows " + x)
                saved = dict(self.env)
                self.env[x] = x
                body = self.block(s.body, ind + 2)
                self.env = saved
                return (f"{pad}let m : M := (lo_range {lo} {hi}).foldl (fun (m : M) ({x} : Int) =>\n{body}) m\n" + self.block(rest, ind))
            raise U("statement " + type(s).__name__ + ": " + unp(s)[:40])

    HDR = "{M : Type} (isSet : M → Int → Int → Bool) (set : M → Int → Int → Bool → M)"

    def probe():
        fn = find_func(api.trees["main"], "QRCode.setup_position_probe_pattern")
        no_decorators(fn)
        plain_args(fn, ["self", "row", "col"])
        c = Comp({"row": "row", "col": "col", "self.modules_count": "n"}, {})
        return (f"def lo_setup_position_probe_pattern {HDR} (n row col : Int) (m : M) : M :=\n" + c.block(strip_doc(fn.body), 1))
    api.emit("lo_setup_position_probe_pattern", probe)

    def timing():
        fn = find_func(api.trees["main"], "QRCode.setup_timing_pattern")
        no_decorators(fn)
        plain_args(fn, ["self"])
        c = Comp({"self.modules_count": "n"}, {})
        return (f"def lo_setup_timing_pattern {HDR} (n : Int) (m : M) : M :=\n" + c.block(strip_doc(fn.body), 1))
    api.emit("lo_setup_timing_pattern", timing)

    def adjust():
        fn = find_func(api.trees["main"], "QRCode.setup_position_adjust_pattern")
        no_decorators(fn)
        plain_args(fn, ["self"])
        body = strip_doc(fn.body)
        need(body and isinstance(body[0], ast.Assign) and len(body[0].targets) == 1 and isinstance(body[0].targets[0], ast.Name)
             and isinstance(body[0].value, ast.Call), "first statement is not `pos = f(..)`")
        lst = body[0].targets[0].id
        call = body[0].value
        need(not call.keywords and len(call.args) == 1, "arguments of the position lookup")
        c = Comp({}, {lst: lst})
        return (f"def lo_adjust_positions_call : String × String := ({lean_str(unp(call.func))}, {lean_str(unp(call.args[0]))})\n"
                f"def lo_setup_position_adjust_pattern {HDR} ({lst} : List Int) (m : M) : M :=\n" + c.block(body[1:], 1))
    api.emit("lo_setup_position_adjust_pattern", adjust)

    # ============================================================================================================
    # console_scripts.py: commas, get_drawer_help
    # ============================================================================================================
    class Str:
        """string / list-of-string expressions; env: python name -> (lean term, 'str' | 'list')"""
        def __init__(self, env):
            self.env = env

        def kind(self, node):
            if isinstance(node, ast.Name) and node.id in self.env:
                return self.env[node.id][1]
            return None

        def int_const(self, node):
            if isinstance(node, ast.Constant) and isinstance(node.value, int) and not isinstance(node.value, bool):
                return node.value
            if isinstance(node, ast.UnaryOp) and isinstance(node.op, ast.USub) and isinstance(node.operand, ast.Constant) \
                    and isinstance(node.operand.value, int):
                return -node.operand.value
            raise U("index is not an integer literal: " + unp(node))

        def lst(self, node):
            if self.kind(node) == "list":
                return self.env[node.id][0]
            if isinstance(node, ast.Subscript) and isinstance(node.slice, ast.Slice):
                sl = node.slice
                need(sl.step is None, "slice step")
                lo = "none" if sl.lower is None else f"(some ({self.int_const(sl.lower)}))"
                hi = "none" if sl.upper is None else f"(some ({self.int_const(sl.upper)}))"
                return f"(lo_py_slice {self.lst(node.value)} {lo} {hi})"
            raise U("list expression " + unp(node)[:40])

        def s(self, node):
            if isinstance(node, ast.Constant) and isinstance(node.value, str):
                return lean_str(node.value)
            if self.kind(node) == "str":
                return self.env[node.id][0]
            if isinstance(node, ast.Subscript) and not isinstance(node.slice, ast.Slice):
                return f"(lo_py_getitemD {self.lst(node.value)} ({self.int_const(node.slice)}))"
            if isinstance(node, ast.Call) and isinstance(node.func, ast.Attribute) and node.func.attr == "join":
                need(len(node.args) == 1 and not node.keywords, "join arguments")
                return f"(lo_py_join {self.s(node.func.value)} {self.lst(node.args[0])})"
            if isinstance(node, ast.JoinedStr):
                parts = []
                for v in node.values:
                    if isinstance(v, ast.FormattedValue):
                        need(v.conversion == -1 and v.format_spec is None, "conversion / format spec in an f-string")
                        parts.append(self.s(v.value))
                    else:
                        parts.append(self.s(v))
                return "(" + " ++ ".join(parts) + ")" if parts else '""'
            raise U("string expression " + unp(node)[:40])

        def test(self, node):
            if isinstance(node, ast.UnaryOp) and isinstance(node.op, ast.Not) and self.kind(node.operand) == "list":
                return f"decide (lo_py_len {self.env[node.operand.id][0]} = 0)"
            if isinstance(node, ast.Compare) and len(node.ops) == 1 and isinstance(node.left, ast.Call) and unp(node.left.func) == "len" \
                    and len(node.left.args) == 1 and self.kind(node.left.args[0]) == "list" and type(node.ops[0]) in CMP:
                return f"decide (lo_py_len {self.env[node.left.args[0].id][0]} {CMP[type(node.ops[0])]} {self.int_const(node.comparators[0])})"
            raise U("test " + unp(node)[:40])

    CMP = {ast.Eq: "=", ast.NotEq: "≠", ast.Lt: "<", ast.LtE: "≤", ast.Gt: ">", ast.GtE: "≥"}

    def commas_fn():
        cs = api.parse("qrcode/console_scripts.py")
        fn = find_func(cs, "commas")
        no_decorators(fn)
        a = fn.args
        need([x.arg for x in a.args] == ["items", "joiner"] and not a.vararg and not a.kwarg and not a.kwonlyargs and not a.posonlyargs
             and len(a.defaults) == 1 and isinstance(a.defaults[0], ast.Constant) and isinstance(a.defaults[0].value, str),
             "signature is not (items, joiner=<str>)")
        body = strip_doc(fn.body)
        need(body and isinstance(body[0], ast.Assign) and unp(body[0]) == "items = tuple(items)", "first statement is not `items = tuple(items)`")
        st = Str({"items": ("items", "list"), "joiner": ("joiner", "str")})

        def chain(stmts):
            need(stmts, "falls off the end")
            s = stmts[0]
            if isinstance(s, ast.Return):
                need(len(stmts) == 1, "statements after return")
                return st.s(s.value)
            if isinstance(s, ast.If):
                need(not s.orelse and len(s.body) == 1 and isinstance(s.body[0], ast.Return), "branch shape")
                return f"if {st.test(s.test)} then {st.s(s.body[0].value)}\n  else {chain(stmts[1:])}"
            raise U("statement " + type(s).__name__)
        return (f"def lo_commas_joiner_default : String := {lean_str(a.defaults[0].value)}\n"
                f"def lo_commas (items : List String) (joiner : String) : String :=\n  {chain(body[1:])}")
    api.emit("lo_commas", commas_fn)

    def drawer_help():
        cs = api.parse("qrcode/console_scripts.py")
        fn = find_func(cs, "get_drawer_help")
        no_decorators(fn)
        plain_args(fn, [])
        body = strip_doc(fn.body)
        need(len(body) == 3, "expected three statements")
        s1, loop, ret = body
        # help = {}
        need(isinstance(s1, (ast.Assign, ast.AnnAssign)) and isinstance(s1.value, ast.Dict) and not s1.value.keys, "statement 1 is not `help = {}`")
        tgt = s1.target if isinstance(s1, ast.AnnAssign) else s1.targets[0]
        need(isinstance(tgt, ast.Name), "statement 1 target")
        d = tgt.id
        # for alias, module in default_factories.items():
        need(isinstance(loop, ast.For) and not loop.orelse and isinstance(loop.target, ast.Tuple) and len(loop.target.elts) == 2
             and all(isinstance(e, ast.Name) for e in loop.target.elts), "statement 2 is not `for a, b in ...`")
        k, v = (e.id for e in loop.target.elts)
        it = loop.iter
        need(isinstance(it, ast.Call) and isinstance(it.func, ast.Attribute) and it.func.attr == "items" and not it.args and not it.keywords
             and isinstance(it.func.value, ast.Name), "loop is not over NAME.items()")
        table = it.func.value.id
        need(len(loop.body) == 5, "loop body: expected five statements")
        t, ga, tst, sd, add = loop.body
        # try: image = get_factory(module) / except ImportError: continue
        need(isinstance(t, ast.Try) and len(t.body) == 1 and len(t.handlers) == 1 and not t.orelse and not t.finalbody, "try shape")
        need(isinstance(t.body[0], ast.Assign) and isinstance(t.body[0].targets[0], ast.Name) and isinstance(t.body[0].value, ast.Call), "try body")
        img = t.body[0].targets[0].id
        gf = t.body[0].value
        need(isinstance(gf.func, ast.Name) and len(gf.args) == 1 and not gf.keywords and isinstance(gf.args[0], ast.Name) and gf.args[0].id == v,
             "the import call does not receive the dict value")
        h = t.handlers[0]
        need(h.type is not None and isinstance(h.type, ast.Name) and len(h.body) == 1 and isinstance(h.body[0], ast.Continue), "handler shape")
        # aliases = getattr(image, "drawer_aliases", None)
        need(isinstance(ga, (ast.Assign, ast.AnnAssign)) and isinstance(ga.value, ast.Call), "statement `aliases = getattr(..)`")
        gtgt = ga.target if isinstance(ga, ast.AnnAssign) else ga.targets[0]
        al = gtgt.id
        g = ga.value
        need(isinstance(g.func, ast.Name) and g.func.id == "getattr" and len(g.args) == 3 and not g.keywords and isinstance(g.args[0], ast.Name)
             and g.args[0].id == img and isinstance(g.args[1], ast.Constant) and isinstance(g.args[1].value, str)
             and isinstance(g.args[2], ast.Constant) and g.args[2].value is None, "getattr(image, <str>, None)")
        # if not aliases: continue
        need(isinstance(tst, ast.If) and not tst.orelse and len(tst.body) == 1 and isinstance(tst.body[0], ast.Continue)
             and isinstance(tst.test, ast.UnaryOp) and isinstance(tst.test.op, ast.Not) and isinstance(tst.test.operand, ast.Name)
             and tst.test.operand.id == al, "`if not aliases: continue`")
        # factories = help.setdefault(commas(aliases), set())
        need(isinstance(sd, ast.Assign) and isinstance(sd.targets[0], ast.Name) and isinstance(sd.value, ast.Call), "setdefault statement")
        fs = sd.targets[0].id
        c = sd.value
        need(isinstance(c.func, ast.Attribute) and c.func.attr == "setdefault" and isinstance(c.func.value, ast.Name) and c.func.value.id == d
             and len(c.args) == 2 and not c.keywords and unp(c.args[1]) == "set()", "help.setdefault(key, set())")
        key = c.args[0]
        need(isinstance(key, ast.Call) and isinstance(key.func, ast.Name) and key.func.id == "commas" and not key.keywords
             and 1 <= len(key.args) <= 2 and isinstance(key.args[0], ast.Name) and key.args[0].id == al, "key is not commas(aliases[, joiner])")
        st = Str({})
        key_joiner = st.s(key.args[1]) if len(key.args) == 2 else "lo_commas_joiner_default"
        # factories.add(alias)
        need(isinstance(add, ast.Expr) and isinstance(add.value, ast.Call) and isinstance(add.value.func, ast.Attribute)
             and add.value.func.attr == "add" and isinstance(add.value.func.value, ast.Name) and add.value.func.value.id == fs
             and len(add.value.args) == 1 and not add.value.keywords and isinstance(add.value.args[0], ast.Name)
             and add.value.args[0].id == k, "factories.add(alias)")
        # return ". ".join(f"..." for aliases, factories in help.items())
        need(isinstance(ret, ast.Return) and isinstance(ret.value, ast.Call) and isinstance(ret.value.func, ast.Attribute)
             and ret.value.func.attr == "join" and isinstance(ret.value.func.value, ast.Constant) and len(ret.value.args) == 1
             and not ret.value.keywords, "return sep.join(..)")
        sep = ret.value.func.value.value
        need(isinstance(sep, str), "separator")
        gen = ret.value.args[0]
        need(isinstance(gen, (ast.GeneratorExp, ast.ListComp)) and len(gen.generators) == 1, "generator")
        gg = gen.generators[0]
        need(not gg.ifs and not gg.is_async and isinstance(gg.target, ast.Tuple) and len(gg.target.elts) == 2
             and all(isinstance(e, ast.Name) for e in gg.target.elts) and unp(gg.iter) == d + ".items()", "generator over help.items()")
        gk, gv = (e.id for e in gg.target.elts)
        need(isinstance(gen.elt, ast.JoinedStr), "element is not an f-string")
        parts = []
        for x in gen.elt.values:
            if isinstance(x, ast.FormattedValue):
                need(x.conversion == -1 and x.format_spec is None, "conversion / format spec")
                e = x.value
                if isinstance(e, ast.Name) and e.id == gk:
                    parts.append("e.1")
                elif isinstance(e, ast.Call) and isinstance(e.func, ast.Name) and e.func.id == "commas" and not e.keywords \
                        and 1 <= len(e.args) <= 2 and isinstance(e.args[0], ast.Name) and e.args[0].id == gv:
                    j = st.s(e.args[1]) if len(e.args) == 2 else "lo_commas_joiner_default"
                    parts.append(f"lo_commas e.2 {j}")
                else:
                    raise U("f-string field " + unp(e)[:40])
            else:
                parts.append(st.s(x))
        d, k, v, img, al = (f"«{x}»" for x in (d, k, v, img, al))
        return (f"def lo_gdh_names : List String := [{', '.join(lean_str(x) for x in [table, gf.func.id, unp(h.type), g.args[1].value])}]\n"
                "/-- one iteration: `import_` = the import call (`none` = the caught exception), `attr` = the getattr (`none` = the default None);\n"
                "    an empty container is falsy -/\n"
                "def lo_gdh_step {Img : Type} (import_ : String → Option Img) (attr : Img → Option (List String))\n"
                f"    ({d} : List (String × List String)) ({k} {v} : String) : List (String × List String) :=\n"
                f"  match import_ {v} with\n"
                f"  | none => {d}\n"
                f"  | some {img} =>\n"
                f"    match attr {img} with\n"
                f"    | none => {d}\n"
                f"    | some {al} =>\n"
                f"      if decide (lo_py_len {al} = 0) then {d}\n"
                f"      else lo_py_setdefault_add {d} (lo_commas {al} {key_joiner}) {k}\n"
                "def lo_get_drawer_help {Img : Type} (import_ : String → Option Img) (attr : Img → Option (List String))\n"
                "    (table : List (String × String)) : String :=\n"
                f"  lo_py_join {lean_str(sep)} (((table.foldl (fun d kv => lo_gdh_step import_ attr d kv.1 kv.2) []).map\n"
                f"    (fun e => {' ++ '.join(parts)})))")
    api.emit("lo_get_drawer_help", drawer_help)
