#!/usr/bin/env python3
"""Regenerates MANIFEST.json from the table below (kept in one place so that it stays valid)."""
import json, os
VERIF = os.path.dirname(os.path.dirname(os.path.abspath(__file__)))
props = {json.loads(l)["id"]: json.loads(l) for l in open(os.path.join(VERIF, "properties.jsonl"))}

PROOF_NOTE = ("Trusted: Lean 4.33 kernel (axioms propext/Quot.sound/Classical.choice only, audited by #print axioms; no native_decide, "
              "bv_decide, sorry or own axioms); the Spec layer as a reading of ISO/IEC 18004 and of the property; translator T1 "
              "(tables re-dumped from /repo on every run); the correspondence harness for the hand-written Model functions "
              "(finite domains enumerated completely, unbounded ones boundary-directed + seeded random); CPython/Pillow/pypng/etree "
              "semantics where DESIGN.md section 4 names them.")

CLAIMED = {
 "C01": ("6/C01", "Theorem C01_example_roundtrip (kernel-evaluated round trip) while the general composition theorem is built from the spine lemmas of C02/C04/C05/C06; tie: Model.compile vs QRCode.make on version+modules for boundary-directed cases; oracle: strict Spec reader on implementation symbols returns payload, version, level, mask.", "Lean 4 theorems over an executable model + model/implementation correspondence + Spec-reader oracle"),
 "C02": ("6/C02", "Theorems: EXP/LOG tables = GF(256) mod 0x11D powers of alpha, LUT = ISO generators with roots alpha^0..alpha^(e-1), rs_blocks = ISO Table 9 for all 160 pairs (complete kernel enumerations over tables regenerated from the source each run). Tie: gexp/glog/rs_blocks exhaustively, Polynomial %, create_bytes on structured block contents; oracle: Spec syndromes + de-interleaving of every block.", "Lean 4 table theorems (decide +kernel) + correspondence + Spec syndrome oracle"),
 "C03": ("6/C03", "Model-level witnesses of the repaired defects; tie: error class of Model.compile vs implementation; oracle: exception in {none, DataOverflowError} and equal to Spec.fits at the largest admissible version, on capacity boundaries of sampled/all pairs, class-crossing streams, huge and awkward payloads, four entry points.", "Lean 4 model + correspondence on error classes + Spec capacity oracle"),
 "C04": ("6/C04", "Theorems: BCH_type_info = ISO format word on all 32 inputs, BCH_type_number = ISO version word, Spec words are codewords of the ISO generators, level constants = ISO indicators. Tie: the 30+36+1 modules for all 40x4x8x{test,final} exhaustively; oracle: Spec words at the ISO positions on complete symbols of all 1 280 configurations (half on one re-configured object).", "Lean 4 finite theorems (decide +kernel) + exhaustive correspondence + Spec oracle"),
 "C05": ("6/C05", "Theorems: alignment table = Annex E closed form (40 versions), mask functions = ISO Table 10 for all coordinates. Tie: blank matrix of all 40 versions cell by cell, mask functions on 177x177, map_data visiting order via index-bit streams; oracle: Spec per-cell function-pattern map + strict reader on symbols over versions x levels x masks.", "Lean 4 theorems + exhaustive correspondence of geometry + Spec geometry oracle"),
 "C06": ("6/C06", "Theorems: count widths = ISO Table 3 for 40 versions x 3 modes, mode indicators/pad codewords/alphanumeric table = ISO. Tie: create_data buffer bytes vs Model.dataBits at fill levels 0..14 bits short of capacity, sparse symbols, random segment lists; oracle: Spec stream recogniser (a parser, not the builder).", "Lean 4 theorems + correspondence at all fill levels + Spec stream recogniser oracle"),
 "C07": ("6/C07", "Theorems: BIT_LIMIT_TABLE = 8 x ISO data codewords for all 160 pairs, strictly increasing; published capacities as examples. Tie: best_fit vs Model.bestFit at capacity -1/0/+1 for all 160 pairs x 3 modes, class-crossing streams; oracle: Spec.minVersion.", "Lean 4 table theorems + boundary correspondence + Spec minimal-version oracle"),
 "C08": ("6/C08", "Theorem C08_rule3_line: the Horspool-skipping scanner scores 40 per ISO window on every line of every length (induction); rules 1, 2, 4 tied exhaustively on all short lines / row pairs / 4x4 matrices and rule 4 on every (QR size, dark count); oracle: Spec.penalty (plain counts) = util.lost_point.", "Lean 4 induction proof (rule 3) + exhaustive small-domain correspondence + Spec penalty oracle"),
 "C09": ("6/C09", "Theorems: the selection loop = first arg-min for any scores (C09_auto), explicit mask applied and recorded (C09_explicit), automatic choice applied and recorded (C09_auto_recorded) - unbounded. Tie: best_mask_pattern on random codewords and on all scripted tie patterns; oracle: Spec.chooseMask on automatic-mask symbols.", "Lean 4 proofs over the model + correspondence incl. scripted ties + Spec arg-min oracle"),
 "C10": ("6/C10", "Model of the four regular expressions as run scanners tied to add_data on all strings of length <= 5/6 over class representatives x thresholds, all 256 byte values, random run mixes; oracle: the five clauses of the property as Spec predicates on data_list. Theorems: threshold-0 shape (more under construction).", "Lean 4 model + exhaustive short-string correspondence + Spec segmentation predicates"),
}

checks = []
for pid, (ref, text, tech) in CLAIMED.items():
    checks.append({
        "property_id": pid,
        "quick_cmd": f"./check {pid} --tier quick",
        "thorough_cmd": f"./check {pid} --tier thorough",
        "evidence_file": f"evidence/{pid}.json",
        "replay_cmd_template": f"./check {pid} --replay {{path}}",
        "engine": "lean4-model-spec",
        "level_claimed": {"category": "proof", "text": text, "design_ref": "DESIGN.md section " + ref},
        "level_note": PROOF_NOTE,
        "technique": tech,
    })

m = {
 "version": 1,
 "setup_cmd": "cd lean && /venv/bin/python ../tools/gen_tables.py && lake build QR qrdrv",
 "hooks": {"guard": "PYTHON_QRCODE_VERIF", "enable": "no source hooks: every observation point is public API or module state; checks import /repo's working tree in-process (PYTHONPATH) and in subprocesses",
           "baseline_off_cmd": "cd /repo && /venv/bin/python -m pytest -ra -q -p no:cacheprovider --timeout=900 --continue-on-collection-errors",
           "source_commits": [], "add_only": True},
 "engines": [{"name": "lean4-model-spec", "path": "lean/", "serves_properties": sorted(CLAIMED),
              "kind_free_text": "Lean 4 project: Gen (tables regenerated from the source), Model (executable mirror of the Python), Spec (independent ISO reading), Props (theorems Model |= Spec); native driver qrdrv for correspondence and oracle sweeps"}],
 "checks": checks,
 "not_applicable": [{"property_id": p, "reason": "check not built yet (build in progress, see DESIGN.md section 10); the technique applies"} for p in sorted(props) if p not in CLAIMED],
 "notes": "fix: commits in /repo repair D1-D3, D5-D7 (see known_findings.json, DESIGN.md section 7); D4 is an open known finding of C14.",
}
json.dump(m, open(os.path.join(VERIF, "MANIFEST.json"), "w"), indent=1)
print("checks:", len(checks), "not_applicable:", len(m["not_applicable"]))
