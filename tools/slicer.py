#!/usr/bin/env python3
"""Static slice of the qrcode package per property, and normalised-AST fingerprints of its parts.

Parts ("keys"):
  <file>:<func>, <file>:<Class>.<method>     a function (getter + setter of one property share a key)
  <file>:<Class>.<class>                     the class statement: bases, decorators, class-level statements
  <file>:<module>.<NAME>                     a module-level assignment to NAME
  <file>:<main>                              the `if __name__ == "__main__":` block
  <file>:<module>                            every other module-level statement (imports excluded; loops, calls, conditionals)

Fingerprint of a part = sha1 of ast.dump without positions; docstrings removed; decorators and arguments included.

Slice of a property = closure of its roots under a reference relation that over-approximates "can influence":
  * a bare name x that is not a parameter/local of the function refers to the module-level part x of the same file, or, if the
    file imports x (`from m import x [as y]`), to the module-level part x of m (classes included);
  * `alias.x` / `pkg.sub.x` where the root name is an imported module or package refers to every module-level part named x in
    the package;
  * `self.x` / `cls.x` / `super().x` refers to every method named x in the inheritance family of the class (the connected component of the
    base-class relation: sound for any MRO); every other attribute `e.x` refers to EVERY method named x in any class (duck
    typing, callbacks);
  * a class named in a type-only position (annotation, isinstance/issubclass/cast argument, except clause) => its class
    statement only; named anywhere else (called, stored, passed) or owning a method in the slice => instances exist: its
    dunder methods and its property/setter/classmethod/staticmethod-decorated methods (invoked without a call being
    spelled), and the same for the classes named as its bases;
  * any part of a file in the slice => that file's residual <module> part (executed on import).
Cut parts (per property; exact keys or prefixes ending in *) stop the closure: they are neither included nor expanded unless
they are roots.  A cut records that the property is stated relative to the result of that part (e.g. the renderers relative to
the compiled matrix, the encoder properties independent of any image class).
"""
import ast, hashlib, os


def package_files(repo):
    out = []
    for root, dirs, files in os.walk(os.path.join(repo, "qrcode")):
        dirs[:] = sorted(d for d in dirs if d not in ("tests", "__pycache__"))
        for f in sorted(files):
            if f.endswith(".py"):
                out.append(os.path.relpath(os.path.join(root, f), repo))
    return sorted(out)


def _strip_doc(body):
    if body and isinstance(body[0], ast.Expr) and isinstance(getattr(body[0], "value", None), ast.Constant) \
            and isinstance(body[0].value.value, str):
        return body[1:]
    return body


def _h(s):
    return hashlib.sha1(s.encode()).hexdigest()[:16]


def _dump(nodes):
    return "".join(ast.dump(n, include_attributes=False) for n in nodes)


def _root_name(x):
    while isinstance(x, ast.Attribute):
        x = x.value
    return x.id if isinstance(x, ast.Name) else None


def _type_only(nodes):
    """ids of AST nodes in positions where a class is named but neither called nor stored: annotations, the class argument of
    isinstance/issubclass/cast, exception-handler types"""
    tops = []
    for n in nodes:
        for x in ast.walk(n):
            if isinstance(x, ast.arg) and x.annotation is not None:
                tops.append(x.annotation)
            elif isinstance(x, ast.AnnAssign):
                tops.append(x.annotation)
            elif isinstance(x, (ast.FunctionDef, ast.AsyncFunctionDef)) and x.returns is not None:
                tops.append(x.returns)
            elif isinstance(x, ast.ExceptHandler) and x.type is not None:
                tops.append(x.type)
            elif isinstance(x, ast.Call) and isinstance(x.func, ast.Name):
                if x.func.id in ("isinstance", "issubclass") and len(x.args) == 2:
                    tops.append(x.args[1])
                elif x.func.id == "cast" and x.args:
                    tops.append(x.args[0])
                elif x.func.id in ("TypeVar", "NewType"):
                    tops += list(x.args) + [k.value for k in x.keywords]
    ids = set()
    for t in tops:
        for y in ast.walk(t):
            ids.add(id(y))
    return ids


def _refs(nodes, local=(), own=False):
    """-> set of ("n", x) bare non-local name; ("m", root, x) attribute x reached through a name chain rooted at the non-local
    name `root`; ("s", x) attribute of self/cls; ("a", x) any other attribute; ("t", x) / ("tm", root, x) the same as n / m but in a
    type-only position (names a class without calling or storing it)"""
    out = set()
    tonly = _type_only(nodes)
    for n in nodes:
        for x in ast.walk(n):
            t = id(x) in tonly
            if isinstance(x, ast.Name):
                if x.id not in local:
                    out.add(("t" if t else "n", x.id))
            elif isinstance(x, ast.Attribute):
                r = _root_name(x.value) if isinstance(x.value, (ast.Name, ast.Attribute)) else None
                if (r in ("self", "cls") and isinstance(x.value, ast.Name)) or \
                        (isinstance(x.value, ast.Call) and isinstance(x.value.func, ast.Name) and x.value.func.id == "super"):
                    out.add(("s", x.attr))
                    continue
                if r is not None and r not in local and r not in ("self", "cls"):
                    out.add(("tm" if t else "m", r, x.attr))
                if not t:
                    out.add(("a", x.attr))
    return out


def _locals(fn):
    loc = {a.arg for a in fn.args.args + fn.args.posonlyargs + fn.args.kwonlyargs}
    if fn.args.vararg:
        loc.add(fn.args.vararg.arg)
    if fn.args.kwarg:
        loc.add(fn.args.kwarg.arg)
    glob = set()
    for x in ast.walk(fn):
        if isinstance(x, ast.Name) and isinstance(x.ctx, (ast.Store, ast.Del)):
            loc.add(x.id)
        elif isinstance(x, (ast.Global, ast.Nonlocal)):
            glob |= set(x.names)
        elif isinstance(x, ast.ExceptHandler) and x.name:
            loc.add(x.name)
    return loc - glob


AUTO_DECOS = {"property", "setter", "getter", "deleter", "classmethod", "staticmethod", "cached_property", "abstractmethod"}


def _is_main_guard(ch):
    return isinstance(ch, ast.If) and isinstance(ch.test, ast.Compare) and isinstance(ch.test.left, ast.Name) \
        and ch.test.left.id == "__name__"


class Analysis:
    def __init__(self, repo):
        self.fp, self.refs, self.auto, self.owner = {}, {}, {}, {}
        self.file_of = {}          # key -> file
        self.imports = {}          # file -> {local name: (module dotted, original name or None for a module import)}
        self.files = package_files(repo)
        self.modfile = {}          # dotted module -> file
        for f in self.files:
            d = f[:-3].replace("/", ".")
            if d.endswith(".__init__"):
                d = d[:-len(".__init__")]
            self.modfile[d] = f
        for f in self.files:
            self._file(repo, f)
        self._index()

    def _add(self, f, key, dump, refs):
        self.file_of[key] = f
        if key in self.fp:           # getter + setter of one property, overloads: one key, both bodies
            self.fp[key] = _h(self.fp[key] + dump)
            self.refs[key] |= refs
        else:
            self.fp[key] = _h(dump)
            self.refs[key] = set(refs)

    def _file(self, repo, f):
        imp = self.imports.setdefault(f, {})
        try:
            tree = ast.parse(open(os.path.join(repo, f)).read())
        except Exception as e:  # unparsable file: fingerprint the error
            self.fp[f + ":<module>"] = "unparsable:" + type(e).__name__
            self.refs[f + ":<module>"] = set()
            self.file_of[f + ":<module>"] = f
            return
        pkg = f[:-3].replace("/", ".").split(".")[:-1]      # package of this module (for relative imports)
        for x in ast.walk(tree):
            if isinstance(x, ast.Import):
                for a in x.names:
                    if a.asname:
                        imp[a.asname] = (a.name, None)
                    else:
                        imp[a.name.split(".")[0]] = (a.name.split(".")[0], None)
            elif isinstance(x, ast.ImportFrom):
                base = x.module or ""
                if x.level:
                    up = pkg[:len(pkg) - (x.level - 1)]
                    base = ".".join(up + ([x.module] if x.module else []))
                for a in x.names:
                    imp[a.asname or a.name] = (base, a.name)

        def func(ch, key, ckey=None):
            body = _strip_doc(ch.body)
            dump = _dump([ast.Module(body=body, type_ignores=[]), ch.args] + ch.decorator_list)
            self._add(f, key, dump, _refs(body + [ch.args] + ch.decorator_list, _locals(ch)))
            if ckey:
                self.owner[key] = ckey
                dn = set()
                for d in ch.decorator_list:
                    d = getattr(d, "func", d)
                    dn.add(getattr(d, "id", getattr(d, "attr", None)))
                if (ch.name.startswith("__") and ch.name.endswith("__")) or (dn & AUTO_DECOS):
                    if key not in self.auto[ckey]:
                        self.auto[ckey].append(key)

        def klass(node, prefix):
            ckey = f + ":" + prefix + node.name + ".<class>"
            self.auto.setdefault(ckey, [])
            rest = []
            for ch in _strip_doc(node.body):
                if isinstance(ch, (ast.FunctionDef, ast.AsyncFunctionDef)):
                    func(ch, f + ":" + prefix + node.name + "." + ch.name, ckey)
                elif isinstance(ch, ast.ClassDef):
                    klass(ch, prefix + node.name + ".")
                else:
                    rest.append(ch)
            hdr = node.bases + [k.value for k in node.keywords] + node.decorator_list
            self._add(f, ckey, _dump(hdr + rest), _refs(hdr + rest))

        residual, mainblk = [], []
        for ch in _strip_doc(tree.body):
            if isinstance(ch, (ast.FunctionDef, ast.AsyncFunctionDef)):
                func(ch, f + ":" + ch.name)
            elif isinstance(ch, ast.ClassDef):
                klass(ch, "")
            elif isinstance(ch, (ast.Import, ast.ImportFrom)):
                pass        # what an import binds is resolved through `imports`; an import that fails breaks every check
            elif _is_main_guard(ch):
                mainblk.append(ch)
            elif isinstance(ch, (ast.Assign, ast.AnnAssign, ast.AugAssign)):
                tg = ch.targets if isinstance(ch, ast.Assign) else [ch.target]
                names = [t.id for t in tg if isinstance(t, ast.Name)]
                if len(names) == len(tg) and names:
                    for nm in names:
                        self._add(f, f + ":<module>." + nm, _dump([ch]), _refs([ch]))
                else:
                    residual.append(ch)
            else:
                residual.append(ch)
        self._add(f, f + ":<module>", _dump(residual), _refs(residual))
        if mainblk:
            self._add(f, f + ":<main>", _dump(mainblk), _refs(mainblk))

    # ---- resolution ------------------------------------------------------------------------------------------
    def _index(self):
        self.top, self.meth = {}, {}     # (file, name) -> [keys] ; name -> [method keys]
        self.top_any = {}                # name -> [module-level keys in any file]
        for k in self.fp:
            f, tail = k.split(":", 1)
            if tail in ("<module>", "<main>"):
                continue
            if k in self.owner:
                self.meth.setdefault(tail.split(".")[-1], []).append(k)
                continue
            if tail.endswith(".<class>"):
                nm = tail[:-len(".<class>")]
                if "." in nm:
                    continue
            elif tail.startswith("<module>."):
                nm = tail[len("<module>."):]
            else:
                nm = tail
            self.top.setdefault((f, nm), []).append(k)
            self.top_any.setdefault(nm, []).append(k)
        # inheritance: connected components of the "names as a base" relation (sound for self.x with any MRO)
        comp = {c: c for c in self.auto}

        def find(c):
            while comp[c] != c:
                comp[c] = comp[comp[c]]
                c = comp[c]
            return c
        self.bases = {}
        for c in self.auto:
            bs = []
            for r in self.refs.get(c, ()):
                tg = []
                if r[0] in ("n", "t"):
                    tg = self._resolve_name(self.file_of[c], r[1])
                elif r[0] in ("m", "tm"):
                    tg = self._resolve_attr(self.file_of[c], r[1], r[2])
                bs += [t for t in tg if t in self.auto]
            self.bases[c] = bs          # over-approximation: every class named in the class statement
            for b in bs:
                comp[find(c)] = find(b)
        self.family = {}
        for c in self.auto:
            self.family.setdefault(find(c), set()).add(c)
        self.family = {c: self.family[find(c)] for c in self.auto}

    def _resolve_name(self, f, x, depth=0):
        if (f, x) in self.top:
            return list(self.top[(f, x)])
        if x in self.imports.get(f, {}) and depth < 6:
            mod, orig = self.imports[f][x]
            if orig is None:
                return []
            if self.modfile.get(mod + "." + orig) is not None:   # `from qrcode import util`: a module object
                return []
            mf = self.modfile.get(mod)
            if mf is None:
                return []
            return self._resolve_name(mf, orig, depth + 1)
        return []

    def _resolve_attr(self, f, root, x):
        """`root.….x` where root is a name bound by an import of (a module of) the package"""
        im = self.imports.get(f, {}).get(root)
        if im is None or im[0].split(".")[0] != "qrcode":
            return []
        if im[1] is None:
            mod = im[0]
        elif self.modfile.get(im[0] + "." + im[1]) is not None:
            mod = im[0] + "." + im[1]
        else:
            return []
        mf = self.modfile.get(mod)
        if mf is not None and mod != "qrcode":
            r = self._resolve_name(mf, x)
            if r:
                return r
        return list(self.top_any.get(x, []))     # through the bare package or a longer chain: by name, any module

    def targets(self, key):
        """-> list of (target key, instantiating?)"""
        f = self.file_of[key]
        out = []
        fam = self.family.get(self.owner.get(key)) if key in self.owner else None
        for r in self.refs.get(key, ()):
            if r[0] in ("n", "t"):
                out += [(t, r[0] == "n") for t in self._resolve_name(f, r[1])]
            elif r[0] in ("m", "tm"):
                out += [(t, r[0] == "m") for t in self._resolve_attr(f, r[1], r[2])]
            elif r[0] == "s" and fam is not None:
                out += [(t, True) for t in self.meth.get(r[1], []) if self.owner[t] in fam]
            else:
                out += [(t, True) for t in self.meth.get(r[1], [])]
        return out

    @staticmethod
    def _cut(k, cuts):
        return any(k == c or (c.endswith("*") and k.startswith(c[:-1])) for c in cuts)

    def slice_of(self, roots, cuts=(), why=None):
        """closure; nodes are parts, plus ("inst", class key) = "instances of this class exist" """
        cuts = list(cuts)
        missing = [r for r in list(roots) + [c for c in cuts if not c.endswith("*")] if r not in self.fp]
        roots = [r for r in roots if r in self.fp]
        seen, inst = set(), set()
        todo = [(r, None) for r in roots]
        while todo:
            k, p = todo.pop(0)
            if isinstance(k, tuple):
                c = k[1]
                if c in inst or c not in seen:
                    continue
                inst.add(c)
                todo += [(a, c) for a in self.auto.get(c, [])]
                todo += [(("inst", b), c) for b in self.bases.get(c, [])]
                continue
            if k in seen or k not in self.fp or (k not in roots and self._cut(k, cuts)):
                continue
            seen.add(k)
            if why is not None:
                why[k] = p
            todo.append((self.file_of[k] + ":<module>", k))
            if k in self.owner:
                todo.append((self.owner[k], k))
                todo.append((("inst", self.owner[k]), k))
            if k in self.auto:            # a class statement: its bases' statements
                todo += [(b, k) for b in self.bases.get(k, [])]
            for t, instantiating in self.targets(k):
                todo.append((t, k))
                if instantiating and t in self.auto:
                    todo.append((("inst", t), k))
        return sorted(seen), missing


def property_roots(mf, prop, keys=()):
    """modelled functions + entry points; an entry ending in * stands for every part with that prefix (of the analysed tree)"""
    out = {k for g in mf["properties"][prop] for k in mf["groups"][g]}
    for r in mf.get("roots", {}).get(prop, []):
        if r.endswith("*"):
            out |= {k for k in keys if k.startswith(r[:-1])}
        else:
            out.add(r)
    return sorted(out)


def property_slices(repo, mf):
    """-> analysis, {prop: sorted keys}, {prop: missing roots/cuts}"""
    an = Analysis(repo)
    slices, missing = {}, {}
    for prop in sorted(mf["properties"]):
        sl, miss = an.slice_of(property_roots(mf, prop, an.fp), mf.get("cuts", {}).get(prop, []))
        slices[prop], missing[prop] = sl, miss
    return an, slices, missing


if __name__ == "__main__":
    import json, sys
    here = os.path.dirname(os.path.abspath(__file__))
    repo = sys.argv[1] if len(sys.argv) > 1 else "/repo"
    mf = json.load(open(os.path.join(here, "modelled_functions.json")))
    an, slices, missing = property_slices(repo, mf)
    print("parts:", len(an.fp))
    for prop in sorted(slices):
        print(prop, "->", len(slices[prop]), "missing", missing[prop])
        if len(sys.argv) > 2 and sys.argv[2] in (prop, "all"):
            roots = set(property_roots(mf, prop, an.fp))
            why = {}
            an.slice_of(sorted(roots), mf.get("cuts", {}).get(prop, []), why)
            for k in slices[prop]:
                print("   ", k, "" if k in roots else f"   <- {why.get(k)}")
