#!/bin/bash
# run every registered check of a tier on the current tree; usage: tools/run_all.sh [quick|thorough] [seed]
cd "$(dirname "$0")/.."
TIER=${1:-quick}; export VERIF_SEED=${2:-0}
rc_all=0
for P in C01 C02 C03 C04 C05 C06 C07 C08 C09 C10 C11 C12 C13 C14 C15 C16 C17 C18 C19 C20; do
  s=$(date +%s)
  out=$(./check $P --tier $TIER 2>&1); rc=$?
  echo "$P rc=$rc $(( $(date +%s) - s ))s $(echo "$out" | grep -E '^(VIOLATION|KNOWN-FINDING|INFRASTRUCTURE)' | cut -c1-150 | tr '\n' ' ')"
  [ $rc -ne 0 ] && rc_all=1
done
exit $rc_all
