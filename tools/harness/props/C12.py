"""C12 - raster images reproduce the matrix pixel-exactly (Pillow and pure-PNG)."""
import io, random
from ..core import *  # noqa
from .. import gens
from .common import Res, generic_replay

replay = generic_replay


def bm(rows):
    return "/".join("".join("1" if c else "0" for c in row) for row in rows) if rows else "-"


def decode_with_pypng(data):
    import png
    w, h, rows, info = png.Reader(bytes=data).asRGBA8()
    out = []
    for row in rows:
        row = bytes(row)
        out.append([tuple(row[i:i + 4]) for i in range(0, len(row), 4)])
    return w, h, out


def decode_with_pil(data):
    from PIL import Image
    im = Image.open(io.BytesIO(data)).convert("RGBA")
    w, h = im.size
    px = list(im.getdata())
    return w, h, [px[y * w:(y + 1) * w] for y in range(h)]


def expected_colours(fill, back):
    from PIL import ImageColor
    def col(c):
        if isinstance(c, tuple):
            return tuple(c) + (255,) * (4 - len(c))
        return ImageColor.getcolor(c, "RGBA")
    f = col(fill)
    b = (None, None, None, 0) if (isinstance(back, str) and back.lower() == "transparent") else col(back)
    return f, b


def run(ctx):
    tier, seed, log = ctx["tier"], ctx["seed"], ctx["log"]
    rnd = random.Random(seed * 53 + 2)
    import qrcode
    from qrcode.image.pil import PilImage
    from qrcode.image.pure import PyPNGImage
    R = Res("P2: pixel_box for box 1..12 x border 0..5 x all cells of a version-1 symbol (exhaustive), PyPNGImage.rows_iter and "
            "the PilImage canvas vs the Model; P3: bytes of save() decoded with the OTHER library (pypng-written files with "
            "Pillow, Pillow-written files with pypng) = Spec.rasterDark with the requested fill/background colours (names in "
            "mixed case, hex, RGB tuples, transparent), sizes, for symbols x box 1..8 x border 0..5 x both factories (also via "
            "make_image on fresh / reused objects). distinct = distinct (factory, version, box, border, colours, payload)")
    reqs, exps = [], []
    q1 = qrcode.QRCode(version=1); q1.add_data("C12"); q1.make()
    for box in range(1, 13):
        for b in range(0, 6):
            im = PyPNGImage(b, 21, box, qrcode_modules=q1.modules)
            for r in range(21):
                for c in (range(21) if (tier == "thorough" or (r + box + b) % 3 == 0) else (0, 20)):
                    (x0, y0), (x1, y1) = im.pixel_box(r, c)
                    reqs.append(f"pixelbox {b} {box} {r} {c}"); exps.append(f"ok {x0} {y0} {x1} {y1}")
    R.exhaustive.append("pixel_box for box 1..12 x border 0..5 x cells of a version-1 symbol (all cells in the thorough tier)")
    got = ask_parallel(reqs, chunk=20000)
    for rq, e, g in zip(reqs, exps, got):
        R.corr("pixelbox", rq, e, g, tag="P2:pixelbox")
    colour_specs = [("black", "white"), ("Black", "WHITE"), ("red", "white"), ("BLUE", "Yellow"), ((10, 20, 30), (250, 240, 230)),
                    ("#ff0000", "#00ff00"), ("black", "transparent"), ("green", "TransParent"), ("white", "black"), ((0, 0, 0), (255, 255, 255)),
                    ("WHITE", "Black"), ("black", (255, 255, 255)), ((0, 0, 0), "white")]
    cases = []
    versions = [1, 2, 3, 5, 7, 10] if tier == "thorough" else [1, 2, 4]
    for v in versions:
        for box in ([1, 2, 3, 4, 5, 7, 8, 10] if tier == "thorough" else [1, 2, 3, 5, 10]):
            for b in ([0, 1, 2, 4, 5] if tier == "thorough" else [0, 1, 4]):
                if v > 3 and box > 4:
                    continue
                cases.append(("png", v, box, b, None))
                cases.append(("pil", v, box, b, colour_specs[0]))
                cases.append(("pil", v, box, b, rnd.choice(colour_specs[1:])))
    cases += [("pil", 2, 3, 1, cs) for cs in colour_specs]      # same canvas size, every colour pair in turn (state kept between renderings would show)
    # colours next to the black/white special case (a luminance test, a rounded grey level, a widened fast path would show here)
    corner_specs = [((0, 1, 0), "white"), ((3, 0, 0), "white"), ((1, 1, 0), (255, 255, 255)), ((0, 0, 8), "#ffffff"), ("#000006", "white"),
                    ("#010101", "#fefefe"), ((1, 1, 1), (254, 254, 254)), ("black", (255, 255, 254)), ("black", "#fffffe"), ((0, 0, 0), (254, 255, 255)),
                    ("#000", "#fff"), ("rgb(0,0,1)", "rgb(255,255,255)"), ("hsl(0,0%,0%)", "white"), ("gray", "white"), ("grey", "silver"),
                    ((0, 0, 1), "white"), ((2, 0, 0), "WHITE"), ("#000100", "White")]
    cases += [("pil", 1, 2, 1, cs) for cs in corner_specs]
    cases += [("png", 40, 1, 0, None), ("pil", 40, 2, 1, colour_specs[0]), ("png", 33, 2, 4, None)]      # the largest symbols
    log(f"{len(reqs)} pixel boxes; {len(cases)} image cases")
    reuse = qrcode.QRCode()
    mreq, mexp, sreq, smeta = [], [], [], []
    for i, (fac, v, box, b, cols) in enumerate(cases):
        data = gens.payload(rnd, rnd.choice(["lower", "digits", "bytes"]), rnd.randrange(1, 10) if v < 30 else 900)
        if i % 3 == 0:
            q = reuse; q.clear(); q.version = v; q.border = b; q.box_size = box
        else:
            q = qrcode.QRCode(version=v, border=b, box_size=box)
        q.add_data(data, optimize=0)
        kw = {}
        if fac == "pil" and cols != colour_specs[0] or (fac == "pil" and i % 2):
            kw = dict(fill_color=cols[0], back_color=cols[1])
        key = f"{fac} {v} {box} {b} {cols} {data.hex()}"
        try:
            im = q.make_image(image_factory=PilImage if fac == "pil" else PyPNGImage, **kw)
            M = [list(map(bool, row)) for row in q.modules]
            n = len(M)
            if i % 5 == 4 and v < 30:
                # the image is of the symbol it was made from: compile the same object again (same version, other mask or more
                # data) BEFORE the image is saved - rows shared between the image and the object's matrix would show
                try:
                    if i % 2:
                        q.mask_pattern = ((q.mask_pattern or 0) + 3) % 8
                    else:
                        q.add_data(b"+", optimize=0)
                    q.make(fit=False)
                except Exception:  # noqa
                    pass
                key += " recompiled-before-save"
            buf = io.BytesIO(); im.save(buf); png_bytes = buf.getvalue()
            if fac == "png":
                mreq.append(f"pypngrows {n} {b} {box} {bm(M)}")
                mexp.append("ok " + "/".join("".join("0" if not x else "1" for x in row) for row in im.rows_iter()))
                w, h, px = decode_with_pil(png_bytes)
                fcol, bcol = (0, 0, 0, 255), (255, 255, 255, 255)
            else:
                mreq.append(f"pilraster {n} {b} {box} {bm(M)}")
                pim = im.get_image().convert("RGBA")
                f_exp, b_exp = expected_colours(*(cols if kw else ("black", "white")))
                pw, ph = pim.size
                pdat = list(pim.getdata())
                mexp.append("ok " + "/".join("".join("1" if pdat[y * pw + x] == f_exp and f_exp != b_exp else ("1" if (b_exp[3] == 0 and pdat[y * pw + x][3] != 0) else "0")
                                                      for x in range(pw)) for y in range(ph)))
                w, h, px = decode_with_pypng(png_bytes)
                fcol, bcol = f_exp, b_exp
        except Exception as e:  # noqa
            R.oracle(key, False, dict(input=key, expected="an image", observed=f"{err_name(e)}: {e}"[:200]))
            continue
        sreq.append(f"spec.raster {n} {b} {box} {bm(M)}")
        smeta.append((key, fac, v, box, b, cols if kw else None, w, h, px, fcol, bcol, n))
    got = ask_parallel(mreq + sreq, chunk=30)
    for rq, e, g, meta in zip(mreq, mexp, got[:len(mreq)], smeta):
        R.corr(rq.split(" ")[0], meta[0], e, g, tag="P2:" + rq.split(" ")[0])
    for rep, meta in zip(got[len(mreq):], smeta):
        key, fac, v, box, b, cols, w, h, px, fcol, bcol, n = meta
        want = rep[3:].split("/")
        size = (n + 2 * b) * box
        problems = []
        if (w, h) != (size, size):
            problems.append(f"decoded image is {w}x{h}, expected {size}x{size}")
        else:
            for y in range(h):
                row, wr = px[y], want[y]
                for x in range(w):
                    p = row[x]
                    if wr[x] == "1":
                        good = p == fcol
                    else:
                        good = (p[3] == 0) if bcol[3] == 0 else p == bcol
                    if not good:
                        problems.append(f"pixel ({x},{y}) is {p}, module is {'dark' if wr[x]=='1' else 'light'}: expected {fcol if wr[x]=='1' else bcol}")
                        break
                if problems:
                    break
        R.oracle(key, not problems, dict(input=f"factory={fac} version={v} box_size={box} border={b} colours={cols}", factory=fac, version=v, box_size=box, border=b,
                                         colours=str(cols), expected="pixel-exact raster of the framed symbol in the requested colours", observed="; ".join(problems)),
                 tag=f"P3:{fac}:" + ("default" if cols is None else "colours"), sample=dict(factory=fac, version=v, box=box, border=b, colours=str(cols)))
    log(f"done: {len(R.corr_failures)} disagreements, {len(R.violations)} violations")
    R.assumptions += ["A-PIL: ImageDraw.rectangle((x0,y0),(x1,y1)) sets exactly the pixels of the closed box (exercised through real Pillow by P2)",
                      "PNG codecs (Pillow, pypng, zlib) and colour-name resolution are trusted; each written file is decoded with the other library"]
    return R.out()
