"""C05 - function patterns and symbol geometry."""
import random
from ..core import *  # noqa
from .. import enc, gens
from .common import Res, generic_replay

replay = generic_replay


def impl_blank(v):
    import qrcode, qrcode.main as M
    q = qrcode.QRCode(version=v)
    M.precomputed_qr_blanks.pop(v, None)
    q.makeImpl(False, 0)
    return fmt_mat(M.precomputed_qr_blanks[v])


def impl_makeimpl(v, l, test, mask, cw):
    import qrcode, qrcode.main as M
    q = qrcode.QRCode(version=v, error_correction=l)
    q.data_cache = list(cw)
    q.makeImpl(bool(test), mask)
    return fmt_mat(q.modules)


def index_bit_stream(nbytes, j):
    """codewords whose k-th bit (in placement order) is bit j of k"""
    out = []
    for b in range(nbytes):
        x = 0
        for i in range(8):
            k = b * 8 + i
            x = (x << 1) | ((k >> j) & 1)
        out.append(x)
    return out


def run(ctx):
    tier, seed, log = ctx["tier"], ctx["seed"], ctx["log"]
    rnd = random.Random(seed * 31 + 5)
    import qrcode
    from qrcode import util
    R = Res("P2: blank matrices of all 40 versions, alignment rows, 8 mask functions on 177x177, map_data visiting order "
            "(index-bit codeword streams), random makeImpl; P3: Spec function-pattern map + strict Spec reader on "
            "implementation symbols over versions x levels x masks. distinct = distinct canonical requests")
    # ---- P2 exhaustive
    reqs, exps = [], []
    for v in range(1, 41):
        reqs.append(f"blank {v}"); exps.append(run_impl(lambda: impl_blank(v)))
        reqs.append(f"alignpos {v}"); exps.append(run_impl(lambda: fmt_list(util.pattern_position(v))))
    for p in range(8):
        f = util.mask_func(p)
        reqs.append(f"maskgrid {p} 177")
        exps.append(run_impl(lambda: "/".join("".join("1" if f(i, j) else "0" for j in range(177)) for i in range(177))))
    R.exhaustive += ["blank matrix, versions 1..40, every cell", "pattern_position 1..40", "mask_func 8 x 177 x 177"]
    # visiting order
    versions = list(range(1, 41)) if tier == "thorough" else sorted(set([1, 2, 6, 7, 13, 14, 21, 32, 40] + rnd.sample(range(1, 41), 3)))
    for v in versions:
        nbytes = ((4 * v + 17) ** 2) // 8 + 4      # more than any symbol holds: the tail also checks the zero padding
        for j in range(15):
            if tier != "thorough" and v > 14 and j % 3:
                continue
            cw = index_bit_stream(nbytes, j)
            reqs.append(f"makeimpl {v} 0 0 {j % 8} {fmt_list(cw)}")
            exps.append(run_impl(lambda: impl_makeimpl(v, 0, 0, j % 8, cw)))
    if tier == "thorough":
        R.exhaustive.append("map_data visiting order, versions 1..40 (15 index-bit streams each)")
    # random makeImpl
    for _ in range(400 if tier == "thorough" else 80):
        v = rnd.choice([1, 2, 3, 6, 7, 8, 10, 20, 27, 33, 40]) if rnd.random() < 0.7 else rnd.randrange(1, 41)
        l, t, mask = rnd.randrange(4), rnd.randrange(2), rnd.randrange(8)
        n = rnd.choice([0, 1, 10, 26, 100, 500, 4000])
        cw = [rnd.randrange(256) for _ in range(n)]
        reqs.append(f"makeimpl {v} {l} {t} {mask} {fmt_list(cw)}")
        exps.append(run_impl(lambda: impl_makeimpl(v, l, t, mask, cw)))
    got = ask_parallel(reqs, chunk=40)
    for rq, e, g in zip(reqs, exps, got):
        R.corr(rq.split(" ")[0], rq, e, g, tag="P2:" + rq.split(" ")[0], sample=rq[:100])
    log(f"P2 done: {len(reqs)} comparisons, {len(R.corr_failures)} disagreements")
    # ---- P3: Spec function map + reader on implementation symbols
    fmap = {}
    fr = ask([f"spec.function {v}" for v in range(1, 41)])
    for v, rep in zip(range(1, 41), fr):
        fmap[v] = rep[3:].split("/")
    cases = []
    combos = [(v, l, m) for v in range(1, 41) for l in range(4) for m in range(8)]
    if tier != "thorough":
        combos = [(v, rnd.randrange(4), rnd.randrange(8)) for v in range(1, 41)] + rnd.sample([c for c in combos if c[0] <= 12], 60)
    for (v, l, m) in combos:
        n = rnd.choice([0, 1, 5, 9])
        data = gens.payload(rnd, rnd.choice(gens.KINDS), n)
        cases.append(dict(version=v, level=l, mask=m, fit=False, calls=[(data, rnd.choice([0, 20]))], tag="grid"))
    cases += [dict(version=v, level=rnd.randrange(4), mask=None, fit=True, calls=[(gens.payload(rnd, "mixed", rnd.randrange(200)), 20)],
                   tag="auto") for v in ([None] * 20 + [7, 10, 14, 21])]
    for c in cases[::3]:
        if c["version"] is not None:      # re-configured object: compiled under other settings first, same data, no add_data/clear in between
            c["prehistory"] = dict(style="resettings", version=rnd.choice([1, 2, 6, 7, 14]), level=rnd.randrange(4), mask=rnd.choice([None, 2]), data=b"")
    recs = enc.run_cases(cases, jobs=8 if tier == "thorough" else 1)
    recs = enc.attach_model_and_spec(recs, want_model=False, want_spec=True)
    for r in recs:
        key = enc.compile_request(r) if "segs" in r else str(r["case"])
        if r.get("outcome", ("err",))[0] != "ok":
            continue   # overflow etc. is C03's business
        _, v, M = r["outcome"]
        n = len(M)
        problems = []
        if n != 4 * v + 17 or any(len(row) != n for row in M):
            problems.append(f"size {n} for version {v}")
        elif any(c is None for row in M for c in row):
            problems.append("indefinite (None) module")
        else:
            fm = fmap[v]
            for rr in range(n):
                for cc in range(n):
                    ch = fm[rr][cc]
                    if ch in "01" and M[rr][cc] != (ch == "1"):
                        problems.append(f"function module ({rr},{cc}) is {'dark' if M[rr][cc] else 'light'}")
                        break
                if problems:
                    break
            if not problems and not r["spec"].startswith("ok"):
                problems.append("independent reader: " + r["spec"])
        R.oracle(key, not problems, dict(input=key, case=enc.case_repr(r["case"]), expected="ISO function patterns / readable symbol",
                                         observed="; ".join(problems)), tag=f"P3:v{(v-1)//10*10+1}-{(v-1)//10*10+10}",
                 sample=dict(version=v, level=r["case"]["level"], mask=r["case"]["mask"]))
    log(f"P3 done: {len(recs)} symbols, {len(R.violations)} violations")
    R.assumptions += ["math.floor(i/2) on floats equals integer division for coordinates < 177 (enumerated)"]
    return R.out()
