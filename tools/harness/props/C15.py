"""C15 - terminal renderings read back to the module matrix."""
import random
from ..core import *  # noqa
from .. import enc, gens
from .common import Res, generic_replay

replay = generic_replay


class Stream:
    def __init__(self, tty):
        self.tty = tty; self.buf = []; self.isatty_calls_before_write = True
    def isatty(self):
        return self.tty
    def write(self, s):
        self.buf.append(s)
    def flush(self):
        pass
    @property
    def text(self):
        return "".join(self.buf)


class EmptyFalsyStream(Stream):
    """a legal text stream that is falsy while nothing has been written to it (any collector defining __len__)"""
    def __len__(self):
        return len(self.buf)


def bm(rows):
    return "/".join("".join("1" if c else "0" for c in row) for row in rows) if rows else "-"


def hx(s):
    return s.encode("utf-8").hex() or "-"


def run(ctx):
    tier, seed, log = ctx["tier"], ctx["seed"], ctx["log"]
    rnd = random.Random(seed * 43 + 1)
    import qrcode
    from qrcode import util
    R = Res("print_ascii {plain, invert, tty} x borders 0..6 and print_tty on symbols of several versions, on objects that are "
            "fresh / already compiled / given more data after a compile; scripted isatty. P2: Model.printAscii / printTty text; "
            "P3: Spec.readHalfBlocks / readTty (independent glyph and escape readers) = Spec.frame of a fresh object's symbol; "
            "non-tty streams: OSError and nothing written. distinct = distinct (variant, history, version, border, payload)")
    versions = [1, 2, 3, 4, 7, 10, 21] if tier == "thorough" else [1, 2, 3, 6]
    reqs, exps, sreq, swant, metas = [], [], [], [], []
    combos = [(v, b, variant, hist) for v in versions for b in range(0, 7) for variant in ("plain", "invert", "tty", "tty+invert", "print_tty")
              for hist in ("fresh", "made", "add-after-make")]
    # the largest symbols too (frame rows / line buffers sized for small versions would show here)
    combos += [(v, b, variant, "fresh") for v in ((28, 40) if tier != "thorough" else (27, 28, 33, 40)) for b, variant in ((4, "print_tty"), (1, "plain"), (4, "tty"))]
    for (v, b, variant, hist) in combos:
        if True:
            if True:
                if True:
                    if variant == "print_tty" and b not in (0, 4):
                        continue
                    if tier != "thorough" and hist == "made" and (b + v) % 2:
                        continue
                    data = gens.payload(rnd, rnd.choice(["lower", "digits", "bytes"]), rnd.randrange(1, 8))
                    extra = gens.payload(rnd, "lower", rnd.randrange(1, 25))
                    q = qrcode.QRCode(version=v, border=b, mask_pattern=rnd.randrange(8))
                    q.add_data(data, optimize=0)
                    calls = [data]
                    if hist == "made":
                        q.make()
                    elif hist == "add-after-make":
                        q.make(); q.add_data(util.QRData(extra) if len(extra) % 2 else extra, optimize=0); calls.append(extra)
                    f = qrcode.QRCode(version=v, border=b, mask_pattern=q.mask_pattern)
                    [f.add_data(d, optimize=0) for d in calls]; f.make()
                    M = [list(map(bool, row)) for row in f.modules]
                    n = len(M)
                    out = (EmptyFalsyStream if len(reqs) % 4 == 1 else Stream)(True)
                    key = f"{variant} {hist} {v} {b} {b''.join(calls).hex()}" + (" stream=empty-falsy" if isinstance(out, EmptyFalsyStream) else "")
                    try:
                        if variant == "print_tty":
                            q.print_tty(out=out)
                        else:
                            q.print_ascii(out=out, tty=variant.startswith("tty"), invert=variant.endswith("invert"))
                    except Exception as e:  # noqa
                        R.oracle(key, False, dict(input=key, expected="text", observed=err_name(e)))
                        continue
                    text = out.text
                    qm = [list(map(bool, row)) for row in q.modules]
                    if variant == "print_tty":
                        reqs.append(f"printtty {len(qm)} {bm(qm)}")
                        sreq.append(f"spec.readtty {hx(text)}"); want = ("frame", n, 1, M)
                    else:
                        reqs.append(f"printascii {len(qm)} {b} {int(variant.startswith('tty'))} {int(variant.endswith('invert'))} {bm(qm)}")
                        sreq.append(f"spec.readascii {int(variant != 'plain')} {hx(text)}"); want = ("frame", n, b, M)
                    exps.append("ok " + hx(text)); swant.append(want); metas.append((key, variant, hist, v, b))
    # frames from the Spec
    freq = [f"spec.frame {w[1]} {w[2]} {bm(w[3])}" for w in swant]
    got = ask_parallel(reqs + sreq + freq, chunk=150)
    g1, g2, g3 = got[:len(reqs)], got[len(reqs):len(reqs) + len(sreq)], got[len(reqs) + len(sreq):]
    for rq, e, g, meta in zip(reqs, exps, g1, metas):
        R.corr(rq.split(" ")[0], meta[0], e, g, tag="P2:" + meta[1])
    for rd, fr, w, meta in zip(g2, g3, swant, metas):
        key, variant, hist, v, b = meta
        problems = []
        if not rd.startswith("ok "):
            problems.append("text is not readable with the glyph/escape conventions")
        else:
            rows = rd[3:].split("/")
            want_rows = fr[3:].split("/")
            if variant != "print_tty":
                if len(rows) not in (len(want_rows), len(want_rows) + 1):
                    problems.append(f"{len(rows)} half-rows for {len(want_rows)} matrix rows")
                rows = rows[:len(want_rows)]     # the phantom last half-row (odd height) is not part of the matrix
            if rows != want_rows:
                problems.append("read-back matrix differs from the framed symbol of a fresh object")
        R.oracle(key, not problems, dict(input=key, variant=variant, history=hist, version=v, border=b,
                                         expected="reads back to the framed module matrix", observed="; ".join(problems)),
                 tag="P3:" + variant + ":" + hist, sample=dict(variant=variant, history=hist, version=v, border=b))
    # P2: the tty check itself (Model.printAsciiOut / printTtyOut on a 1x1 symbol) for every flag combination
    for tty in (0, 1):
        for inv in (0, 1):
            for isatty in (0, 1, 2, 3):
                q = qrcode.QRCode(version=1, border=0); q.modules = [[True]]; q.modules_count = 1; q.data_cache = [0]
                out = (EmptyFalsyStream if isatty >= 2 else Stream)(bool(isatty % 2)); isatty = isatty % 2
                try:
                    q.print_ascii(out=out, tty=bool(tty), invert=bool(inv)); e = "ok " + hx(out.text)
                except Exception as ex:  # noqa
                    e = "err " + err_name(ex) + ("" if out.text == "" else " after-writing")
                R.corr("asciiout", f"asciiout {tty} {inv} {isatty}", e, ask([f"asciiout {tty} {inv} {isatty}"])[0], tag="P2:tty-check")
    for isatty in (0, 1, 2, 3):
        q = qrcode.QRCode(version=1, border=0); q.modules = [[True]]; q.modules_count = 1; q.data_cache = [0]
        out = (EmptyFalsyStream if isatty >= 2 else Stream)(bool(isatty % 2)); isatty = isatty % 2
        try:
            q.print_tty(out=out); e = "ok " + hx(out.text)
        except Exception as ex:  # noqa
            e = "err " + err_name(ex) + ("" if out.text == "" else " after-writing")
        R.corr("ttyout", f"ttyout {isatty}", e, ask([f"ttyout {isatty}"])[0], tag="P2:tty-check")
    # refusal on non-tty streams
    for variant in ("tty", "tty+invert", "print_tty"):
        for hist in ("fresh", "made"):
            q = qrcode.QRCode(version=1); q.add_data("x")
            if hist == "made":
                q.make()
            out = Stream(False)
            try:
                if variant == "print_tty":
                    q.print_tty(out=out)
                else:
                    q.print_ascii(out=out, tty=True, invert=variant.endswith("invert"))
                res = "no exception"
            except OSError:
                res = "OSError"
            except Exception as e:  # noqa
                res = err_name(e)
            ok = res == "OSError" and out.text == ""
            R.oracle(f"refuse {variant} {hist}", ok, dict(input=f"{variant} on a non-tty stream ({hist} object)", expected="OSError before any write",
                                                           observed=f"{res}; {len(out.text)} characters written"), tag="P3:refuse")
    log(f"done: {len(R.corr_failures)} disagreements, {len(R.violations)} violations")
    return R.out()
