"""C13 - SVG factories: one correctly placed shape per dark module."""
import io, random
from fractions import Fraction
from decimal import Decimal
import xml.etree.ElementTree as ET
from ..core import *  # noqa
from .. import gens, svgread
from .common import Res, generic_replay

replay = generic_replay


def bm(rows):
    return "/".join("".join("1" if c else "0" for c in row) for row in rows) if rows else "-"


def canon(el):
    return (el.tag, sorted(el.attrib.items()), (el.text or "").strip(), [canon(c) for c in el])


def run(ctx):
    tier, seed, log = ctx["tier"], ctx["seed"], ctx["log"]
    rnd = random.Random(seed * 67 + 4)
    import qrcode
    from qrcode.image import svg as S
    from qrcode.image.styles.moduledrawers import svg as D
    R = Res("5 SVG factories x drawers {default, circle, gapped-circle, gapped-square aliases, custom size ratios 0.5 / 0.65 / 1} x eye "
            "drawers x box sizes {1,3,7,10,13} x borders {0,1,4} x symbols (several rendered in one process, so shared state shows). "
            "P2: shapes (kind, exact coordinates) of the parsed implementation document vs Model.svgDoc (exact for ratio 1, "
            "|diff| < 1e-9 px for Decimal(float) ratios, < 0.006 px for the text-quantised rect/circle attributes); P3: well-formed "
            "XML, size (n+2b)*box/10 mm, one shape per dark module in row-major order and none for light ones, each centred on its "
            "cell and not larger than it, background rect only for the fill variants, save() and to_string() serialise the same "
            "tree. distinct = distinct (factory, drawers, version, box, border, payload)")
    # ---- P2: units() text vs Model.units for pixel values num/den (den | 40: exact in Decimal), incl. rounding ties at 0.0005 mm
    from decimal import Decimal as Dec
    uq = qrcode.QRCode(version=1); uq.add_data("u")
    uim = uq.make_image(image_factory=S.SvgFragmentImage)
    ureq, uexp = [], []
    for den in (1, 2, 4, 5, 8, 10, 20, 40, 200, 400, 2000):
        for num in list(range(0, 120)) + [rnd.randrange(0, 40000) for _ in range(150 if tier == "thorough" else 40)]:
            ureq.append(f"units {num} {den}"); uexp.append("ok " + uim.units(Dec(num) / Dec(den)))
    for rq, e, g in zip(ureq, uexp, ask(ureq)):
        R.corr("units", rq, e, g, tag="P2:units")
    facs = [("fragment", S.SvgFragmentImage), ("image", S.SvgImage), ("fill", S.SvgFillImage), ("path", S.SvgPathImage), ("pathfill", S.SvgPathFillImage)]
    cases = []
    versions = [1, 2, 3, 4, 6, 7, 20] if tier == "thorough" else [1, 2, 7]
    for v in versions:
        for fname, F in facs:
            for box in ([1, 3, 7, 10, 13, 20] if tier == "thorough" else [1, 7, 10, 20]):
                for b in ([0, 1, 4] if tier == "thorough" else [0, 4]):
                    if v > 7 and (box != 10 or b != 4):
                        continue
                    specs = ["default", "circle", "gapped-circle", "gapped-square", "ratio0.5", "ratio0.65sq", "ratio1circle", "eye-circle"]
                    for spec in (specs if (tier == "thorough" or v == 1) else rnd.sample(specs, 3)):
                        cases.append((v, fname, F, box, b, spec))
    # the largest symbols (more than 8 192 dark modules from about version 28) on the path and rect factories
    for v, fname in ((40, "path"), (31, "pathfill"), (36, "image")) if tier != "thorough" else ((40, "path"), (31, "pathfill"), (36, "path"), (28, "path"), (40, "image"), (40, "fragment")):
        cases.append((v, fname, dict(facs)[fname], 10, 4, "default"))
    reqs, exps, metas = [], [], []
    gross = 0
    shared_drawers = {}
    ncase = [0]

    def drawer_obj(cls, ratio):
        # every other case re-uses ONE drawer object per (class, ratio) for all the images it is passed to - other symbols, box
        # sizes and borders before: a drawer is (re)initialised per image, nothing of an earlier image may survive in it
        ncase[0] += 1
        if ncase[0] % 2:
            return cls(size_ratio=Decimal(ratio))
        if (cls, ratio) not in shared_drawers:
            shared_drawers[(cls, ratio)] = cls(size_ratio=Decimal(ratio))
        return shared_drawers[(cls, ratio)]
    for (v, fname, F, box, b, spec) in cases:
        is_path = fname in ("path", "pathfill")
        sq = D.SvgPathSquareDrawer if is_path else D.SvgSquareDrawer
        ci = D.SvgPathCircleDrawer if is_path else D.SvgCircleDrawer
        kw = {}
        md = ("square", 1, 1); ed = ("square", 1, 1)
        if spec in ("circle", "gapped-circle", "gapped-square"):
            if fname == "fragment":
                continue            # SvgFragmentImage has no aliases
            kw["module_drawer"] = spec
            md = {"circle": ("circle", 1, 1), "gapped-circle": ("circle", 4, 5), "gapped-square": ("square", 4, 5)}[spec]
        elif spec == "ratio0.5":
            kw["module_drawer"] = drawer_obj(ci, "0.5"); md = ("circle", 1, 2)
        elif spec == "ratio0.65sq":
            kw["module_drawer"] = drawer_obj(sq, "0.65"); md = ("square", 13, 20)
        elif spec == "ratio1circle":
            kw["module_drawer"] = drawer_obj(ci, "1"); md = ("circle", 1, 1)
        elif spec == "eye-circle":
            kw["eye_drawer"] = drawer_obj(ci, "0.8"); ed = ("circle", 4, 5)
        data = gens.payload(rnd, rnd.choice(["lower", "digits", "bytes"]), rnd.randrange(1, 9) if v < 28 else 1200)
        q = qrcode.QRCode(version=v, border=b, box_size=box)
        q.add_data(data, optimize=0)
        key = f"{fname} {spec} v{v} box{box} border{b} {data.hex()}"
        if len(reqs) % 5 == 2:
            # an earlier rendering of ANOTHER symbol with the same factory that was abandoned half-way (its drawer raises after 40
            # modules) must not leave anything behind that shows up in this image
            class _Abort(Exception):
                pass

            class _Aborting(sq):
                seen = 0

                def drawrect(self, box_, is_active):
                    type(self).seen += 1
                    if type(self).seen > 40:
                        raise _Abort()
                    return super().drawrect(box_, is_active)
            q0 = qrcode.QRCode(version=2, border=1, box_size=box)
            q0.add_data(b"abandoned rendering", optimize=0)
            try:
                q0.make_image(image_factory=F, module_drawer=_Aborting())
            except _Abort:
                pass
            key += " after-abandoned-render"
        if gross >= 25:
            break           # enough grossly wrong documents: the search has its failing inputs (and a runaway implementation is not fed further)
        try:
            im = q.make_image(image_factory=F, **kw)
            buf = io.BytesIO(); im.save(buf); saved = buf.getvalue()
            ndark = sum(1 for row in q.modules for c in row if c)
            est = saved.count(b"<svg:rect") + saved.count(b"<svg:circle") + saved.count(b"<rect") + saved.count(b"<circle") + saved.count(b"M")
            if est > 3 * ndark + 60:
                # far more shapes than dark modules: a violation as it stands; not parsed shape by shape (documents that accumulate
                # the shapes of earlier renderings grow without bound)
                gross += 1
                R.oracle(key, False, dict(input=key, expected=f"one shape per dark module ({ndark})", observed=f"about {est} shapes for {ndark} dark modules"), tag="P3:count")
                continue
            tostr = im.to_string()
            doc = svgread.parse(saved)
            doc2_el = ET.fromstring(tostr)
            same_doc = canon(ET.fromstring(saved)) == canon(doc2_el)
        except Exception as e:  # noqa
            R.oracle(key, False, dict(input=key, expected="well-formed SVG from save() and to_string()", observed=f"{type(e).__name__}: {e}"[:300]), tag="P3:error")
            continue
        M = [list(map(bool, row)) for row in q.modules]
        n = len(M)
        reqs.append(f"svgdoc {fname} {md[0]} {md[1]} {md[2]} {ed[0]} {ed[1]} {ed[2]} {n} {b} {box} {bm(M)}")
        metas.append((key, fname, spec, v, box, b, doc, same_doc, M, saved))
    got = ask_parallel(reqs, chunk=40)
    for rq, rep, meta in zip(reqs, got, metas):
        key, fname, spec, v, box, b, doc, same_doc, M, saved = meta
        n = len(M)
        t = rep.split(" ")
        # ---- P2: implementation shapes vs model shapes
        mshapes = [] if t[4] == "-" else [s.split(":") for s in t[4].split(";")]
        quant = fname in ("fragment", "image", "fill")
        tol = Fraction(6, 1000) if quant else Fraction(1, 10 ** 9)
        diffs = []
        if int(t[1]) != doc["width"] or (t[2] == "1") != (doc["viewBox"] is not None) or (t[3] == "1") != (doc["backgrounds"] > 0):
            diffs.append(f"header: model {t[1:4]} vs implementation width={doc['width']} viewBox={doc['viewBox']} backgrounds={doc['backgrounds']}")
        if len(mshapes) != len(doc["shapes"]):
            diffs.append(f"{len(doc['shapes'])} shapes, model {len(mshapes)}")
        else:
            for ms, sh in zip(mshapes, doc["shapes"]):
                den = int(ms[0]); kind = ms[1]; vals = [Fraction(int(x), den) for x in ms[2:]]
                if kind != sh[0] or any(abs(a - c) > tol for a, c in zip(vals, sh[5])):
                    diffs.append(f"shape model {kind} {[float(x) for x in vals]} vs implementation {sh[0]} {[float(x) for x in sh[5]]}")
                    break
        R.corr("svgdoc", key, "ok" if not diffs else "differs: " + diffs[0], "ok", tag="P2:" + fname)
        # ---- P3: the property's clauses on the implementation document
        problems = []
        size = (n + 2 * b) * box
        if doc["width"] != size or doc["height"] != size:
            problems.append(f"size {float(doc['width'])/10}mm x {float(doc['height'])/10}mm, expected {size/10}mm")
        if doc["viewBox"] is not None:
            vb = doc["viewBox"].split()
            if len(vb) != 4 or any(Decimal(x) != Decimal(y) for x, y in zip(vb, ["0", "0", str(Decimal(size) / 10), str(Decimal(size) / 10)])):
                problems.append("viewBox " + doc["viewBox"])
        want_bg = 1 if fname in ("fill", "pathfill") else 0
        if doc["backgrounds"] != want_bg:
            problems.append(f"{doc['backgrounds']} background rects, expected {want_bg}")
        if not same_doc:
            problems.append("save() and to_string() serialise different documents")
        if saved.lstrip().startswith(b"<ns0:") or b"ns0:" in saved[:200]:
            problems.append("unregistered namespace prefix ns0")
        dark = [(r, c) for r in range(n) for c in range(n) if M[r][c]]
        if len(doc["shapes"]) != len(dark):
            problems.append(f"{len(doc['shapes'])} shapes for {len(dark)} dark modules")
        else:
            ctol = Fraction(6, 1000) if quant else Fraction(1, 10 ** 9)
            for (kind, cx, cy, w, h, raw), (r, c) in zip(doc["shapes"], dark):
                ex, ey = (c + b) * box + Fraction(box, 2), (r + b) * box + Fraction(box, 2)
                if abs(cx - ex) > ctol or abs(cy - ey) > ctol:
                    problems.append(f"shape for module ({r},{c}) centred at ({float(cx)},{float(cy)}) px, cell centre ({float(ex)},{float(ey)})")
                    break
                if w > box + ctol or h > box + ctol or w <= 0:
                    problems.append(f"shape for module ({r},{c}) has extent {float(w)}x{float(h)} px, cell is {box}")
                    break
        R.oracle(key, not problems, dict(input=key, factory=fname, drawer=spec, version=v, box_size=box, border=b, expected="clauses of the property",
                                         observed="; ".join(problems)), tag="P3:" + fname + ":" + spec.split("0")[0], sample=dict(factory=fname, drawer=spec, version=v, box=box, border=b))
    log(f"done: {len(R.corr_failures)} disagreements, {len(R.violations)} violations")
    R.assumptions += ["A-SVG: an arc radius smaller than half the chord is scaled up to it by SVG renderers (path-circle drawer with ratio < 1)",
                      "Decimal arithmetic of ratios given as binary floats (0.8) is compared numerically (1e-9 px); units() rounds to 0.001 mm",
                      "ElementTree serialisation is trusted; save() and to_string() are compared as parsed element trees"]
    return R.out()
