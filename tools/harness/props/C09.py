"""C09 - automatic mask = penalty minimiser (first on ties); explicit mask applied as given."""
import random
from ..core import *  # noqa
from .. import enc, gens
from .common import Res, generic_replay

replay = generic_replay


def impl_bestmask(v, l, cw):
    import qrcode
    q = qrcode.QRCode(version=v, error_correction=l)
    q.data_cache = list(cw)
    return str(q.best_mask_pattern())


def impl_scripted(scores):
    """best_mask_pattern with util.lost_point scripted to return the given scores (tie patterns)"""
    import qrcode
    from qrcode import util
    q = qrcode.QRCode(version=1)
    q.data_cache = [0] * 26
    it = iter(scores)
    orig = util.lost_point
    util.lost_point = lambda modules: next(it)
    try:
        return str(q.best_mask_pattern())
    finally:
        util.lost_point = orig


def run(ctx):
    tier, seed, log = ctx["tier"], ctx["seed"], ctx["log"]
    rnd = random.Random(seed * 29 + 8)
    import qrcode
    R = Res("P2: best_mask_pattern vs Model.bestMaskPattern on random codewords (versions x levels) and, with util.lost_point "
            "scripted, on every tie pattern of 8 scores over {1,2,3} (selection loop incl. ties); P3: mask recorded in the "
            "format information of automatic-mask symbols = Spec.chooseMask (first arg-min of the Spec penalty over the eight "
            "candidates with format/version areas light); explicit masks: reader's mask = requested and symbol decodes. "
            "distinct = distinct canonical requests")
    reqs, exps = [], []
    for _ in range(600 if tier == "thorough" else 120):
        v = rnd.choice([1, 1, 2, 3, 4, 5, 6, 7, 8, 9, 10, 13, 17, 20] + ([27, 33, 40] if tier == "thorough" else []))
        l = rnd.randrange(4)
        n = (4 * v + 17) ** 2 // 8
        kind = rnd.choice(["random", "zeros", "ff", "alt", "sparse"])
        cw = {"random": lambda: [rnd.randrange(256) for _ in range(n)], "zeros": lambda: [0] * n, "ff": lambda: [255] * n,
              "alt": lambda: [0x55, 0xAA] * (n // 2), "sparse": lambda: [rnd.choice([0, 0, 0, 1, 128]) for _ in range(n)]}[kind]()
        reqs.append(f"bestmask {v} {l} {fmt_list(cw)}"); exps.append(run_impl(lambda: impl_bestmask(v, l, cw)))
    # scripted scores: all 3^8 tie patterns
    import itertools
    pats = list(itertools.product([1, 2, 3], repeat=8))
    if tier != "thorough":
        pats = [p for i, p in enumerate(pats) if (i + seed) % 3 == 0]
    else:
        R.exhaustive.append("selection loop on all 6 561 score patterns over {1,2,3}^8")
    for p in pats:
        reqs.append("argmin " + " ".join(map(str, p)))
        e = run_impl(lambda: impl_scripted(p))
        exps.append(e + " " + e[3:] if e.startswith("ok") else e)     # model reply carries (loop result, Spec.argminFirst)
    got = ask_parallel(reqs, chunk=200)
    for rq, e, g in zip(reqs, exps, got):
        R.corr(rq.split(" ")[0], rq, e, g, tag="P2:" + rq.split(" ")[0], sample=rq[:60])
    log(f"P2 done: {len(reqs)} comparisons, {len(R.corr_failures)} disagreements")
    # P3
    cases = []
    for _ in range(1200 if tier == "thorough" else 260):
        ver = rnd.choice([None, None, None, 1, 2, 3, 7, 8, 10, 13, 17] + ([20, 27, 40] if tier == "thorough" else []))
        n = rnd.choice([1, 3, 6, 9, 12, 20, 33, 60, 100])
        cases.append(dict(version=ver, level=rnd.randrange(4), mask=None, fit=True,
                          calls=[(gens.payload(rnd, rnd.choice(gens.KINDS), n), rnd.choice([0, 20]))], tag="auto"))
    for m in range(8):
        for _ in range(12 if tier == "thorough" else 4):
            cases.append(dict(version=rnd.choice([None, 1, 2, 7, 12]), level=rnd.randrange(4), mask=m, fit=True,
                              calls=[(gens.payload(rnd, rnd.choice(gens.KINDS), rnd.randrange(1, 60)), 20)], tag="explicit"))
    for m in list(range(8)) + [None, None]:
        for _ in range(3 if tier == "thorough" else 1):
            cases.append(dict(version=rnd.choice([None, None, 2, 7]), level=rnd.randrange(4), mask=m, fit=True, entry="make-shortcut",
                              calls=[(gens.payload(rnd, rnd.choice(["lower", "digits", "alnum"]), rnd.randrange(1, 50)), 20)], tag="explicit-shortcut" if m is not None else "auto-shortcut"))
    for c in cases[::3]:
        if c.get("entry"):
            continue
        if c["version"] is not None:
            c["prehistory"] = dict(style="resettings", version=rnd.choice([1, 2, 3, 7]), level=rnd.randrange(4), mask=None, data=b"")
            c["fit"] = False if rnd.random() < 0.5 else c["fit"]
    for c in cases[1::3]:
        if c.get("entry") or c.get("prehistory"):
            continue
        # the same object compiled other data before (automatic or explicit mask), then clear() + the case's data or the case's
        # data on top: the choice must be made afresh for the symbol that is produced now (oracle: from that symbol alone)
        c["prehistory"] = dict(style="recompile", data=gens.payload(rnd, rnd.choice(["lower", "digits", "bytes", "alnum"]), rnd.choice([1, 5, 12, 30])),
                               clear=rnd.random() < 0.6, render=rnd.random() < 0.5)
        c["tag"] += "-recompiled"
    if tier != "thorough":
        cases.append(dict(version=40, level=1, mask=None, fit=False, calls=[(gens.payload(rnd, "mixed", 900), 20)], tag="auto"))
    recs = enc.run_cases(cases, jobs=12 if tier == "thorough" else 4)
    sreq, idx = [], []
    for i, r in enumerate(recs):
        if r.get("outcome", ("err",))[0] == "ok":
            sreq.append("spec.bestmask " + fmt_mat(r["outcome"][2])); idx.append(i)
            sreq.append("spec.read " + fmt_mat(r["outcome"][2])); idx.append(i)
    reps = ask_parallel(sreq, chunk=40)
    for k in range(0, len(idx), 2):
        r = recs[idx[k]]
        c = r["case"]
        key = enc.compile_request(r)
        bmr, rd = reps[k], reps[k + 1]
        problems = []
        t = bmr.split(" ")
        sp = enc.parse_spec_read(rd)
        if sp is None:
            problems.append("symbol unreadable: " + rd[:60])
        elif c["mask"] is None:
            if t[0] != "ok":
                problems.append(bmr)
            elif t[1] != t[2]:
                problems.append(f"format information records mask {t[1]}, the ISO minimiser is {t[2]}")
        else:
            if sp["mask"] != c["mask"]:
                problems.append(f"explicit mask {c['mask']} requested, symbol records {sp['mask']}")
        R.oracle(key, not problems, dict(input=key[:300], case=enc.case_repr(c), expected="ISO mask choice / explicit mask honoured",
                                         observed="; ".join(problems)), tag="P3:" + c["tag"],
                 sample=dict(version=r["outcome"][1], level=c["level"], mask=c["mask"], recorded=t[1] if t[0] == "ok" else None))
    log(f"P3 done: {len(R.violations)} violations")
    return R.out()
