"""C07 - automatic fitting picks the smallest adequate version; capacities match ISO."""
import random
from ..core import *  # noqa
from .. import enc, gens
from .common import Res, generic_replay

replay = generic_replay


def impl_bestfit(start, l, segs):
    import qrcode
    from qrcode import util
    q = qrcode.QRCode(error_correction=l)
    q.data_list = [util.QRData(d, mode=m, check_data=False) for m, d in segs]
    return str(q.best_fit(start=start or None))


def seg_counts(segs):
    return ";".join(f"{m}:{len(d)}" for m, d in segs) if segs else "-"


def run(ctx):
    tier, seed, log = ctx["tier"], ctx["seed"], ctx["log"]
    rnd = random.Random(seed * 19 + 2)
    import qrcode
    R = Res("P2: QRCode.best_fit vs Model.bestFit; P3: fitted version = Spec.minVersion (smallest version >= start whose "
            "capacity holds the stream with that version's count widths) and never below the request. Inputs: capacity -1/0/+1 "
            "for all 160 pairs x 3 modes x starts {None, 1, v-1, v, v+1}; class-crossing streams around 9|10 and 26|27; many "
            "tiny segments; random multi-segment lists; make() on compile cases. distinct = distinct canonical requests")
    caps = gens.capacities()
    items = []   # (start, level, segs)
    for v in range(1, 41):
        for l in range(4):
            for m in (1, 2, 4):
                for d in (-1, 0, 1):
                    n = caps[(m, v, l)] + d
                    if n < 0:
                        continue
                    data = gens.mode_payload(rnd, m, n, 1 if m == 1 else 2)
                    starts = [0, 1, max(1, v - 1), v, min(40, v + 1)] if (tier == "thorough" or (v + l) % 3 == seed % 3) else [0, rnd.choice([1, max(1, v - 1), v])]
                    for s in starts:
                        items.append((s, l, [(m, data)]))
    R.exhaustive.append("capacity -1/0/+1 for all 160 (version, level) x 3 modes (starts sampled in the quick tier)")
    allpairs = [(v, l) for v in range(1, 41) for l in range(4)]
    mpairs = allpairs if tier == "thorough" else [p for p in allpairs if (p[0] + p[1]) % 3 == seed % 3]
    for (v, l, segs, d) in gens.multi_segment_boundary_items(rnd, caps, mpairs):
        for s in ((0, v) if tier == "thorough" else (rnd.choice([0, 0, v, max(1, v - 1)]),)):
            items.append((s, l, segs))
    R.exhaustive.append("two-segment streams (alphanumeric or byte prefix of 1,2,3,5,7,11 characters + numeric tail) at capacity -2..+3 bits"
                        " for every (version, level) (a third of them in the quick tier)")
    for c in gens.class_crossing_cases(rnd, caps):
        segs = []
        for d, _ in c["calls"]:
            from qrcode import util
            segs.append((util.optimal_mode(d), d))
        items.append((c["version"] or 0, c["level"], segs))
    for _ in range(2000 if tier == "thorough" else 400):
        segs = []
        for _ in range(rnd.randrange(0, 6)):
            m = rnd.choice([1, 2, 4])
            segs.append((m, gens.mode_payload(rnd, m, rnd.choice([0, 1, 5, 20, 100, 400, rnd.randrange(0, 1500)]), 2)))
        items.append((rnd.choice([0, 0, 1, 5, 9, 10, 20, 26, 27, 40]), rnd.randrange(4), segs))
    reqs, exps, sreq = [], [], []
    for (s, l, segs) in items:
        reqs.append(f"bestfit {s} {l} {fmt_segs(segs)}")
        exps.append(run_impl(lambda: impl_bestfit(s, l, segs)))
        sreq.append(f"spec.minversion {s} {l} {seg_counts(segs)}")
    log(f"{len(items)} best_fit calls on the implementation done")
    got = ask_parallel(reqs, chunk=400)
    spec = ask_parallel(sreq, chunk=4000)
    for (s, l, segs), rq, e, g, sp in zip(items, reqs, exps, got, spec):
        R.corr("bestfit", rq, e, g, tag="P2:bestfit")
        want = sp[3:]
        if e.startswith("ok "):
            obs = e[3:]
        else:
            obs = "none" if e == "err DataOverflowError" else e
        R.oracle("fit " + rq, obs == want, dict(input=f"best_fit start={s or None} level={l} segments(mode:chars)={seg_counts(segs)[:200]}",
                                                 start=s, level=l, segs=[[m, d.hex()] for m, d in segs][:50],
                                                 expected=f"smallest adequate version {want}", observed=obs),
                 tag="P3:" + ("overflow" if want == "none" else "v%s" % ((int(want) - 1) // 10)), sample=dict(start=s, level=l, segs=seg_counts(segs)[:40], version=want))
    # one long-lived object: fit, change the level and/or add data, fit again - the fit must follow the CURRENT level and data
    from qrcode import util as U
    hreq, hmeta = [], []
    for _ in range(300 if tier == "thorough" else 100):
        q = qrcode.QRCode(version=rnd.choice([None, None, 1, 3, 9]), error_correction=rnd.randrange(4), mask_pattern=0)
        segs = []
        trail = []
        for step in range(rnd.randrange(2, 5)):
            ch = rnd.choice(["level", "data", "both", "none"]) if step else "data"
            if ch in ("level", "both"):
                q.error_correction = rnd.randrange(4)
            if ch in ("data", "both"):
                m = rnd.choice([1, 2, 4]); d = gens.mode_payload(rnd, m, rnd.choice([1, 8, 15, 17, 30, 44, 100, 300]), 2)
                q.add_data(U.QRData(d, mode=m, check_data=False)); segs.append((m, d))
            start = q._version or 0
            use_make = rnd.random() < 0.5
            try:
                if use_make:
                    q.make(fit=True)
                else:
                    q.best_fit(start=q._version)
                obs = str(q._version)
            except Exception as e:  # noqa
                obs = "none" if err_name(e) == "DataOverflowError" else err_name(e)
            hreq.append(f"spec.minversion {start} {q.error_correction} {seg_counts(segs)}")
            hmeta.append((list(trail), start, q.error_correction, seg_counts(segs), "make" if use_make else "best_fit", obs))
            trail.append((ch, q.error_correction, len(segs), obs))
            if obs == "none":
                break
    for meta, rep in zip(hmeta, ask(hreq)):
        trail, start, lvl, sc, how, obs = meta
        want = rep[3:]
        R.oracle(f"history {meta}", obs == want, dict(input=f"one object, earlier steps (change, level, segments, version)={trail}; then {how} from version {start or None} at level {lvl} with segments {sc[:120]}",
                                                      expected=f"version {want}", observed=obs), tag="P3:history")
    # make() with fit on compile cases
    cases = [c for c in gens.random_cases(rnd, 400 if tier == "thorough" else 120, max_len=300) if c["fit"]]
    recs = enc.run_cases(cases, jobs=8 if tier == "thorough" else 2)
    sreq, idx = [], []
    for i, r in enumerate(recs):
        if "segs" in r:
            sreq.append(f"spec.minversion {r['case']['version'] or 0} {r['case']['level']} {seg_counts(r['segs'])}"); idx.append(i)
    for i, rep in zip(idx, ask(sreq)):
        r = recs[i]
        want = rep[3:]
        o = r["outcome"]
        obs = str(o[1]) if o[0] == "ok" else ("none" if o[1] == "DataOverflowError" else o[1])
        key = enc.compile_request(r)
        R.oracle("make " + key, obs == want, dict(input=key[:300], case=enc.case_repr(r["case"]), expected=f"version {want}", observed=obs), tag="P3:make")
    log(f"done: {len(R.corr_failures)} disagreements, {len(R.violations)} violations")
    return R.out()
