"""C01 - every produced symbol decodes to exactly the payload."""
import random
from ..core import *  # noqa
from .. import enc, gens
from .common import Res, generic_replay

replay = generic_replay


def check_records(R, recs, p2=True):
    for r in recs:
        if "segs" not in r:
            # add_data itself failed: not a compile; the str/bytes conversion is Python's
            R.oracle(str(r["case"]), False, dict(input=str(enc.case_repr(r["case"])), expected="add_data accepts the payload",
                                                 observed="add_data raised " + r.get("setup_error", "?")))
            continue
        key = enc.compile_request(r)
        c = r["case"]
        if p2:
            model, mmask = enc.model_compile_reply_canon(r["model"])
            R.corr("compile", key, enc.impl_compile_reply(r), model, tag="P2:" + c.get("tag", "?"))
        if r["outcome"][0] != "ok":
            continue
        _, v, M = r["outcome"]
        sp = enc.parse_spec_read(r["spec"])
        problems = []
        if sp is None:
            problems.append("independent reader rejects the symbol: " + r["spec"][:80])
        else:
            got = b"".join(d for _, d in sp["segs"])
            if got != r["payload"]:
                problems.append(f"decoded payload differs: {got[:40]!r}... ({len(got)} bytes) vs {r['payload'][:40]!r}... ({len(r['payload'])} bytes)")
            if sp["version"] != v:
                problems.append(f"reader version {sp['version']} != reported {v}")
            if sp["level"] != c["level"]:
                problems.append(f"reader level indicator {sp['level']} != configured {c['level']}")
            if c["mask"] is not None and sp["mask"] != c["mask"]:
                problems.append(f"reader mask {sp['mask']} != requested {c['mask']}")
            if c["version"] is not None and not c["fit"] and v != c["version"]:
                problems.append(f"version {v} != requested {c['version']} with fit off")
            if c["version"] is not None and v < c["version"]:
                problems.append(f"version {v} below requested {c['version']}")
        R.oracle(key, not problems, dict(input=key[:300], case=enc.case_repr(c), expected="reader returns the payload and the configuration",
                                         observed="; ".join(problems)),
                 tag="P3:" + c.get("tag", "?"), sample=dict(version=v, level=c["level"], mask=c["mask"], payload_len=len(r["payload"])))


def run(ctx):
    tier, seed, log = ctx["tier"], ctx["seed"], ctx["log"]
    R = Res("compile cases (payload kinds x levels x forced/auto version x forced/auto mask x fit x optimize x 1-3 add_data "
            "calls x str/bytes; capacity -1/0/+1 boundaries; class-crossing streams; corpus). P2: Model.compile vs "
            "QRCode.make on version+modules or error class; P3: Spec.read(implementation modules) = payload, version, level, mask. "
            "distinct = distinct canonical (configuration, segment list) requests")
    cases = enc.std_cases(tier, seed)
    log(f"{len(cases)} cases")
    recs = enc.run_cases(cases, jobs=14 if tier == "thorough" else 4)
    log("implementation done")
    enc.attach_model_and_spec(recs)
    check_records(R, recs)
    log(f"P2/P3 done: {len(R.corr_failures)} disagreements, {len(R.violations)} violations")
    R.assumptions += ["str payloads are compared after Python's own UTF-8 encoding (to_bytestring is CPython's encoder)"]
    return R.out()
