"""C17 - the qr command encodes exactly its input with the options given."""
import io, os, pty, random, shutil, subprocess, tempfile
from concurrent.futures import ThreadPoolExecutor
from fractions import Fraction
from ..core import *  # noqa
from .. import gens, svgread
from .common import Res, generic_replay

replay = generic_replay
PYBIN = "/venv/bin/python"


def run_cli(args, stdin_bytes, scratch, tty=False):
    env = dict(os.environ, PYTHONPATH=REPO, PYTHONDONTWRITEBYTECODE="1")
    cmd = [PYBIN, "-m", "qrcode.console_scripts"] + args
    if tty:
        master, slave = pty.openpty()
        p = subprocess.Popen(cmd, stdin=subprocess.PIPE, stdout=slave, stderr=subprocess.PIPE, cwd=scratch, env=env)
        os.close(slave)
        p.stdin.write(stdin_bytes); p.stdin.close()
        out = b""
        while True:
            try:
                chunk = os.read(master, 65536)
            except OSError:
                break
            if not chunk:
                break
            out += chunk
        p.wait(); err = p.stderr.read(); os.close(master)
        return p.returncode, out.replace(b"\r\n", b"\n"), err
    p = subprocess.run(cmd, input=stdin_bytes, stdout=subprocess.PIPE, stderr=subprocess.PIPE, cwd=scratch, env=env, timeout=120)
    return p.returncode, p.stdout, p.stderr


def matrix_from_png(data, box=10, border=4):
    from PIL import Image
    im = Image.open(io.BytesIO(data)).convert("L")
    w, h = im.size
    n = w // box - 2 * border
    px = im.load()
    return [[px[(c + border) * box + box // 2, (r + border) * box + box // 2] < 128 for c in range(n)] for r in range(n)]


def matrix_from_svg(data, box=10, border=4):
    doc = svgread.parse(data)
    n = int(doc["width"]) // box - 2 * border
    M = [[False] * n for _ in range(n)]
    for kind, cx, cy, w, h, raw in doc["shapes"]:
        c = int(cx // box) - border; r = int(cy // box) - border
        M[r][c] = True
    return M, doc


def bm(rows):
    return "/".join("".join("1" if c else "0" for c in row) for row in rows) if rows else "-"


def run(ctx):
    tier, seed, log = ctx["tier"], ctx["seed"], ctx["log"]
    rnd = random.Random(seed * 71 + 6)
    R = Res("real subprocesses `python -m qrcode.console_scripts` (cwd = scratch dir) over factories {none, pil, png, svg, svg-path, "
            "svg-fragment, pymaging, dotted path, unknown x3} x drawers {none, 3 aliases, unknown} x levels {default, L, M, Q, H, "
            "unknown} x --optimize {none, 0, 5, 20} x {stdout pipe, --output, pty} x --ascii x payload as argument (incl. invalid "
            "UTF-8) or stdin (arbitrary binary). P2: Model.cli outcome (fail / ascii(tty) / image + sink) vs exit status and which "
            "sink received what kind of bytes; P3: output decoded (PNG raster / SVG shapes / half-block text) to a matrix, read by "
            "the Spec reader: payload = input bytes, level = option, segments = Model.addData(payload, threshold); --output file "
            "= stdout bytes for the same options; rejected invocations write nothing. distinct = distinct invocations")
    scratch = tempfile.mkdtemp(prefix="c17-")
    try:
        invs = []
        factories = [None, "pil", "png", "svg", "svg-path", "svg-fragment", "pymaging", "qrcode.image.svg.SvgFillImage", "nope", "no.such.Module", "qrcode.image.pil.Nope"]
        drawers = [None, None, "circle", "gapped-circle", "gapped-square", "nonsense"]
        levels = [None, "L", "M", "Q", "H", "X"]
        N = 900 if tier == "thorough" else 260
        def payload():
            k = rnd.choice(["text", "digits", "mixed", "bin", "invalid-utf8", "empty", "nl"])
            if k == "text":
                return gens.payload(rnd, "lower", rnd.randrange(1, 40)).replace(b"\n", b" ").replace(b"\t", b" ")
            if k == "digits":
                return gens.payload(rnd, "digits", rnd.randrange(1, 60))
            if k == "mixed":
                return b"id=" + gens.payload(rnd, "digits", 30) + b";REF-" + gens.payload(rnd, "alnum", 25) + b"x"
            if k == "bin":
                return gens.payload(rnd, "bytes", rnd.randrange(1, 50))
            if k == "invalid-utf8":
                return b"caf\xe9 \xff\xfe" + gens.payload(rnd, "lower", 5)
            if k == "nl":
                return b"  line1\nline2\r\n\n  "
            return b""
        for i in range(N):
            fac = rnd.choice(factories) if rnd.random() < 0.8 else None
            drw = rnd.choice(drawers)
            lvl = rnd.choice(levels) if rnd.random() < 0.7 else None
            opt = rnd.choice([None, None, 0, 5, 20])
            data = payload()
            as_arg = rnd.random() < 0.5 and b"\0" not in data and not data.startswith(b"-")
            ascii_flag = rnd.random() < 0.25
            tty = rnd.random() < 0.12
            out = ("o%d.bin" % i) if rnd.random() < 0.35 else None
            invs.append(dict(factory=fac, drawer=drw, level=lvl, optimize=opt, data=data, as_arg=as_arg, ascii=ascii_flag, tty=tty, output=out))
        # long piped input that still fits a symbol (digits / alphanumerics beyond 4 096 characters)
        for data, lvl in ((gens.payload(rnd, "digits", 4097), "L"), (gens.payload(rnd, "digits", 5500), "M"), (gens.payload(rnd, "alpha-nodigit", 4250), "L"),
                          (gens.payload(rnd, "bytes", 2953), "L")):
            invs.append(dict(factory=rnd.choice([None, "png"]), drawer=None, level=lvl, optimize=None, data=data, as_arg=False, ascii=False, tty=False, output=None))
        # option values that are EMPTY strings: the command tests them by truthiness, i.e. treats them as absent - and that is how the
        # model's CliInput is defined (an Option field is `some v` only for a non-empty v; found by the bridge theorem cli_src, whose
        # hypotheses are exactly these three `!= some ""`)
        for eo in (("factory",), ("drawer",), ("output",), ("factory", "drawer"), ("factory", "output"), ("factory", "drawer", "output")):
            for ascii_flag in (False, True):
                invs.append(dict(factory=None, drawer=None, level=rnd.choice([None, "H"]), optimize=None, data=b"empty option value", as_arg=rnd.random() < 0.5,
                                 ascii=ascii_flag, tty=False, output=None, empty_opts=eo))
        # sink-independence pairs: same options once to stdout, once to --output
        pairs = []
        for i in range(40 if tier == "thorough" else 12):
            fac = rnd.choice(["pil", "png", "svg", "svg-path", "svg-fragment"]) if i % 4 else None
            drw = rnd.choice([None, "circle", "gapped-square"]) if fac in ("svg", "svg-path") else None
            base = dict(factory=fac, drawer=drw, level=rnd.choice([None, "L", "Q", "H"]), optimize=rnd.choice([None, 0, 20]), data=payload() or b"x",
                        as_arg=False, ascii=False, tty=False)
            a = dict(base, output=None); b = dict(base, output="p%d.bin" % i)
            pairs.append((len(invs), len(invs) + 1)); invs += [a, b]

        def execute(inv):
            args = []
            if inv["factory"]:
                args += ["--factory", inv["factory"]]
            if inv["drawer"]:
                args += ["--factory-drawer", inv["drawer"]]
            if inv["level"]:
                args += ["--error-correction", inv["level"]]
            if inv["optimize"] is not None:
                args += ["--optimize", str(inv["optimize"])]
            if inv["ascii"]:
                args += ["--ascii"]
            if inv["output"]:
                args += ["--output", inv["output"]]
            for o, flag in (("factory", "--factory"), ("drawer", "--factory-drawer"), ("output", "--output")):
                if o in inv.get("empty_opts", ()):
                    args += [flag, ""]
            if inv["as_arg"]:
                args += [inv["data"]]
            rc, out, err = run_cli(args, b"" if inv["as_arg"] else inv["data"], scratch, tty=inv["tty"])
            fdata = None
            if inv["output"]:
                pth = os.path.join(scratch, inv["output"])
                if os.path.exists(pth):
                    fdata = open(pth, "rb").read(); os.remove(pth)
            return rc, out, err, fdata
        with ThreadPoolExecutor(max_workers=12) as ex:
            results = list(ex.map(execute, invs))
        log(f"{len(invs)} invocations done")
        reqs = []
        for inv in invs:
            importable = inv["factory"] == "qrcode.image.svg.SvgFillImage"
            reqs.append("cli {} {} {} {} {} {} {} {} {} {} {}".format(inv["factory"] or "-", inv["drawer"] or "-", "-" if inv["optimize"] is None else inv["optimize"],
                        inv["level"] or "M", int(inv["ascii"]), inv["output"] or "-", fmt_list(inv["data"]) if inv["as_arg"] else "none",
                        fmt_list(b"" if inv["as_arg"] else inv["data"]), int(inv["tty"]), int(importable),
                        "circle,gapped-circle,gapped-square" if importable else "-"))
        got = ask_parallel(reqs, chunk=200)
        sreq, sidx = [], []
        decoded = {}
        for i, (inv, (rc, out, err, fdata), rep) in enumerate(zip(invs, results, got)):
            key = reqs[i]
            t = rep.split(" ")
            # ---- classify the observed behaviour
            payload_bytes = fdata if inv["output"] else out
            if rc != 0:
                obs = "fail" if not out and fdata is None else f"fail-but-wrote(stdout={len(out)},file={None if fdata is None else len(fdata)})"
            elif inv["output"]:
                obs = "image file:" + inv["output"] if (fdata is not None and not out) else f"odd(stdout={len(out)},file={fdata is not None})"
            else:
                is_text = out[:1] in (b"\xc2", b"\xe2", b"\x1b", b"\n") and not out.startswith(b"\x89PNG")
                obs = ("ascii " + ("1" if out.startswith(b"\x1b") else "0")) if is_text else "image stdout"
            if t[1] == "fail":
                mod = "fail"
            elif t[1] == "ascii":
                mod = "ascii " + t[2]
            else:
                mod = "image " + t[6]
            R.corr("cli", key, obs, mod, tag="P2:" + mod.split(" ")[0], sample=" ".join(key.split(" ")[1:7]))
            # ---- decode what was emitted
            if rc == 0 and payload_bytes:
                try:
                    if payload_bytes.startswith(b"\x89PNG"):
                        M = matrix_from_png(payload_bytes); kind = "png"
                    elif payload_bytes.lstrip().startswith(b"<"):
                        M, doc = matrix_from_svg(payload_bytes); kind = "svg"
                    else:
                        kind = "text"; M = None
                        inverted = payload_bytes.startswith(b"\x1b")
                        sreq.append(f"spec.readascii {int(inverted)} {payload_bytes.hex()}"); sidx.append((i, "ascii"))
                    if M is not None:
                        decoded[i] = (kind, M)
                except Exception as e:  # noqa
                    decoded[i] = ("undecodable", f"{type(e).__name__}: {e}")
        for (i, k), rep in zip(sidx, ask_parallel(sreq, chunk=50)):
            if rep.startswith("ok "):
                rows = rep[3:].split("/")
                n = len(rows[0]) - 8
                decoded[i] = ("text", [[ch == "1" for ch in row[4:4 + n]] for row in rows[4:4 + n]])
            else:
                decoded[i] = ("undecodable", rep)
        rreq, ridx = [], []
        for i, (kind, M) in decoded.items():
            if kind != "undecodable":
                rreq.append("spec.read " + bm(M)); ridx.append(i)
        reads = dict(zip(ridx, ask_parallel(rreq, chunk=50)))
        lvlmap = {"L": 1, "M": 0, "Q": 3, "H": 2, None: 0}
        for i, (inv, (rc, out, err, fdata), rep) in enumerate(zip(invs, results, got)):
            key = reqs[i]
            t = rep.split(" ")
            problems = []
            bad_opts = inv["factory"] in ("nope", "no.such.Module", "qrcode.image.pil.Nope") or inv["level"] == "X" or \
                (inv["drawer"] == "nonsense") or (inv["drawer"] and inv["factory"] not in ("svg", "svg-path", "qrcode.image.svg.SvgFillImage"))
            if bad_opts:
                if rc == 0:
                    problems.append("unknown factory/drawer/level accepted (exit status 0)")
                if out or fdata is not None:
                    problems.append("an image/output was written although the invocation is invalid")
            elif rc != 0:
                problems.append(f"valid invocation failed with exit status {rc}: {err[-200:]!r}")
            else:
                if i not in decoded:
                    problems.append("nothing was emitted")
                elif decoded[i][0] == "undecodable":
                    problems.append("output is not a well-formed image/text: " + str(decoded[i][1])[:100])
                else:
                    from .. import enc
                    sp = enc.parse_spec_read(reads[i])
                    if sp is None:
                        problems.append("emitted symbol is not readable: " + reads[i][:60])
                    else:
                        got_payload = b"".join(d for _, d in sp["segs"])
                        if got_payload != inv["data"]:
                            problems.append(f"decoded payload {got_payload[:40]!r} != input {inv['data'][:40]!r}")
                        if sp["level"] != lvlmap[inv["level"]]:
                            problems.append(f"level indicator {sp['level']} != requested {inv['level'] or 'M'}")
                        want_segs = t[5] if t[1] == "image" else (t[4] if t[1] == "ascii" else None)
                        if want_segs is not None and fmt_segs(sp["segs"]) != want_segs:
                            problems.append(f"segmentation {fmt_segs(sp['segs'])[:60]} != add_data(payload, optimize={inv['optimize'] if inv['optimize'] is not None else 20}) {want_segs[:60]}")
                        exp_kind = "text" if (inv["factory"] is None and not inv["output"] and (inv["tty"] or inv["ascii"])) else \
                            ("svg" if (inv["factory"] or "").startswith(("svg", "qrcode.image.svg")) else "png")
                        if decoded[i][0] != exp_kind:
                            problems.append(f"emitted {decoded[i][0]}, expected {exp_kind}")
                        if decoded[i][0] == "svg" and inv["drawer"]:
                            kinds = set(s[0] for s in svgread.parse(fdata if inv["output"] else out)["shapes"])
                            want = {"circle": {"circle", "pci"}, "gapped-circle": {"circle", "pci"}, "gapped-square": {"rect", "psq"}}[inv["drawer"]]
                            # the command passes only a module drawer: the three eyes keep the default square drawer
                            if not (kinds & want) or not kinds <= (want | {"rect", "psq"}):
                                problems.append(f"drawer {inv['drawer']} requested, shapes are {sorted(kinds)}")
            R.oracle("P3 " + key, not problems, dict(input=key[:500], invocation={k: (v.hex() if isinstance(v, bytes) else v) for k, v in inv.items()},
                                                     expected="exactly the input bytes at the requested options, or a clean failure", observed="; ".join(problems)),
                     tag="P3:" + ("reject" if bad_opts else decoded.get(i, ("none",))[0]), sample=None)
        for a, b in pairs:
            ra, rb = results[a], results[b]
            ok = ra[0] == 0 and rb[0] == 0 and ra[1] == rb[3] and ra[1]
            R.oracle("pair " + reqs[a], ok, dict(input=reqs[a][:400], invocation={k: (v.hex() if isinstance(v, bytes) else v) for k, v in invs[a].items()},
                                                 expected="--output file identical to the stdout image", observed=f"stdout {len(ra[1])} bytes, file {None if rb[3] is None else len(rb[3])} bytes, equal={ra[1] == rb[3]}"), tag="P3:sink-pair")
    finally:
        shutil.rmtree(scratch, ignore_errors=True)
    log(f"done: {len(R.corr_failures)} disagreements, {len(R.violations)} violations")
    R.assumptions += ["optparse, argv decoding (UTF-8 filesystem encoding + surrogateescape), the file system and the image encoders are outside the model",
                      "a pty stands in for a terminal"]
    return R.out()
