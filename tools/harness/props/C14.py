"""C14 - styled images: dark modules foreground, light modules background."""
import io, math, random
from ..core import *  # noqa
from .. import gens
from .common import Res, generic_replay

replay = generic_replay


def chan(c, n):
    c = tuple(c)
    return c + (255,) * (n - len(c)) if len(c) < n else c[:n]


def run(ctx):
    tier, seed, log = ctx["tier"], ctx["seed"], ctx["log"]
    rnd = random.Random(seed * 79 + 3)
    import qrcode
    from PIL import Image
    from qrcode.image.styledpil import StyledPilImage
    from qrcode.image.styles import colormasks as CM
    from qrcode.image.styles.moduledrawers import pil as DR
    R = Res("StyledPilImage renders through real Pillow: 6 drawers (ratio parameters in [0.5, 1]) x 6 colour-mask classes x RGB/RGBA "
            "colours {black, white, greys, saturated, near-equal pairs, zero channels, alpha 0/128/255} x box 6..14 x border 0..4 x "
            "embedded images (opaque / alpha) at ratios {0.1, 0.25, 0.33, 0.5}. P2: Model.paintColour vs img.paint_color, "
            "Model.logoGeometry vs the altered region; P3: the property's predicates on the pixels of get_image() and of the "
            "saved PNG: size, every light/quiet pixel = background, dark centres = foreground (exact for the square drawers, "
            ">= 3/4 of the way for the antialiased ones; foreground = front colour / between the gradient's end colours / mask "
            "image pixel), embedded image confined to a centred module-aligned square. Configurations whose paint colour equals "
            "the background are the open known finding D4. distinct = distinct configurations")
    drawers = [("square", lambda: DR.SquareModuleDrawer()), ("gapped", lambda: DR.GappedSquareModuleDrawer(size_ratio=rnd.choice([0.5, 0.8, 1.0]))),
               ("circle", lambda: DR.CircleModuleDrawer()), ("rounded", lambda: DR.RoundedModuleDrawer(radius_ratio=rnd.choice([0.5, 1]))),
               ("vbars", lambda: DR.VerticalBarsDrawer(horizontal_shrink=rnd.choice([0.5, 0.8, 1.0]))), ("hbars", lambda: DR.HorizontalBarsDrawer(vertical_shrink=rnd.choice([0.5, 0.8, 1.0])))]
    rgb = [(255, 255, 255), (0, 0, 0), (128, 128, 128), (255, 255, 0), (255, 165, 0), (10, 200, 30), (250, 250, 250), (1, 1, 1), (0, 0, 255), (200, 0, 100), (254, 255, 255)]
    def colour(alpha):
        c = rnd.choice(rgb)
        return c if alpha is None else c + (alpha,)
    # ---- P2 on exact pixels: QRColorMask.apply_mask on a two-pixel image (one background pixel, one paint pixel) vs
    #      Model.applyMaskPixel, for EVERY channel distance 1..255 (RGB: back=(d,d,d) on black paint; RGBA: alpha 255-d),
    #      mixed distances and random colours
    pairs = []
    for d in range(1, 256):
        pairs.append(((d, d, d), (255, 255, 255)))
        pairs.append(((255, 255, 255, 255 - d), (0, 0, 0, 255)))
        pairs.append(((d, (d * 7) % 255 + 1, 255 - d if d < 255 else 3), (255, 0, 128)))
    for _ in range(4000 if tier == "thorough" else 800):
        n4 = rnd.random() < 0.4
        b = tuple(rnd.randrange(256) for _ in range(4 if n4 else 3))
        f = tuple(rnd.randrange(256) for _ in range(4 if n4 else 3))
        pairs.append((b, f))
    reqs, exps, pmeta = [], [], []
    for back_, front_ in pairs:
        paint_ = (tuple(back_[:3]) + (255,)) if len(back_) == 4 else (0,) * len(back_)
        if tuple(paint_) == tuple(back_):
            continue
        m_ = CM.SolidFillColorMask(back_color=back_, front_color=front_)
        m_.paint_color = paint_
        im_ = Image.new("RGBA" if len(back_) == 4 else "RGB", (2, 1), back_)
        im_.putpixel((1, 0), paint_)
        try:
            CM.QRColorMask.apply_mask(m_, im_)
            got_ = (im_.getpixel((0, 0)), im_.getpixel((1, 0)))
        except Exception as e:  # noqa
            got_ = (f"{type(e).__name__}",) * 2
        for pix_, g_ in ((back_, got_[0]), (paint_, got_[1])):
            reqs.append(f"applymask {fmt_list(back_)} {fmt_list(paint_)} {fmt_list(front_)} {fmt_list(pix_)}")
            exps.append("ok " + (fmt_list(g_) if not isinstance(g_, str) else g_) + " " + fmt_list(paint_))
            pmeta.append((back_, front_))
    directed = []
    for rq, e, g, pm in zip(reqs, exps, ask_parallel(reqs, chunk=4000), pmeta):
        if not R.corr("applymask", rq, e, g, tag="P2:applymask") and pm not in directed:
            directed.append(pm)
    R.exhaustive.append("apply_mask on exact pixels for every channel distance 1..255 between background and paint colour (RGB and alpha)")
    log(f"P2 applymask: {len(reqs)} pixel evaluations, {len(directed)} colour pairs disagree")
    N = 500 if tier == "thorough" else 70
    cases = []
    for i in range(N):
        dname, dmk = rnd.choice(drawers) if i >= len(drawers) * 2 else drawers[i % len(drawers)]
        alpha = rnd.choice([None, None, None, 0, 128, 255])
        back = colour(alpha)
        mk = rnd.choice(["solid", "solid", "radial", "square", "horizontal", "vertical", "image"]) if i >= 14 else ["solid", "radial", "square", "horizontal", "vertical", "image", "solid"][i % 7]
        fa = None if alpha is None else rnd.choice([255, 255, 128])
        c1, c2 = colour(fa), colour(fa)
        box = rnd.choice([6, 7, 8, 9, 10, 11, 12, 14])
        border = rnd.choice([0, 1, 2, 4])
        logo = rnd.choice([None, None, None, ("rgb", 0.25), ("rgba", 0.33), ("rgb", 0.1), ("rgb", 0.5)])
        cases.append((dname, dmk, mk, back, c1, c2, box, border, logo))
    # diff-directed search: colour pairs on which the exact-pixel correspondence broke are rendered for real
    for back_, front_ in directed[:6]:
        cases.insert(0, ("square", drawers[0][1], "solid", back_, front_, front_, 6, 0, None))
    # the default configuration and the existing-suite style ones first
    cases.insert(0, ("square", drawers[0][1], "default", (255, 255, 255), (0, 0, 0), (0, 0, 0), 10, 4, None))
    for dname, dmk in drawers:          # every drawer at box sizes of each residue class mod 4, plain colours
        for box in (6, 7, 9, 11) if tier == "thorough" else ((7, 11) if dname in ("rounded", "vbars", "hbars", "circle") else (6,)):
            cases.insert(1, (dname, dmk, "solid", (255, 255, 255), (0, 0, 120), (0, 0, 120), box, 1, None))
    for idx, (dname, dmk, mk, back, c1, c2, box, border, logo) in enumerate(cases):
        n4 = len(back)
        if mk in ("solid", "default") and tuple(c1[:3]) == tuple(back[:3]) and (len(c1) < 4 or len(back) < 4 or c1[3] == back[3]):
            continue        # the property quantifies over masks whose foreground differs from the background
        maskimg = None
        if mk == "default":
            mask = None
        elif mk == "solid":
            mask = CM.SolidFillColorMask(back_color=back, front_color=c1)
        elif mk == "radial":
            mask = CM.RadialGradiantColorMask(back_color=back, center_color=c1, edge_color=c2)
        elif mk == "square":
            mask = CM.SquareGradiantColorMask(back_color=back, center_color=c1, edge_color=c2)
        elif mk == "horizontal":
            mask = CM.HorizontalGradiantColorMask(back_color=back, left_color=c1, right_color=c2)
        elif mk == "vertical":
            mask = CM.VerticalGradiantColorMask(back_color=back, top_color=c1, bottom_color=c2)
        else:
            maskimg = Image.new("RGBA" if n4 == 4 else "RGB", (37, 41))
            px = maskimg.load()
            for x in range(37):
                for y in range(41):
                    px[x, y] = chan(((x * 7) % 200, (y * 5) % 200, (x + y) % 150, 255), n4)
            mask = CM.ImageColorMask(back_color=back, color_mask_image=maskimg)
        q = qrcode.QRCode(version=rnd.choice([1, 2, 3]), border=border, box_size=box, error_correction=qrcode.ERROR_CORRECT_H)
        q.add_data(gens.payload(rnd, "lower", rnd.randrange(1, 8)), optimize=0)
        kw = dict(module_drawer=dmk())
        if mask is not None:
            kw["color_mask"] = mask
        logo_img = None
        if logo:
            size_ = (q._version * 4 + 17 + 2 * border) * box
            w_ = int(size_ * logo[1])
            side_ = size_ - 2 * (int((int(size_ / 2) - int(w_ / 2)) / box) * box)
            shape = [(40, 40), (side_, side_), (side_, 2 * side_ - 3), (2 * side_ + 1, side_), (max(1, side_ - 1), side_ + 7), (w_, w_ * 2), (max(1, w_), max(1, w_ // 3))][idx % 7]
            shape = (max(1, shape[0]), max(1, shape[1]))
            logo_img = Image.new("RGBA" if logo[0] == "rgba" else "RGB", shape, (200, 30, 30, 200) if logo[0] == "rgba" else (200, 30, 30))
            kw["embeded_image"] = logo_img; kw["embeded_image_ratio"] = logo[1]
        key = f"{dname} {mk} back={back} c1={c1} c2={c2} box={box} border={border} logo={logo} v{q.version if q._version else '?'} #{idx}"
        paint_exp_req = f"{fmt_list(back)}"
        try:
            im = q.make_image(image_factory=StyledPilImage, **kw)
            if idx % 3 == 1:
                # exports in other formats first (one may be refused, e.g. JPEG for an image with alpha): must not change the image
                for kind_ in (["JPEG", "jpeg"][idx % 2:][:1] if len(back) == 4 or idx % 2 else []) + [["BMP", "GIF", "PNG", "TIFF"][(idx // 3) % 4]]:
                    try:
                        im.save(io.BytesIO(), kind=kind_)
                    except Exception:  # noqa
                        pass
            img = im.get_image()
            buf = io.BytesIO(); im.save(buf)
            img2 = Image.open(io.BytesIO(buf.getvalue()))
        except Exception as e:  # noqa
            R.oracle(key, False, dict(input=key, expected="an image", observed=f"{type(e).__name__}: {e}"[:300]), tag="P3:error")
            continue
        M = q.modules; n = len(M)
        size = (n + 2 * border) * box
        W = img.size[0]
        nchan = len(img.getbands())
        backc = chan(back, nchan)
        paint = tuple(im.paint_color)
        # ---- P2: paint colour and logo geometry
        mpaint = (tuple(back[:3]) + (255,)) if len(back) == 4 else tuple(0 for _ in back)
        R.corr("paint_color", key, str(paint), str(mpaint), tag="P2:paint")
        cls = dict(paint_equals_back=(tuple(paint) == tuple(back)))
        problems = []
        if len(back) == 4 and mk != "image" and nchan != 4:
            problems.append(f"the mask's background {back} has an alpha channel, the image is mode {img.mode}: background pixels cannot equal it")
        if img.size != (size, size) or img2.size != (size, size):
            problems.append(f"image size {img.size}, expected {size}")
        if list(img2.convert(img.mode).getdata()) != list(img.getdata()):
            problems.append("saved PNG decodes to different pixels than get_image()")
        px = img.load()
        # logo region
        lo = hi = None
        if logo:
            w_ish = int(size * logo[1])
            off = int((int(size / 2) - int(w_ish / 2)) / box) * box
            side = size - 2 * off
            lo, hi = off, off + side
            if off % box != 0:
                problems.append("logo offset not module aligned")
            if abs((lo + hi) - size) > 1:
                problems.append("logo square not centred")
            if not (w_ish - 1 <= side <= w_ish + 2 * box):
                problems.append(f"logo side {side} not within two modules of the requested {w_ish}")
        def in_logo(x, y):
            return lo is not None and lo <= x < hi and lo <= y < hi
        def fg_at(x, y):
            """allowed foreground range (lo, hi) per channel"""
            if mk in ("solid", "default"):
                c = chan(c1 if mk == "solid" else (0, 0, 0), nchan); return c, c
            if mk == "image":
                c = chan(mask.color_img.getpixel((x, y)), nchan); return c, c
            a, b = chan(c1, nchan), chan(c2, nchan)
            return tuple(min(p, q_) for p, q_ in zip(a, b)), tuple(max(p, q_) for p, q_ in zip(a, b))
        bad_light = bad_dark = None
        for r in range(-border, n + border):
            for c in range(-border, n + border):
                dark = 0 <= r < n and 0 <= c < n and M[r][c]
                x0, y0 = (c + border) * box, (r + border) * box
                if not dark:
                    for dy in range(box):
                        for dx in range(box):
                            x, y = x0 + dx, y0 + dy
                            if in_logo(x, y):
                                continue
                            if px[x, y] != backc and bad_light is None:
                                bad_light = (r, c, x, y, px[x, y])
                else:
                    cx, cy = x0 + box // 2, y0 + box // 2
                    for (x, y) in ({(cx, cy), (cx - (1 - box % 2), cy - (1 - box % 2))}):
                        if in_logo(x, y):
                            continue
                        flo, fhi = fg_at(x, y)
                        p = px[x, y]
                        tol = 0 if mk in ("solid", "default", "image") else 1      # gradients interpolate in floats: int() may land 1 below
                        for ch in range(nchan):
                            b_ = backc[ch]
                            if dname in ("square", "gapped"):
                                ok = flo[ch] - tol <= p[ch] <= fhi[ch] + tol
                            else:
                                # there is an admissible foreground value f in [flo, fhi] such that p lies at least 3/4 of the way
                                # from the background b_ to f (and not beyond f)
                                v = p[ch]
                                if v >= b_:
                                    lo_f, hi_f = max(v - 1, flo[ch]), min(fhi[ch], b_ + (v + 1 - b_) / 0.75)
                                    ok = lo_f <= hi_f and hi_f >= b_ or (v == b_ and flo[ch] <= b_ <= fhi[ch])
                                else:
                                    lo_f, hi_f = max(flo[ch], b_ - (b_ - v + 1) / 0.75), min(v + 1, fhi[ch])
                                    ok = lo_f <= hi_f and lo_f <= b_
                            if not ok and bad_dark is None:
                                bad_dark = (r, c, x, y, p, flo, fhi)
        if bad_light:
            problems.append(f"light module/quiet zone pixel ({bad_light[2]},{bad_light[3]}) of module ({bad_light[0]},{bad_light[1]}) is {bad_light[4]}, background is {backc}")
        if bad_dark:
            problems.append(f"centre ({bad_dark[2]},{bad_dark[3]}) of dark module ({bad_dark[0]},{bad_dark[1]}) is {bad_dark[4]}, foreground range {bad_dark[5]}..{bad_dark[6]}, background {backc}")
        R.oracle(key, not problems, {"input": key, "expected": "background on light modules, foreground at dark centres", "observed": "; ".join(problems)[:600], "class": cls},
                 tag="P3:" + dname + ":" + mk + (":alpha" if len(back) == 4 else ""), sample=dict(drawer=dname, mask=mk, back=back, box=box, border=border, logo=logo))
    log(f"done: {len(R.corr_failures)} disagreements, {len(R.violations)} violations")
    R.assumptions += ["A-PIL / A-STAMP: Pillow's rectangle, ellipse, LANCZOS resize, paste and alpha_composite are exercised, not modelled",
                      "float rounding in interp_num: +-1 per channel tolerated on antialiased drawers and gradients"]
    return R.out()
