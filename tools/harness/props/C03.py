"""C03 - compile succeeds or raises DataOverflowError, decided by capacity."""
import random
from ..core import *  # noqa
from .. import enc, gens
from .common import Res, generic_replay

replay = generic_replay


def seg_counts(segs):
    return ";".join(f"{m}:{len(d)}" for m, d in segs) if segs else "-"


def run(ctx):
    tier, seed, log = ctx["tier"], ctx["seed"], ctx["log"]
    rnd = random.Random(seed * 17 + 3)
    import qrcode
    R = Res("compile cases of C01 plus payloads up to 3x the 40-L capacity, capacity+1 with fit off at sampled pairs, awkward "
            "contents (NUL, 0xFF, digit runs), entry points make / make_image / get_matrix / qrcode.make. P2: error class of "
            "Model.compile; P3: exception class in {none, DataOverflowError} and equal to the Spec capacity decision. "
            "distinct = distinct canonical requests")
    caps = gens.capacities()
    cases = enc.std_cases(tier, seed, caps, cross_all=True)
    # far beyond capacity / awkward
    for _ in range(300 if tier == "thorough" else 60):
        kind = rnd.choice(["zeros", "ff", "digits", "bytes", "alnum", "mixed"])
        n = rnd.choice([2954, 3000, 4297, 7090, 8000, rnd.randrange(2000, 9000)])
        ver = rnd.choice([None, None, 1, 10, 27, 40])
        cases.append(dict(version=ver, level=rnd.randrange(4), mask=rnd.randrange(8), fit=rnd.random() < 0.6,
                          calls=[(gens.payload(rnd, kind, n), rnd.choice([0, 20]))], tag="huge"))
    # count field would overflow (segment longer than 2^width - 1) with fit off
    for v, m, n in [(1, 4, 256), (9, 4, 300), (9, 1, 1024), (9, 2, 512), (10, 1, 4096), (26, 2, 2048), (27, 2, 8192), (40, 1, 16384), (5, 4, 65536)]:
        cases.append(dict(version=v, level=rnd.randrange(4), mask=0, fit=False, calls=[(gens.mode_payload(rnd, m, n, 0), 0)], tag="count-field"))
    log(f"{len(cases)} cases")
    recs = enc.run_cases(cases, jobs=14 if tier == "thorough" else 4)
    enc.attach_model_and_spec(recs, want_spec=False)
    sreq, sidx = [], []
    for i, r in enumerate(recs):
        if "segs" not in r:
            continue
        c = r["case"]
        vmax = c["version"] if (c["version"] is not None and not c["fit"]) else 40
        sreq.append(f"spec.fits {vmax} {c['level']} {seg_counts(r['segs'])}"); sidx.append(i)
    for i, rep in zip(sidx, ask_parallel(sreq, chunk=2000)):
        recs[i]["fits"] = rep
    for r in recs:
        if "segs" not in r:
            continue
        key = enc.compile_request(r)
        c = r["case"]
        model, _ = enc.model_compile_reply_canon(r["model"])
        impl = enc.impl_compile_reply(r)
        # P2 on the error class only (matrices are C01's comparison)
        R.corr("compile-outcome", key, impl.split(" ")[0] + (" " + impl.split(" ")[1] if impl.startswith("err") else ""),
               model.split(" ")[0] + (" " + model.split(" ")[1] if model.startswith("err") else ""), tag="P2:" + c.get("tag", "?"))
        fits = r["fits"].split(" ")[1] == "1"
        o = r["outcome"]
        problems = []
        if o[0] == "err" and o[1] != "DataOverflowError":
            problems.append(f"{o[1]} escaped ({r.get('exc_repr','')})")
        if o[0] == "ok" and not fits:
            problems.append("symbol produced although the stream exceeds the capacity of the largest admissible version: " + r["fits"])
        if o[0] == "err" and o[1] == "DataOverflowError" and fits:
            problems.append("DataOverflowError although the stream fits: " + r["fits"])
        R.oracle(key, not problems, dict(input=key[:300], case=enc.case_repr(c), expected="success iff the stream fits, else DataOverflowError",
                                         observed="; ".join(problems)), tag="P3:" + ("fits" if fits else "overflow") + ":" + c.get("tag", "?"),
                 sample=dict(version=c["version"], level=c["level"], fit=c["fit"], segs=seg_counts(r["segs"])[:60], outcome=o[0] if o[0] == "ok" else o[1]))
    # re-configured objects: the decision must follow the CURRENT settings and data, whatever the object compiled before
    hist_req, hist_meta = [], []
    for _ in range(400 if tier == "thorough" else 120):
        v = rnd.choice([1, 2, 3, 5, 7, 9, 10, 12, 26, 27, 30])
        l0 = rnd.randrange(4)
        m = rnd.choice([1, 2, 4])
        # a payload between the smallest and the largest capacity of version v over the four levels
        capsv = sorted(caps[(m, v, l)] for l in range(4))
        n = rnd.choice([capsv[0], capsv[0] + 1, capsv[1], capsv[1] + 1, capsv[2], capsv[2] + 1, capsv[3], capsv[3] + 1, rnd.randrange(capsv[0], capsv[3] + 2)])
        data = gens.mode_payload(rnd, m, n, rnd.randrange(4))
        q = qrcode.QRCode(version=v, error_correction=l0, mask_pattern=rnd.randrange(8))
        q.add_data(data, optimize=0)
        steps = []
        for _ in range(rnd.randrange(1, 4)):
            try:
                q.make(fit=rnd.random() < 0.3)
            except Exception:  # noqa
                pass
            ch = rnd.choice(["level", "level", "version", "both"])
            if ch in ("level", "both"):
                q.error_correction = rnd.randrange(4)
            if ch in ("version", "both"):
                q.version = rnd.choice([v, max(1, v - 1), min(40, v + 1)])
            steps.append((q._version, q.error_correction))
        cur_v, cur_l = q._version, q.error_correction
        fit = rnd.random() < 0.3
        try:
            q.make(fit=fit); out = "ok"
        except Exception as e:  # noqa
            out = err_name(e)
        vmax = 40 if fit else cur_v
        hist_req.append(f"spec.fits {vmax} {cur_l} {m}:{n}")
        hist_meta.append((v, l0, m, n, steps, fit, out, sha(data)))
    for meta, rep in zip(hist_meta, ask(hist_req)):
        v, l0, m, n, steps, fit, out, h = meta
        fits = rep.split(" ")[1] == "1"
        exp = "ok" if fits else "DataOverflowError"
        R.oracle(f"history {meta[:7]} {h}", out == exp,
                 dict(input=f"one object: version={v} level={l0}, {n} chars of mode {m}; make / re-configure to (version, level)={steps}; final make(fit={fit})",
                      expected=exp + " (decided by the current settings: " + rep + ")", observed=out), tag="P3:history-" + exp)
    # other entry points
    from qrcode.image.pure import PyPNGImage
    for _ in range(40 if tier == "thorough" else 12):
        n = rnd.choice([10, 2953, 2954, 5000])
        data = gens.payload(rnd, rnd.choice(["bytes", "zeros", "lower"]), n)
        l = rnd.randrange(4)
        fits = ask([f"spec.fits 40 {l} 4:{n}"])[0].split(" ")[1] == "1"
        for name, f in (("make_image", lambda q: q.make_image(image_factory=PyPNGImage)), ("get_matrix", lambda q: q.get_matrix()),
                        ("print_ascii", lambda q: q.print_ascii(out=__import__("io").StringIO()))):
            q = qrcode.QRCode(error_correction=l)
            q.add_data(data, optimize=0)
            try:
                f(q); out = "ok"
            except Exception as e:  # noqa
                out = err_name(e)
            exp = "ok" if fits else "DataOverflowError"
            R.oracle(f"{name} {l} {n} {sha(data)}", out == exp, dict(input=f"{name} level={l} {n} bytes", expected=exp, observed=out,
                                                                    data=data.hex()[:200]), tag="P3:entry-" + name)
        try:
            qrcode.make(data, error_correction=l, image_factory=PyPNGImage); out = "ok"
        except Exception as e:  # noqa
            out = err_name(e)
        exp = "ok" if fits else "DataOverflowError"
        R.oracle(f"qrcode.make {l} {n} {sha(data)}", out == exp, dict(input=f"qrcode.make level={l} {n} bytes", expected=exp, observed=out,
                                                                     data=data.hex()[:200]), tag="P3:entry-qrcode.make")
    log(f"done: {len(R.corr_failures)} disagreements, {len(R.violations)} violations")
    return R.out()
