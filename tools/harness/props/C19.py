"""C19 - independent QRCode objects are thread-safe under every interleaving."""
import ast, io, itertools, json, os, random, sys, threading
from ..core import *  # noqa
from .. import gens, sched
from .common import Res, generic_replay

replay = generic_replay
INVENTORY = os.path.join(VERIF, "corpus", "shared_state_inventory.json")


def shared_state_inventory():
    """module-level / class-level names bound to mutable containers or to stateful iterators, and `global` statements"""
    out = []
    root = os.path.join(REPO, "qrcode")
    for dp, dn, fn in os.walk(root):
        if "tests" in dp or "__pycache__" in dp:
            continue
        for f in sorted(fn):
            if not f.endswith(".py"):
                continue
            p = os.path.join(dp, f)
            rel = os.path.relpath(p, REPO)
            try:
                tree = ast.parse(open(p).read())
            except SyntaxError:
                out.append(rel + ":<unparsable>"); continue

            def mutable(v):
                if isinstance(v, (ast.List, ast.Dict, ast.Set, ast.ListComp, ast.DictComp, ast.SetComp)):
                    return True
                if isinstance(v, ast.Call):
                    fnn = v.func.id if isinstance(v.func, ast.Name) else (v.func.attr if isinstance(v.func, ast.Attribute) else "")
                    return fnn in ("dict", "list", "set", "defaultdict", "OrderedDict", "deque", "cycle", "count", "iter", "bytearray", "Counter", "Lock", "local")
                return False

            def scan(body, prefix):
                for n in body:
                    if isinstance(n, ast.Assign) and mutable(n.value):
                        for tg in n.targets:
                            if isinstance(tg, ast.Name):
                                out.append(f"{rel}:{prefix}{tg.id}")
                    elif isinstance(n, ast.AnnAssign) and n.value is not None and mutable(n.value) and isinstance(n.target, ast.Name):
                        out.append(f"{rel}:{prefix}{n.target.id}")
                    elif isinstance(n, ast.ClassDef):
                        scan(n.body, prefix + n.name + ".")
            scan(tree.body, "")
            for n in ast.walk(tree):
                if isinstance(n, ast.Global):
                    out.append(f"{rel}:global {','.join(n.names)}")
                if isinstance(n, ast.Call) and isinstance(n.func, ast.Attribute) and n.func.attr == "register_namespace":
                    # where is it called from? (module level = once at import; inside a function = per call)
                    pass
            for fn_ in [n for n in ast.walk(tree) if isinstance(n, (ast.FunctionDef, ast.AsyncFunctionDef))]:
                for n in ast.walk(fn_):
                    if isinstance(n, ast.Call) and isinstance(n.func, ast.Attribute) and n.func.attr == "register_namespace":
                        out.append(f"{rel}:{fn_.name}() calls register_namespace")
    return sorted(set(out))


def job_fn(job):
    """a job = list of steps executed by one thread on its own objects; returns canonical results"""
    def run():
        import qrcode
        from qrcode.image import svg as S
        from qrcode.image.pure import PyPNGImage
        res = []
        for (kind, v, mask, data) in job:
            kind, _, opt = kind.partition("@")
            q = qrcode.QRCode(version=v, mask_pattern=mask)
            q.add_data(data, optimize=int(opt or 0))
            if kind.startswith("text"):
                class _Out(io.StringIO):
                    n = 0

                    def isatty(self):
                        return True

                    def write(self, s):
                        _Out.n += 1
                        if sched.SchedDict.ctl is not None and _Out.n % 7 == 1:
                            sched.SchedDict.ctl.yield_point("call:stream.write")
                        return super().write(s)
                out = _Out()
                if kind == "text-tty":
                    q.print_tty(out=out)
                else:
                    q.print_ascii(out=out, invert=kind == "text-invert", tty=kind == "text-ascii-tty")
                res.append((kind, fmt_mat(q.modules), out.getvalue()))
            elif kind == "pil":
                from qrcode.image.pil import PilImage
                im = q.make_image(image_factory=PilImage, fill_color=("black", "red", (0, 0, 90))[v % 3], back_color=("white", "yellow", (250, 250, 250))[mask % 3 if mask else 0])
                buf = io.BytesIO(); im.save(buf)
                res.append((kind, fmt_mat(q.modules), buf.getvalue()))
            elif kind == "compile":
                q.make(fit=False); res.append(("m", fmt_mat(q.modules)))
            elif kind == "matrix":
                res.append(("g", fmt_mat(q.get_matrix())))
            else:
                base_kind, _, alias = kind.partition(":")
                F = {"svg-fragment": S.SvgFragmentImage, "svg": S.SvgImage, "svg-path": S.SvgPathImage, "png": PyPNGImage}[base_kind]
                kw = dict(module_drawer=alias) if alias else {}
                if alias:
                    q.box_size = 5 + (v % 3) * 3        # different box sizes per job: drawer state shared across images would show
                im = q.make_image(image_factory=F, **kw)
                buf = io.BytesIO(); im.save(buf)
                extra = im.to_string() if hasattr(im, "to_string") else b""
                res.append((kind, fmt_mat(q.modules), buf.getvalue(), extra))
        return res
    return run


def gen_job(rnd, nsteps):
    job = []
    for _ in range(nsteps):
        kind = rnd.choice(["compile", "compile", "matrix", "svg-fragment", "svg", "svg-path", "png", "svg:circle", "svg-path:gapped-square", "svg:gapped-circle",
                           "text", "text-invert", "text-ascii-tty", "text-tty", "pil", "compile", "matrix"])
        v = rnd.choice([1, 1, 2, 3, 7])
        mask = rnd.choice([None, 0, 3, 5]) if v <= 3 else rnd.choice([1, 6])
        data = gens.payload(rnd, rnd.choice(["lower", "digits"]), rnd.randrange(1, 9))
        if ":" not in kind and rnd.random() < 0.5:
            # the segmentation depends on the threshold: letters + a digit run + letters, thresholds 0 / 4 / 20
            data = gens.payload(rnd, "lower", rnd.randrange(1, 3)) + gens.payload(rnd, "digits", rnd.choice([4, 5, 6])) + gens.payload(rnd, "lower", rnd.randrange(0, 2))
            kind += "@" + str(rnd.choice([0, 4, 4, 20]))
        job.append((kind, v, mask, data))
    return job


def run(ctx):
    tier, seed, log = ctx["tier"], ctx["seed"], ctx["log"]
    rnd = random.Random(seed * 73 + 8)
    import qrcode, qrcode.main as M
    R = Res("k threads each compiling and rendering its own symbols (mixed versions, cold and warm caches), replayed on REAL threads "
            "under a deterministic scheduler that switches only at yield points (every access to precomputed_qr_blanks and to "
            "ElementTree's namespace registry, and the entry of every pattern/placement method): all interleavings of small "
            "2-thread cases, seeded random schedules for 2-4 threads; plus unscheduled stress runs (switch interval 1e-6) and a "
            "static inventory of process-wide mutable state. P2: the model's shared-access alphabet (contains/get/set on the blank "
            "cache only, nothing else shared) vs the accesses observed and vs the inventory; P3: per-thread modules and rendered "
            "bytes = those of the same jobs run alone. distinct = distinct (jobs, schedule)")
    # ---- static inventory
    inv = shared_state_inventory()
    try:
        base = json.load(open(INVENTORY))
    except Exception:
        base = None
    if base is not None:
        new = [x for x in inv if x not in base]
        R.corr("shared-state-inventory", "inventory", "ok" if not new else "new process-wide state: " + "; ".join(new), "ok", tag="P2:inventory",
               sample=dict(inventory=inv))
    # ---- directed search: process-wide state the baseline inventory does not know -> every line of every function that mentions it
    # becomes a yield point, and pairs of jobs with different parameters are run under "A pauses at each point while B runs completely"
    dense = set()
    for item in (new if base is not None else []):
        rel, _, what = item.partition(":")
        names = set(what.replace("global ", "").split(",")) if what.startswith("global ") else {what.split(".")[-1]}
        names = {n.strip() for n in names if n.strip()}
        for dp, dn, fn in os.walk(os.path.join(REPO, "qrcode")):
            if "tests" in dp or "__pycache__" in dp:
                continue
            for f in fn:
                if f.endswith(".py"):
                    p = os.path.join(dp, f)
                    try:
                        tree = ast.parse(open(p).read())
                    except SyntaxError:
                        continue
                    for fd in [n for n in ast.walk(tree) if isinstance(n, (ast.FunctionDef, ast.AsyncFunctionDef))]:
                        if any((isinstance(x, ast.Name) and x.id in names) or (isinstance(x, ast.Attribute) and x.attr in names) for x in ast.walk(fd)):
                            dense.add((os.path.realpath(p), fd.name)); dense.add((p, fd.name))
    # ---- scheduled runs
    cases = []
    if dense:
        log(f"new process-wide state: line-level yield points in {sorted({d[1] for d in dense})}")
        digits = lambda k: b"ab" + b"1234567"[:k] + b"c"
        for ka, kb in [("compile@4", "compile@2"), ("compile@6", "compile@4"), ("compile@0", "compile@4"), ("compile@4", "compile@4"), ("compile@2", "compile@2"), ("text-invert", "text"), ("text", "text-invert"),
                       ("text-ascii-tty", "text"), ("text-tty", "text-tty"), ("pil", "pil"), ("svg-path", "svg-path"), ("svg:circle", "svg:gapped-circle"), ("svg", "svg-fragment"),
                       ("png", "png"), ("matrix", "matrix"), ("compile", "svg-path"), ("text-invert", "text-invert")]:
            # "earlier in this process": the same operations with OTHER parameters (displaces one-entry memos, warms caches for other keys)
            for vs, warmjob in (((1, 1), [("compile@6", 2, 5, digits(7)), ("text", 2, 1, b"w")]), ((1, 2), [("compile@2", 1, 0, digits(5)), ("text-invert", 1, 0, b"w")])):
                cases.append(("dir", [[(ka, vs[0], 0, digits(5))], [(kb, vs[1], 3, digits(6))]], None, (), warmjob))
    # exhaustive interleavings of two one-step jobs (the yield-point count is small)
    for kinds in [("compile", "compile"), ("compile", "svg-fragment"), ("svg-fragment", "svg"), ("svg", "svg-path"), ("matrix", "compile"), ("svg:circle", "svg:circle")]:
        for vs in [(1, 1), (1, 2), (7, 7)]:
            ja = [(kinds[0], vs[0], 0, b"thread-A")]; jb = [(kinds[1], vs[1], 3, b"thread-B")]
            cases.append(("exh", [ja, jb], None, (), None))
    nrand = 400 if tier == "thorough" else 50
    for _ in range(nrand):
        k = rnd.choice([2, 2, 2, 3, 4])
        jobs = [gen_job(rnd, rnd.choice([1, 2, 2, 3])) for _ in range(k)]
        cases.append(("rand", jobs, [rnd.randrange(k) for _ in range(rnd.randrange(20, 400))], tuple(rnd.sample([1, 2, 3, 7], rnd.randrange(0, 3))), None))
    nsched = 0
    accesses_seen = set()
    with sched.Installed():
        for mode, jobs, schedule, warm, warmjob in cases:
            sched.Controller.tracer = sched.DenseTrace(dense) if (dense and mode == "dir") else None
            fns = [job_fn(j) for j in jobs]
            def prep():
                M.precomputed_qr_blanks.clear()
                sched.SchedDict.ctl = None
                for v in warm:
                    w = qrcode.QRCode(version=v); w.makeImpl(False, 0)
                if warmjob:
                    job_fn(warmjob)()       # the process did something else before (memo / cache entries for other parameters)
            # reference: each job alone (fresh cache state each)
            ref = []
            for f in fns:
                prep(); ref.append(("ok", f()))
            if mode in ("exh", "dir"):
                # count yield points of each thread when run alone
                counts = []
                for t, f in enumerate(fns):
                    prep()
                    c = sched.Controller([], 1); sched.SchedDict.ctl = c
                    c.run([f]); sched.SchedDict.ctl = None
                    counts.append(len(c.trace))
                base_sched = [0] * (counts[0] + 1) + [1] * (counts[1] + 1)
                perms = set()
                allp = list(set(itertools.permutations(base_sched))) if len(base_sched) <= 10 else None
                if mode == "dir":
                    # directed: "A runs `cut` steps, B runs completely, A finishes" (and the mirror image) for at most 24 cut points each
                    perms = set()
                    for a, b in ((0, 1), (1, 0)):
                        pts = list(range(0, counts[a] + 1))
                        if len(pts) > 24:
                            pts = sorted(set(rnd.sample(pts, 20) + pts[:4]))
                        for cut in pts:
                            perms.add(tuple([a] * cut + [b] * (counts[b] + 1) + [a] * (counts[a] + 1 - cut)))
                    schedules = list(perms)
                elif allp is None:
                    for _ in range(300 if tier == "thorough" else 8):
                        s = base_sched[:]; rnd.shuffle(s); perms.add(tuple(s))
                    # plus the "A pauses at every point while B runs completely" schedules (the classic window finder)
                    for cut in range(0, counts[0] + 1, 1 if tier == "thorough" else max(1, (counts[0] + 1) // 12)):
                        perms.add(tuple([0] * cut + [1] * (counts[1] + 1) + [0] * (counts[0] + 1 - cut)))
                        perms.add(tuple([1] * cut + [0] * (counts[0] + 1) + [1] * (counts[1] + 1 - cut)) if cut <= counts[1] else tuple(base_sched))
                    schedules = list(perms)
                else:
                    schedules = allp
            else:
                schedules = [schedule]
            for s in schedules:
                prep()
                c = sched.Controller(s, len(fns)); sched.SchedDict.ctl = c
                try:
                    results, steps = c.run(fns)
                finally:
                    sched.SchedDict.ctl = None
                nsched += 1
                for _, w in c.trace:
                    accesses_seen.add(w)
                key = f"{mode} jobs={[[(k, v, m, d.decode()) for k, v, m, d in j] for j in jobs]} warm={warm} schedule={list(s)[:60]}" + \
                    (f" earlier-in-process={[(k, v, m, d.decode()) for k, v, m, d in warmjob]}" if warmjob else "") + (f" line-level yields in {sorted({d[1] for d in dense})}" if dense else "")
                bad = [t for t in range(len(fns)) if results[t] != ref[t]]
                R.oracle(key, not bad, dict(input=key[:600], jobs=[[(k, v, m, d.decode()) for k, v, m, d in j] for j in jobs], warm=list(warm), schedule=list(s),
                                            expected="every thread obtains what it obtains when run alone",
                                            observed="; ".join(f"thread {t}: " + (results[t][1] if results[t][0] == "exc" else "results differ from the sequential run") for t in bad)[:400]),
                         tag="P3:" + mode + str(len(fns)), sample=dict(threads=len(fns), steps=steps) if nsched % 50 == 1 else None)
    sched.Controller.tracer = None
    log(f"{nsched} scheduled runs")
    # the model's alphabet of shared accesses
    allowed = {"blanks:contains", "blanks:get", "blanks:set", "ns:get", "ns:contains"}
    extra = sorted(a for a in accesses_seen if not a.startswith("call:") and a not in allowed)
    extra += sorted(a for a in accesses_seen if a == "call:register_namespace")
    R.corr("shared-access-alphabet", "alphabet", "ok" if not extra else "accesses outside the model: " + ", ".join(extra), "ok", tag="P2:alphabet",
           sample=sorted(accesses_seen))
    # ---- unscheduled stress
    old = sys.getswitchinterval()
    sys.setswitchinterval(1e-6)
    try:
        M.precomputed_qr_blanks.clear()
        jobs = [gen_job(rnd, 3) for _ in range(6)]
        fns = [job_fn(j) for j in jobs]
        ref = [f() for f in fns]
        iters = 60 if tier == "thorough" else 12
        bad = []
        for it in range(iters):
            M.precomputed_qr_blanks.clear()
            out = [None] * len(fns)
            def w(i):
                try:
                    out[i] = fns[i]()
                except Exception as e:  # noqa
                    out[i] = f"{type(e).__name__}: {e}"
            ths = [threading.Thread(target=w, args=(i,)) for i in range(len(fns))]
            [t.start() for t in ths]; [t.join() for t in ths]
            for i in range(len(fns)):
                if out[i] != ref[i]:
                    bad.append((it, i, out[i] if isinstance(out[i], str) else "results differ"))
        R.oracle(f"stress {iters}x6 threads seed {seed}", not bad, dict(input=f"unscheduled stress: 6 threads x 3 jobs x {iters} rounds, switch interval 1e-6",
                                                                       expected="sequential results", observed=str(bad[:3])), tag="P3:stress")
    finally:
        sys.setswitchinterval(old)
    log(f"done: {len(R.corr_failures)} disagreements, {len(R.violations)} violations")
    R.assumptions += ["single dict operations are atomic under the GIL; free-threaded builds are out of scope",
                      "the shared-state inventory (static scan, committed baseline corpus/shared_state_inventory.json) is complete",
                      "xml.etree (stdlib) is the ElementTree in use (no lxml in this environment)"]
    return R.out()
