"""Result accumulation shared by the property modules."""
from ..core import Counter


class Res:
    def __init__(self, rule):
        self.cnt = Counter()
        self.rule = rule
        self.violations = []
        self.corr_failures = []
        self.corr_ops = {}
        self.exhaustive = []
        self.assumptions = []
        self.unproved = []

    def corr(self, op, request, impl, model, nontrivial=True, tag=None, sample=None):
        """one correspondence comparison"""
        self.cnt.add(request, nontrivial=nontrivial, tag=tag, sample=sample)
        self.corr_ops[op] = self.corr_ops.get(op, 0) + 1
        if impl != model:
            if len(self.corr_failures) < 20:
                self.corr_failures.append(dict(op=op, input=request[:4000], implementation=impl[:2000], model=model[:2000]))
            return False
        return True

    def oracle(self, key, ok, viol=None, nontrivial=True, tag=None, sample=None):
        """one oracle (Spec predicate on implementation output) evaluation"""
        self.cnt.add(key, nontrivial=nontrivial, tag=tag, sample=sample)
        if not ok and len(self.violations) < 20:
            self.violations.append(viol or dict(input=key))
        return ok

    def out(self):
        return dict(evaluations=self.cnt.evaluations, distinct_nontrivial=self.cnt.distinct, rule=self.rule,
                    samples=self.cnt.samples, dist=self.cnt.dist, violations=self.violations,
                    corr_failures=self.corr_failures, corr_ops=self.corr_ops, exhaustive_domains=self.exhaustive,
                    assumptions=self.assumptions, unproved_clauses=self.unproved)


def generic_replay(rep, log):
    """re-execute a stored replay against the real code (and show the model/spec answer beside it)"""
    import json
    from .. import enc
    from ..core import ask, fmt_mat
    print(json.dumps({k: rep[k] for k in rep if k not in ("case",)}, indent=1, default=str)[:3000])
    if rep.get("kind") != "failing-input":
        print("replay: this file records a broken proof obligation / correspondence, not a failing input;")
        print("        re-run ./check to see whether it still breaks")
        return 0
    if "case" in rep:
        case = enc.case_from_repr(rep["case"])
        r = enc.run_case(case)
        print("implementation outcome:", r.get("outcome", r.get("setup_error"))[:2] if "outcome" in r else r.get("setup_error"))
        if "segs" in r:
            print("model:", ask([enc.compile_request(r)])[0][:200])
            if r["outcome"][0] == "ok":
                print("spec.read:", ask(["spec.read " + fmt_mat(r["outcome"][2])])[0][:300])
        return 1
    return 1
