"""Result accumulation shared by the property modules."""
from ..core import Counter


class Res:
    def __init__(self, rule):
        self.cnt = Counter()
        self.rule = rule
        self.violations = []
        self.corr_failures = []
        self.corr_ops = {}
        self.exhaustive = []
        self.assumptions = []
        self.unproved = []

    def corr(self, op, request, impl, model, nontrivial=True, tag=None, sample=None):
        """one correspondence comparison"""
        self.cnt.add(request, nontrivial=nontrivial, tag=tag, sample=sample)
        self.corr_ops[op] = self.corr_ops.get(op, 0) + 1
        if impl != model:
            if len(self.corr_failures) < 20:
                self.corr_failures.append(dict(op=op, input=request[:4000], implementation=impl[:2000], model=model[:2000]))
            return False
        return True

    def oracle(self, key, ok, viol=None, nontrivial=True, tag=None, sample=None):
        """one oracle (Spec predicate on implementation output) evaluation"""
        self.cnt.add(key, nontrivial=nontrivial, tag=tag, sample=sample)
        if not ok and len(self.violations) < 20:
            self.violations.append(viol or dict(input=key))
        return ok

    def out(self):
        return dict(evaluations=self.cnt.evaluations, distinct_nontrivial=self.cnt.distinct, rule=self.rule,
                    samples=self.cnt.samples, dist=self.cnt.dist, violations=self.violations,
                    corr_failures=self.corr_failures, corr_ops=self.corr_ops, exhaustive_domains=self.exhaustive,
                    assumptions=self.assumptions, unproved_clauses=self.unproved)


def generic_replay(rep, log):
    """re-execute a stored replay against the real code (and show the model/spec answer beside it)"""
    import json
    from .. import enc
    from ..core import ask, fmt_mat
    print(json.dumps({k: rep[k] for k in rep if k not in ("case",)}, indent=1, default=str)[:3000])
    if rep.get("kind") != "failing-input":
        print("replay: this file records a broken proof obligation / correspondence, not a failing input;")
        print("        re-run ./check to see whether it still breaks")
        return 0
    if "case" in rep:
        case = enc.case_from_repr(rep["case"])
        recs = enc.attach_model_and_spec([enc.run_case(case)])
        r = recs[0]
        print("implementation outcome:", (r["outcome"][:2] if "outcome" in r else r.get("setup_error")))
        if "segs" in r:
            print("model:", r.get("model", "")[:160])
            print("spec.read:", r.get("spec", "-")[:300])
        # the round-trip predicate (C01) on this single case, as a verdict for the replay
        from . import C01
        R = Res("replay")
        C01.check_records(R, recs)
        if R.violations or R.corr_failures:
            print("REPLAY: still failing:", (R.violations or R.corr_failures)[0].get("observed", R.corr_failures[0] if R.corr_failures else ""))
            return 1
        print("REPLAY: the implementation handles this input correctly now")
        return 0
    return 1
