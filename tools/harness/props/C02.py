"""C02 - every block is a codeword of the ISO Reed-Solomon code; Table 9."""
import random
from ..core import *  # noqa
from .. import enc, gens
from .common import Res, generic_replay

replay = generic_replay


class FakeBuffer:
    def __init__(self, buf):
        self.buffer = list(buf)


def block_contents(rnd, n, kind):
    if kind == "random":
        return [rnd.randrange(256) for _ in range(n)]
    if kind == "zeros":
        return [0] * n
    if kind == "zero-prefix":
        k = rnd.randrange(0, n + 1)
        return [0] * k + [rnd.randrange(1, 256) for _ in range(n - k)]
    if kind == "single":
        out = [0] * n
        if n:
            out[rnd.randrange(n)] = rnd.randrange(1, 256)
        return out
    if kind == "zero-suffix":
        k = rnd.randrange(0, n + 1)
        return [rnd.randrange(256) for _ in range(n - k)] + [0] * k
    if kind == "ff":
        return [255] * n
    raise ValueError(kind)


# ---- an independent little GF(256)/RS toolkit, used only to CONSTRUCT awkward inputs (remainders with leading zeros)
def _gf_tables():
    exp = [0] * 512; log = [0] * 256
    x = 1
    for i in range(255):
        exp[i] = x; log[x] = i
        x <<= 1
        if x & 0x100:
            x ^= 0x11D
    for i in range(255, 512):
        exp[i] = exp[i - 255]
    return exp, log


_EXP, _LOG = _gf_tables()


def _mul(a, b):
    return 0 if a == 0 or b == 0 else _EXP[_LOG[a] + _LOG[b]]


def _inv(a):
    return _EXP[255 - _LOG[a]]


def _gen(e):
    g = [1]
    for i in range(e):
        g = [a ^ b for a, b in zip(g + [0], [0] + [_mul(c, _EXP[i]) for c in g])]
    return g


def _ec(data, e):
    g = _gen(e)
    rem = list(data) + [0] * e
    for i in range(len(data)):
        c = rem[i]
        if c:
            for j in range(1, len(g)):
                rem[i + j] ^= _mul(g[j], c)
    return rem[len(data):]


def with_zero_led_remainder(rnd, n, e, k):
    """n data bytes whose RS remainder (e check bytes) starts with k zero bytes: solve for the last k data bytes (linear over GF(256))"""
    if n < k + 1:
        return None
    base = [rnd.randrange(256) for _ in range(n - k)] + [0] * k
    r0 = _ec(base, e)[:k]
    units = []
    for j in range(k):
        u = [0] * n; u[n - k + j] = 1
        units.append(_ec(u, e)[:k])
    # solve sum_j x_j * units[j][i] = r0[i]  (i < k)
    A = [[units[j][i] for j in range(k)] + [r0[i]] for i in range(k)]
    for col in range(k):
        piv = next((r for r in range(col, k) if A[r][col]), None)
        if piv is None:
            return None
        A[col], A[piv] = A[piv], A[col]
        iv = _inv(A[col][col])
        A[col] = [_mul(x, iv) for x in A[col]]
        for r in range(k):
            if r != col and A[r][col]:
                f = A[r][col]
                A[r] = [x ^ _mul(f, y) for x, y in zip(A[r], A[col])]
    sol = [A[i][k] for i in range(k)]
    out = base[:n - k] + sol
    assert _ec(out, e)[:k] == [0] * k
    return out


def run(ctx):
    tier, seed, log = ctx["tier"], ctx["seed"], ctx["log"]
    rnd = random.Random(seed * 101 + 7)
    from qrcode import util, base
    R = Res("P2: gexp/glog on every argument, rs_blocks on all 160 pairs, Polynomial % on random/structured operands, "
            "create_bytes on block contents {random, all-zero, zero prefix/suffix, single non-zero, 0xFF, remainders constructed to start with 1-3 zero codewords} for "
            "(version, level) pairs; P3: Spec de-interleaving + syndromes of every block of create_bytes output and of "
            "codewords read back from compiled symbols. distinct = distinct canonical requests")
    reqs, exps = [], []
    for n in range(-300, 800):
        reqs.append(f"gexp {n}"); exps.append(run_impl(lambda: str(base.gexp(n))))
    for n in range(0, 256):
        reqs.append(f"glog {n}"); exps.append(run_impl(lambda: str(base.glog(n))))
    for v in range(1, 41):
        for l in range(4):
            reqs.append(f"rsblocks {v} {l}")
            exps.append(run_impl(lambda: fmt_blocks((b.total_count, b.data_count) for b in base.rs_blocks(v, l))))
    R.exhaustive += ["gexp -300..799", "glog 0..255", "rs_blocks 40 x 4"]
    # Polynomial %
    from qrcode import LUT
    gens_ = list(LUT.rsPoly_LUT.values())
    for _ in range(3000 if tier == "thorough" else 600):
        g = rnd.choice(gens_) if rnd.random() < 0.8 else [rnd.randrange(1, 256) for _ in range(rnd.randrange(1, 8))]
        n = rnd.choice([0, 1, 2, len(g) - 1, len(g), len(g) + 1, 30, 60])
        a = block_contents(rnd, max(1, n), rnd.choice(["random", "zeros", "zero-prefix", "single", "zero-suffix"]))
        shift = rnd.choice([0, 0, len(g) - 1])
        aa = a + [0] * shift
        reqs.append(f"polymod {fmt_list(aa)} {fmt_list(g)}")
        exps.append(run_impl(lambda: fmt_list((base.Polynomial(aa, 0) % base.Polynomial(g, 0)).num)))
    # create_bytes
    pairs = [(v, l) for v in range(1, 41) for l in range(4)]
    if tier != "thorough":
        pairs = [(1, 1), (1, 2), (3, 3), (5, 3), (5, 2), (9, 0), (15, 3), (40, 2)] + rnd.sample(pairs, 24)
    cb = []
    for (v, l) in pairs:
        blocks = [(b.total_count, b.data_count) for b in base.rs_blocks(v, l)]
        nd = sum(d for _, d in blocks)
        kinds = ["random", "zeros", "zero-prefix", "single", "zero-suffix", "ff", "random"] if (tier == "thorough" or v <= 12) else ["random", "zeros", "zero-prefix"]
        for kind in kinds:
            buf = block_contents(rnd, nd, kind)
            if kind == "zero-prefix" and len(blocks) > 1:
                # make one whole inner block zero
                off = sum(d for _, d in blocks[:1])
                for i in range(off, off + blocks[1][1]):
                    buf[i] = 0
            def f():
                out = util.create_bytes(FakeBuffer(buf), base.rs_blocks(v, l))
                cb.append((v, l, buf, out))
                return fmt_list(out)
            reqs.append(f"createbytes {fmt_list(buf)} {fmt_blocks(blocks)}")
            e = run_impl(f)
            exps.append(e)
            if not e.startswith("ok"):
                R.oracle(reqs[-1], False, dict(input=f"create_bytes v={v} level={l} data={buf[:60]}...", expected="error-correction codewords for every data content",
                                               observed=e, version=v, level=l, data=buf), tag="P3:create_bytes-error")
    # blocks whose remainder starts with 1, 2, 3 zero codewords (each 2^-8k by chance): first block of several shapes
    for (v, l) in [(1, 1), (1, 2), (3, 1), (2, 0), (5, 3), (10, 2)] + ([(20, 1), (40, 2)] if tier == "thorough" else []):
        blocks = [(b.total_count, b.data_count) for b in base.rs_blocks(v, l)]
        nd = sum(d for _, d in blocks)
        t0, d0 = blocks[0]
        for k in (1, 2, 3):
            first = with_zero_led_remainder(rnd, d0, t0 - d0, k)
            if first is None:
                continue
            buf = first + [rnd.randrange(256) for _ in range(nd - d0)]
            def f():
                out = util.create_bytes(FakeBuffer(buf), base.rs_blocks(v, l))
                cb.append((v, l, buf, out))
                return fmt_list(out)
            reqs.append(f"createbytes {fmt_list(buf)} {fmt_blocks(blocks)}")
            exps.append(run_impl(f))
    got = ask_parallel(reqs, chunk=500)
    for rq, e, g in zip(reqs, exps, got):
        R.corr(rq.split(" ")[0], rq, e, g, tag="P2:" + rq.split(" ")[0], sample=rq[:80])
    log(f"P2 done: {len(reqs)} comparisons, {len(R.corr_failures)} disagreements")
    # P3 on create_bytes outputs
    sreq = [f"spec.checkblocks {v} {l} {fmt_list(out)}" for (v, l, buf, out) in cb]
    for (v, l, buf, out), rep in zip(cb, ask_parallel(sreq, chunk=100)):
        t = rep.split(" ")
        problems = []
        if t[0] != "ok":
            problems.append(rep)
        else:
            if t[1] != "-1":
                problems.append(f"block {t[1]} is not a codeword of the ISO RS code")
            if t[2] != "1":
                problems.append("wrong total number of codewords")
            if t[3] != fmt_list(buf):
                problems.append("de-interleaved data codewords differ from the input (block lengths/interleaving not Table 9)")
        R.oracle(f"cb {v} {l} {fmt_list(buf)}", not problems,
                 dict(input=f"create_bytes version={v} level={l}", data=buf, version=v, level=l, expected="ISO codeword blocks, Table 9 interleaving",
                      observed="; ".join(problems)), tag="P3:create_bytes", sample=dict(version=v, level=l, data=buf[:12]))
    # P3 on compiled symbols (codewords read back in placement order by the Spec reader)
    cases = []
    for _ in range(600 if tier == "thorough" else 150):
        v = rnd.randrange(1, 41) if tier == "thorough" else rnd.choice([1, 2, 3, 4, 5, 6, 7, 8, 9, 10, 12, 15, 20])
        kind = rnd.choice(["zeros", "bytes", "ff", "mixed", "zeros"])
        caps = (4 * v + 17) ** 2 // 8
        n = rnd.randrange(0, max(2, caps // 3))
        cases.append(dict(version=v, level=rnd.randrange(4), mask=rnd.randrange(8), fit=True, calls=[(gens.payload(rnd, kind, n), 0)], tag="sym-" + kind))
    recs = enc.run_cases(cases, jobs=8 if tier == "thorough" else 2)
    enc.attach_model_and_spec(recs, want_model=False)
    for r in recs:
        key = enc.compile_request(r)
        if r["outcome"][0] != "ok":
            ok = r["outcome"][1] == "DataOverflowError"
            R.oracle(key, ok, dict(input=key[:300], case=enc.case_repr(r["case"]), expected="a symbol (or DataOverflowError)", observed=r["outcome"][1]), tag="P3:symbol-error")
            continue
        ok = r["spec"].startswith("ok")
        R.oracle(key, ok, dict(input=key[:300], case=enc.case_repr(r["case"]), expected="every block read back from the symbol is an RS codeword",
                               observed=r["spec"][:100]), tag="P3:" + r["case"]["tag"])
    log(f"P3 done: {len(R.violations)} violations")
    R.assumptions.append("minimum distance e+1 and unique decoding within floor(e/2) are proved (C02_distance, C02_unique_decoding); "
                      "an actual decoder is not part of the library")
    return R.out()
