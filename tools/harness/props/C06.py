"""C06 - the data codewords form a conformant ISO bit stream."""
import random
from ..core import *  # noqa
from .. import enc, gens
from .common import Res, generic_replay

replay = generic_replay


def impl_databits(v, l, segs):
    """create_data up to (not including) create_bytes: the buffer bytes"""
    from qrcode import util
    orig = util.create_bytes
    util.create_bytes = lambda buffer, rs_blocks: list(buffer.buffer)
    try:
        dl = [util.QRData(d, mode=m, check_data=False) for m, d in segs]
        return fmt_list(util.create_data(v, l, dl))
    finally:
        util.create_bytes = orig


def fill_cases(rnd, caps, pairs):
    """segment lists whose stream length lands 0..14 bits below (or just above) the capacity"""
    out = []
    for (v, l) in pairs:
        capbits = caps[(4, v, l)] * 8 + (4 + (8 if v < 10 else 16))   # data capacity in bits (cap bytes*8 + header of a byte segment, rounded down)
        for nb_delta in (-3, -2, -1, 0):
            nb = caps[(4, v, l)] + nb_delta
            if nb < 0:
                continue
            for extra in ([], [(1, 1)], [(1, 2)], [(1, 3)], [(2, 1)], [(2, 2)], [(1, 4)], [(2, 3)], [(4, 1)]):
                segs = [(4, gens.payload(rnd, rnd.choice(["bytes", "zeros", "lower"]), nb))] if nb or not extra else []
                for (m, n) in extra:
                    segs.append((m, gens.mode_payload(rnd, m, n, 0)))
                rnd.shuffle(segs)
                out.append((v, l, segs))
        # the same bytes under each mode in turn (anything keyed by the bytes alone would show)
        d = gens.payload(rnd, "digits", rnd.choice([1, 5, 12]))
        for m in (1, 2, 4, 2, 1):
            out.append((v, l, [(m, d)]))
        out.append((v, l, [(4, d), (1, d)])); out.append((v, l, [(1, d), (4, d)]))
        # sparse symbols: many pad codewords, both parities
        for n in (0, 1, 2, 3):
            out.append((v, l, [(rnd.choice([1, 2, 4]), gens.mode_payload(rnd, 1, n, 0))] if n else []))
    return out


def run(ctx):
    tier, seed, log = ctx["tier"], ctx["seed"], ctx["log"]
    rnd = random.Random(seed * 13 + 9)
    R = Res("P2: create_data up to create_bytes (buffer bytes) vs Model.dataBits for segment lists landing 0..14 bits below / just "
            "above the capacity of (version, level) pairs in all three classes, sparse symbols (pad parity), random multi-segment "
            "lists; P3: Spec stream recogniser (headers, count widths, group bounds, terminator, bit padding, pad alternation) "
            "on those codewords and on data codewords de-interleaved from compiled symbols. distinct = distinct canonical requests")
    caps = gens.capacities()
    allpairs = [(v, l) for v in range(1, 41) for l in range(4)]
    pairs = allpairs if tier == "thorough" else [(1, 0), (1, 2), (9, 1), (10, 1), (26, 0), (27, 3), (40, 1)] + rnd.sample(allpairs, 12)
    fc = fill_cases(rnd, caps, pairs)
    for _ in range(1500 if tier == "thorough" else 300):
        v = rnd.randrange(1, 41); l = rnd.randrange(4)
        segs = []
        for _ in range(rnd.randrange(0, 5)):
            m = rnd.choice([1, 2, 4])
            segs.append((m, gens.mode_payload(rnd, m, rnd.choice([0, 1, 2, 3, 4, 5, 6, 7, 10, 50, rnd.randrange(0, 300)]), rnd.randrange(4))))
        fc.append((v, l, segs))
    reqs, exps = [], []
    for (v, l, segs) in fc:
        reqs.append(f"databits {v} {l} {fmt_segs(segs)}")
        exps.append(run_impl(lambda: impl_databits(v, l, segs)))
    got = ask_parallel(reqs, chunk=300)
    sreq, smeta = [], []
    for (v, l, segs), rq, e, g in zip(fc, reqs, exps, got):
        R.corr("databits", rq, e, g, tag="P2:databits", sample=rq[:80])
        if e.startswith("ok "):
            sreq.append(f"spec.stream {v} {e[3:]}"); smeta.append((v, l, segs, e[3:]))
    log(f"P2 done: {len(reqs)} comparisons, {len(R.corr_failures)} disagreements")
    for (v, l, segs, cw), rep in zip(smeta, ask_parallel(sreq, chunk=300)):
        problems = []
        t = rep.split(" ")
        ncw = 0 if cw == "-" else cw.count(",") + 1
        if ncw != caps[(4, v, l)] + (2 if v < 10 else 3):
            problems.append(f"{ncw} data codewords, expected {caps[(4, v, l)] + (2 if v < 10 else 3)}")
        if t[0] != "ok":
            problems.append("not an ISO bit stream: " + rep[:60])
        else:
            if t[1] != "1":
                problems.append("terminator / bit padding / pad codewords not conformant")
            if t[2] != fmt_segs(segs):
                problems.append("parsed segments differ from the data list")
        used = sum(4 + 0 for _ in segs)
        R.oracle(f"stream {v} {l} {fmt_segs(segs)}", not problems,
                 dict(input=f"create_data version={v} level={l} segments={fmt_segs(segs)[:200]}", version=v, level=l,
                      segs=[[m, d.hex()] for m, d in segs], expected="conformant ISO stream that parses back to the segments",
                      observed="; ".join(problems)), tag="P3:stream-class%d" % (0 if v < 10 else 1 if v < 27 else 2),
                 sample=dict(version=v, level=l, segs=fmt_segs(segs)[:60]))
    # compiled symbols: the reader's conformance flag
    cases = gens.random_cases(rnd, 500 if tier == "thorough" else 120, max_len=200)
    recs = enc.run_cases(cases, jobs=8 if tier == "thorough" else 2)
    enc.attach_model_and_spec(recs, want_model=False)
    for r in recs:
        if r.get("outcome", ("err",))[0] != "ok":
            continue
        key = enc.compile_request(r)
        sp = enc.parse_spec_read(r["spec"])
        ok = sp is not None and sp["conformant"] and sp["segs"] == r["segs"]
        R.oracle(key, ok, dict(input=key[:300], case=enc.case_repr(r["case"]), expected="conformant stream read back from the symbol (remainder bits zero)",
                               observed=r["spec"][:100]), tag="P3:symbol")
    log(f"P3 done: {len(R.violations)} violations")
    return R.out()
