"""C16 - get_matrix frames the symbol with exactly `border` light modules."""
import random
from ..core import *  # noqa
from .. import enc, gens
from .common import Res, generic_replay

replay = generic_replay


def bm(rows):
    return "/".join("".join("1" if c else "0" for c in row) for row in rows) if rows else "-"


def run(ctx):
    tier, seed, log = ctx["tier"], ctx["seed"], ctx["log"]
    rnd = random.Random(seed * 41 + 3)
    import qrcode
    from qrcode import util
    R = Res("get_matrix on symbols of versions 1..N x borders 0..8 in one process (fresh objects, objects compiled before, "
            "objects with data added after a compile, border changed between calls); P2: Model.getMatrix on the object's modules; "
            "P3: Spec.frame (pointwise definition) and centre = modules of a fresh object with the same data. "
            "distinct = distinct (history kind, version, border, payload)")
    reqs, exps, sreq, sexp, metas = [], [], [], [], []
    versions = list(range(1, 11)) + [14, 20, 27, 40] if tier == "thorough" else [1, 2, 3, 4, 5, 7, 10]
    borders = list(range(0, 9)) + [13]
    combos = [(v, b, hist) for v in versions for b in borders for hist in ("fresh", "made", "add-after-make", "border-changed", "ctor-border")]
    combos += [(40, 5, "fresh"), (40, 13, "made"), (39, 7, "fresh"), (36, 13, "fresh"), (1, 90, "fresh")]      # widest frames
    for (v, b, hist) in combos:
        if True:
            if True:
                if tier != "thorough" and v > 5 and hist not in ("fresh", "add-after-make") and b % 3:
                    continue
                data = gens.payload(rnd, rnd.choice(["lower", "digits", "bytes"]), rnd.randrange(1, 8))
                extra = gens.payload(rnd, "lower", rnd.randrange(1, 30))
                q = qrcode.QRCode(version=v, border=b if hist == "ctor-border" else 4, mask_pattern=rnd.randrange(8))
                q.add_data(data, optimize=0)
                payload = data
                calls = [data]
                if hist == "made":
                    q.make()
                elif hist == "add-after-make":
                    q.make(); q.add_data(util.QRData(extra) if len(extra) % 2 else extra, optimize=0); payload = data + extra; calls.append(extra)
                elif hist == "border-changed":
                    q.border = (b + 2) % 7; q.get_matrix()
                q.border = b
                try:
                    G = q.get_matrix()
                except Exception as e:  # noqa
                    R.oracle(f"{hist} {v} {b}", False, dict(input=f"{hist} version={v} border={b}", expected="a matrix", observed=err_name(e)))
                    continue
                # a fresh object with the same data and settings
                f = qrcode.QRCode(version=v, border=0, mask_pattern=q.mask_pattern)
                [f.add_data(d, optimize=0) for d in calls]; f.make()
                M = [list(map(bool, row)) for row in f.modules]
                key = f"{hist} {v} {b} {payload.hex()}"
                reqs.append(f"getmatrix {b} {bm([list(map(bool, r)) for r in q.modules])}"); exps.append("ok " + bm(G))
                sreq.append(f"spec.frame {len(M)} {b} {bm(M)}"); sexp.append("ok " + bm(G))
                metas.append((key, hist, v, b, payload, f.version))
    got = ask_parallel(reqs + sreq, chunk=100)
    for rq, e, g, meta in zip(reqs, exps, got[:len(reqs)], metas):
        R.corr("getmatrix", meta[0], e, g, tag="P2:" + meta[1])
    for e, g, meta in zip(sexp, got[len(reqs):], metas):
        key, hist, v, b, payload, fv = meta
        ok = e == g
        n = 4 * fv + 17
        R.oracle(key, ok, dict(input=f"get_matrix: history={hist} version={v} border={b} payload={payload!r}", history=hist, version=v, border=b,
                               payload=payload.hex(), expected=f"{n + 2*b} x {n + 2*b} matrix: symbol of a fresh object framed by {b} light modules",
                               observed=f"{len(e[3:].split('/'))} rows; differs from the Spec frame"),
                 tag="P3:" + hist, sample=dict(history=hist, version=v, border=b))
    log(f"done: {len(R.corr_failures)} disagreements, {len(R.violations)} violations")
    return R.out()
