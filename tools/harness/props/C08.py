"""C08 - the penalty score equals the ISO rules for every matrix."""
import random, itertools
from ..core import *  # noqa
from .. import enc, gens
from .common import Res, generic_replay

replay = generic_replay


def bm(rows):
    return "/".join("".join("1" if c else "0" for c in row) for row in rows)


def lines_matrices(k):
    """all 2^k lines of length k, packed as rows of k x k matrices"""
    allv = list(range(1 << k))
    out = []
    for i in range(0, len(allv), k):
        chunk = allv[i:i + k]
        while len(chunk) < k:
            chunk.append(0)
        out.append([[bool((x >> (k - 1 - j)) & 1) for j in range(k)] for x in chunk])
    return out


def structured(rnd, n):
    kind = rnd.choice(["random", "dense", "sparse", "stripes", "checker", "finderish", "blocks", "near50", "near45", "near55", "near40"])
    if kind == "random":
        return [[rnd.random() < 0.5 for _ in range(n)] for _ in range(n)]
    if kind == "dense":
        return [[rnd.random() < 0.9 for _ in range(n)] for _ in range(n)]
    if kind == "sparse":
        return [[rnd.random() < 0.1 for _ in range(n)] for _ in range(n)]
    if kind == "stripes":
        p = rnd.choice([1, 2, 3, 5]); horiz = rnd.random() < 0.5
        return [[((r if horiz else c) // p) % 2 == 0 for c in range(n)] for r in range(n)]
    if kind == "checker":
        p = rnd.choice([1, 2, 3])
        return [[((r // p) + (c // p)) % 2 == 0 for c in range(n)] for r in range(n)]
    if kind == "finderish":
        pat = [True, False, True, True, True, False, True, False, False, False, False]
        gap = rnd.choice([0, 1, 2, 3, 4, 5])
        line = []
        while len(line) < n:
            line += (pat if rnd.random() < 0.5 else pat[::-1]) + [False] * gap + ([True] if rnd.random() < 0.3 else [])
        M = [[rnd.random() < 0.5 for _ in range(n)] for _ in range(n)]
        for _ in range(rnd.randrange(1, 6)):
            i = rnd.randrange(n); off = rnd.randrange(0, 12)
            seg = (line[off:] + line)[:n]
            if rnd.random() < 0.5:
                M[i] = list(seg)
            else:
                for r in range(n):
                    M[r][i] = seg[r]
        return M
    if kind == "blocks":
        M = [[False] * n for _ in range(n)]
        for _ in range(rnd.randrange(1, 12)):
            r0, c0 = rnd.randrange(n), rnd.randrange(n); h, w = rnd.randrange(1, 9), rnd.randrange(1, 9); col = rnd.random() < 0.7
            for r in range(r0, min(n, r0 + h)):
                for c in range(c0, min(n, c0 + w)):
                    M[r][c] = col
        return M
    target = {"near50": 0.5, "near45": 0.45, "near55": 0.55, "near40": 0.40}[kind]
    total = n * n
    d = int(total * target) + rnd.choice([-2, -1, 0, 1, 2])
    cells = [True] * d + [False] * (total - d)
    rnd.shuffle(cells)
    return [cells[i * n:(i + 1) * n] for i in range(n)]


def run(ctx):
    tier, seed, log = ctx["tier"], ctx["seed"], ctx["log"]
    rnd = random.Random(seed * 23 + 4)
    from qrcode import util
    R = Res("P2: util.lost_point and _lost_point_level1..4 vs the Model scanners on: all lines of length <= K as rows of KxK "
            "matrices (rules 1, 3), all pairs of rows of width <= 8 (rule 2), all 4x4 matrices, random 5x5..12x12, random and "
            "structured matrices at QR sizes; rule 4 float formula vs integer formula on every (QR size, dark count); "
            "P3: Spec.penalty (plain ISO counts) = util.lost_point on the same matrices. distinct = distinct matrices/requests")
    mats = []
    K = 16 if tier == "thorough" else 13
    for k in range(1, K + 1):
        mats += [("lines%d" % k, m) for m in lines_matrices(k)]
    R.exhaustive.append(f"all lines of length 1..{K} as matrix rows (rules 1 and 3 row scanners)")
    # all row pairs of width w<=8 as rows 0,1 of a w x w matrix (remaining rows random)
    W = 8 if tier == "thorough" else 6
    for w in range(2, W + 1):
        for a in range(1 << w):
            for b in range(1 << w):
                if tier != "thorough" and w == W and (a * 31 + b + seed) % 4:
                    continue
                rows = [[bool((x >> (w - 1 - j)) & 1) for j in range(w)] for x in (a, b)]
                rows += [[rnd.random() < 0.5 for _ in range(w)] for _ in range(w - 2)]
                mats.append(("strip%d" % w, rows))
    R.exhaustive.append(f"all pairs of adjacent rows of width 2..{W - (0 if tier == 'thorough' else 1)} (rule 2 skipping)")
    for x in range(1 << 16):
        if tier != "thorough" and (x + seed) % 8:
            continue
        mats.append(("4x4", [[bool((x >> (4 * r + c)) & 1) for c in range(4)] for r in range(4)]))
    if tier == "thorough":
        R.exhaustive.append("all 65 536 4x4 matrices")
    for _ in range(40000 if tier == "thorough" else 4000):
        n = rnd.randrange(5, 13)
        mats.append(("small", structured(rnd, n)))
    for _ in range(1500 if tier == "thorough" else 150):
        n = 4 * rnd.choice([1, 1, 2, 2, 3, 4, 5, 7, 10, 14, 20, 27, 40] if tier == "thorough" else [1, 1, 2, 2, 3, 4, 5, 7, 10]) + 17
        mats.append(("qr%d" % n, structured(rnd, n)))
    log(f"{len(mats)} matrices")
    reqs, exps, tags = [], [], []
    for tag, M in mats:
        s = bm(M)
        n = len(M)
        full = tag.startswith(("qr", "small", "4x4"))
        for op, f in (("lostpoint", lambda: util.lost_point(M)), ("lp1", lambda: util._lost_point_level1(M, n)),
                      ("lp2", lambda: util._lost_point_level2(M, n)), ("lp3", lambda: util._lost_point_level3(M, n))):
            if op == "lostpoint" or not full or tier == "thorough":
                if (tag.startswith("lines") and op == "lp2") or (tag.startswith("strip") and op in ("lp1", "lp3")):
                    continue
                reqs.append(f"{op} {s}"); exps.append(run_impl(lambda: str(f()))); tags.append(tag)
        reqs.append(f"spec.penalty {s}"); exps.append(exps[-1] if reqs[-2].startswith("lostpoint") else run_impl(lambda: str(util.lost_point(M)))); tags.append("spec:" + tag)
    got = ask_parallel(reqs, chunk=3000)
    for rq, e, g, tag in zip(reqs, exps, got, tags):
        if rq.startswith("spec."):
            R.oracle(rq, e == g, dict(input="util.lost_point on matrix " + rq[13:400], matrix=rq[13:], expected="ISO penalty " + g, observed="lost_point " + e),
                     tag="P3:" + tag[5:].rstrip("0123456789"), sample=rq[13:80])
        else:
            R.corr(rq.split(" ")[0], rq, e, g, tag="P2:" + tag.rstrip("0123456789"))
    log(f"matrices done: {len(R.corr_failures)} disagreements, {len(R.violations)} violations")
    # rule 4: float formula vs integer formula, every QR size x dark count
    reqs, exps = [], []
    sizes = [4 * v + 17 for v in range(1, 41)]
    for n in sizes:
        step = 1 if (tier == "thorough" or n <= 61) else 1
        for d in range(0, n * n + 1, step):
            reqs.append(f"lp4n {n} {d}")
            exps.append("ok " + str(util._lost_point_level4([[d]], n)))
    got = ask_parallel(reqs, chunk=40000)
    bad = 0
    for rq, e, g in zip(reqs, exps, got):
        if e != g:
            bad += 1
            R.corr("lp4n", rq, e, g)
    R.cnt.evaluations += len(reqs); R.corr_ops["lp4n"] = len(reqs)
    for rq in reqs[::997]:
        R.cnt.seen.add(rq.encode())
    R.exhaustive.append("rule 4 on every (QR size, dark count): %d pairs (float formula of the code = integer formula of the model)" % len(reqs))
    log(f"rule 4: {len(reqs)} pairs, {bad} disagreements")
    R.assumptions.append("rule 4 float/integer tie is exhaustive for the 40 QR sizes only; other sizes by generated matrices")
    return R.out()
