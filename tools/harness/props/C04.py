"""C04 - format and version information, both copies, all 1 280 configurations."""
import random
from ..core import *  # noqa
from .. import enc, gens
from .common import Res, generic_replay

replay = generic_replay


def impl_typeinfo(v, l, test, mask):
    import qrcode
    q = qrcode.QRCode(version=v, error_correction=l)
    n = v * 4 + 17
    q.modules_count = n
    q.modules = [[None] * n for _ in range(n)]
    q.setup_type_info(bool(test), mask)
    if v >= 7:
        q.setup_type_number(bool(test))
    return fmt_mat(q.modules)


def run(ctx):
    tier, seed, log = ctx["tier"], ctx["seed"], ctx["log"]
    rnd = random.Random(seed * 11 + 1)
    import qrcode
    from qrcode import util
    R = Res("P2 exhaustive: BCH_type_info on 0..31, BCH_type_number on 0..63, the format/version/dark modules written by "
            "setup_type_info + setup_type_number for all 40 x 4 x 8 x {test, final}; P3: Spec format word at the ISO positions "
            "(both copies), version words, dark module on complete implementation symbols for all 1 280 (version, level, mask) "
            "plus automatic-mask symbols read by the strict Spec reader. distinct = distinct canonical requests")
    reqs, exps = [], []
    for d in range(32):
        reqs.append(f"bch15 {d}"); exps.append(run_impl(lambda: str(util.BCH_type_info(d))))
    for d in range(64):
        reqs.append(f"bch18 {d}"); exps.append(run_impl(lambda: str(util.BCH_type_number(d))))
    for v in range(1, 41):
        for l in range(4):
            for m in range(8):
                for t in (0, 1):
                    reqs.append(f"typeinfo {v} {l} {t} {m}"); exps.append(run_impl(lambda: impl_typeinfo(v, l, t, m)))
    R.exhaustive += ["BCH_type_info 0..31", "BCH_type_number 0..63", "format/version/dark modules 40 x 4 x 8 x {test, final}"]
    got = ask_parallel(reqs, chunk=300)
    for rq, e, g in zip(reqs, exps, got):
        R.corr(rq.split(" ")[0], rq, e, g, tag="P2:" + rq.split(" ")[0], sample=rq)
    log(f"P2 done: {len(reqs)} comparisons, {len(R.corr_failures)} disagreements")
    # P3: complete symbols, all 1280 configurations (small payload so that versions are forced, fit off)
    import qrcode.main as M
    sreq, meta = [], []
    combos = [(v, l, m) for v in range(1, 41) for l in range(4) for m in range(8)]
    # half of the grid runs on ONE long-lived object re-configured by attribute assignment (shuffled order), the other
    # half on fresh objects: "every symbol" includes symbols compiled by an object that compiled something else before
    rnd.shuffle(combos)
    reused = qrcode.QRCode()
    reused.add_data(b"C04", optimize=0)
    prev = None
    for k, (v, l, m) in enumerate(combos):
        hist = None
        if k % 2 == 0:
            q = reused
            hist = dict(previous_configuration=prev, note="same object: make() under the previous configuration, then assign version/error_correction/mask_pattern and make(fit=False) again")
            prev = dict(version=v, level=l, mask=m)
            if rnd.random() < 0.1:
                q.clear(); q.add_data(bytes([rnd.randrange(256)]) * rnd.randrange(0, 8), optimize=0)
            q.version = v; q.error_correction = l; q.mask_pattern = m
        else:
            q = qrcode.QRCode(version=v, error_correction=l, mask_pattern=m)
            q.add_data(bytes([rnd.randrange(256)]) * rnd.randrange(0, 8), optimize=0)
        try:
            q.make(fit=False)
            sreq.append(f"spec.fmtcheck {v} {l} {m} {fmt_mat([[bool(c) for c in row] for row in q.modules])}")
            meta.append((v, l, m, None, hist))
        except Exception as e:  # noqa
            meta.append((v, l, m, err_name(e), hist))
            sreq.append("spec.format 0")
    R.exhaustive.append("complete symbols for all 1 280 (version, level, mask): both format copies, version words, dark module")
    for (v, l, m, err, hist), rep in zip(meta, ask_parallel(sreq, chunk=80)):
        key = f"fmtcheck {v} {l} {m}"
        if err:
            R.oracle(key, False, dict(input=key, expected="a symbol", observed=err, version=v, level=l, mask=m))
            continue
        t = rep.split(" ")
        names = ["format copy 1 (top-left)", "format copy 2 (split)", "version information", "dark module"]
        bad = [names[i] for i in range(4) if t[1 + i] != "1"]
        R.oracle(key, not bad, dict(input=f"version={v} level={l} mask={m} (forced, fit off; even grid positions run on one re-configured object)", version=v, level=l, mask=m,
                                    expected="ISO BCH words at the ISO positions", observed="wrong: " + ", ".join(bad), history=hist),
                 tag=f"P3:grid", sample=dict(version=v, level=l, mask=m))
    # automatic mask + varied data: reader must agree with itself (format mask = mask applied)
    cases = [dict(version=rnd.choice([None, None, 7, 8, 12, 20, 33]), level=rnd.randrange(4), mask=None, fit=True,
                  calls=[(gens.payload(rnd, rnd.choice(gens.KINDS), rnd.randrange(120)), 20)], tag="auto")
             for _ in range(120 if tier == "thorough" else 40)]
    # streams that make the fit cross a character-count class (the fitted version is decided in a second pass)
    cc = [c for c in gens.class_crossing_cases(rnd, gens.capacities()) if c["tag"] == "class-cross-hi" and c["fit"]]
    cases += cc if tier == "thorough" else rnd.sample(cc, 48)
    # an earlier compile of the same object that failed (fitting off, version too small), then these settings
    for c in cases[::4]:
        c["prehistory"] = dict(version=rnd.choice([1, 2]), level=rnd.choice([2, 3]), mask=rnd.choice([None, None, 2]), fit=False,
                               data=gens.payload(rnd, "lower", rnd.randrange(60, 90)), clear=rnd.random() < 0.6)
    recs = enc.run_cases(cases)
    enc.attach_model_and_spec(recs, want_model=False)
    for r in recs:
        if r.get("outcome", ("err",))[0] != "ok":
            continue
        key = enc.compile_request(r)
        sp = enc.parse_spec_read(r["spec"])
        ok = sp is not None and sp["level"] == r["case"]["level"] and sp["version"] == r["outcome"][1]
        R.oracle(key, ok, dict(input=key[:300], case=enc.case_repr(r["case"]), expected="format/version information consistent with the symbol",
                               observed=r["spec"][:100]), tag="P3:auto-mask")
    log(f"P3 done: {len(R.violations)} violations")
    return R.out()
