"""C11 - a compile depends only on current data and settings, never on history."""
import itertools, random
from ..core import *  # noqa
from .. import objrun, gens
from .common import Res, generic_replay

PA = "104,101,108,108,111"          # "hello"
PB = "49,50,51,52,53,54,55,56,57,48,65,66,67"   # "1234567890ABC"
ALPHABET = [f"add~{PA}~0", f"add~{PB}~4", "clear", "make~1", "make~0", "setv~1", "setv~2", "setl~2", "setm~-", "getm",
            "mut~8~8~1", "img", "ascii", f"other~2~1~-~1~4:{PA}",
            "addseg~1:52,50,49,57", "addseg~2:52,50,49,57",      # the same bytes as a numeric and as an alphanumeric segment
            "addsame"]                                           # the same QRData object once more
SHORTCUTS = []      # filled in run(): qrcode.make(<60 bytes>), qrcode.make("hi") - a larger symbol before a smaller one


def fresh_outcome(snap, fit):
    """what a fresh object with the same settings and data produces, in a cold process-wide cache"""
    import qrcode, qrcode.main as M
    from qrcode import util
    saved = dict(M.precomputed_qr_blanks)
    M.precomputed_qr_blanks.clear()
    try:
        v, l, m, segs = snap
        f = qrcode.QRCode(version=v, error_correction=l, mask_pattern=m)
        for mode, d in segs:
            f.add_data(util.QRData(d, mode=mode, check_data=False))
        try:
            f.make(fit=fit)
            return ("ok", f.version, f.modules)
        except Exception as e:  # noqa
            return ("err", err_name(e))
    finally:
        M.precomputed_qr_blanks.clear()
        M.precomputed_qr_blanks.update(saved)


PRISTINE = None
_SEEN = []      # what this (worker) process ran before: part of the replay, since process-wide state is what C11 is about


def _work(item):
    import_impl()
    ctor, ops, warm = item
    viol = []

    def probe(snap, fit, res, pos):
        # the reference: a fresh object in a process that never produced a symbol (pristine server), falling back to a
        # fresh object in this process with the blank cache emptied
        if PRISTINE is not None:
            fr = PRISTINE.ask(snap[0], snap[1], snap[2], snap[3], fit)
        else:
            fr = fresh_outcome(snap, fit)
        same = (res[0] == fr[0]) and (res[1:] == fr[1:] if res[0] == "err" else (res[1] == fr[1] and res[2] == fr[2]))
        if not same:
            viol.append(dict(position=pos, settings=dict(version=snap[0], level=snap[1], mask=snap[2]),
                             observed=res[:2] if res[0] == "ok" else res, fresh=fr[:2] if fr[0] == "ok" else fr,
                             earlier_in_this_process=[dict(ctor=list(c), ops=o, warm=list(w)) for c, o, w in _SEEN[-80:]]))
    out = objrun.run_history(ctor, ops, warm, probe=probe)
    _SEEN.append((ctor, ops, warm))
    return out, viol


def replay(rep, log):
    import json
    print(json.dumps(rep, indent=1, default=str)[:3000])
    if rep.get("kind") == "failing-input" and "history" in rep:
        h = rep["history"]
        from .. import pristine
        global PRISTINE
        PRISTINE = pristine.Pristine()
        for e in rep.get("earlier_in_this_process", []):          # re-create the process history first
            _work((tuple(e["ctor"]), e["ops"], tuple(e.get("warm", ()))))
        out, viol = _work((tuple(h["ctor"]), h["ops"], tuple(h.get("warm", ()))))
        PRISTINE.close(); PRISTINE = None
        print("implementation:", out)
        print("model:         ", ask([objrun.request(tuple(h["ctor"]), h["ops"], tuple(h.get("warm", ())))])[0])
        print("compiles that differ from a fresh object:", viol)
        return 1 if viol else 0
    return 0


def run(ctx):
    tier, seed, log = ctx["tier"], ctx["seed"], ctx["log"]
    rnd = random.Random(seed * 59 + 7)
    R = Res("operation histories on one QRCode object (+ other objects of the process): every sequence up to depth D over a "
            "16-operation alphabet (add_data x2, the same bytes as numeric / alphanumeric segment, clear, make fit on/off, "
            "version/level/mask assignment, get_matrix, caller mutation of modules, make_image, print_ascii, another object compiling) from two constructors, cold and warm "
            "process-wide cache, plus seeded random histories of length <= 40 with varied payloads/versions/masks. "
            "P2: Model.step state machine vs the real object on every output and the final state (hashes of matrices); "
            "P3: after every make() in a history - and after every rendering call that directly follows a make() that raised (an "
            "implicit compile) -, modules / version / error = those of a fresh object with the same settings "
            "and data in a FRESH PROCESS (pristine fork server: no symbol was ever produced there). distinct = distinct histories")
    import_impl()
    big, small = objrun.shortcut_op(b"shortcut payload that needs a larger symbol than version 1 .."), objrun.shortcut_op(b"hi")
    items = []
    # the module-level shortcut in every order, alone and around operations on the object
    for seq in ([big, small], [small, big, small], [big, "make~1", small, "make~1"], [f"add~{PA}~0", big, "make~1", small, "getm"], [big, big, small, small]):
        for ctor in [(1, 0, 10, 4, 3), (None, 1, 10, 0, None)]:
            items.append((ctor, list(seq), ()))
    # a compile that FAILS after one that succeeded on the same object (a payload that fits version 40 at the first level and
    # not at the level assigned afterwards), followed by every operation that compiles implicitly: nothing of the earlier
    # symbol may be served. Levels: 1 = L, 0 = M, 3 = Q, 2 = H; byte capacities of version 40: 2953 / 2331 / 1663 / 1273.
    def blob(n, kind):
        return ",".join(str(b) for b in gens.payload(rnd, kind, n))
    for (l0, l1, n, kind, opt) in [(1, 2, 1300, "lower", 0), (0, 2, 1280, "bytes", 0), (1, 3, 1700, "lower", 20), (3, 2, 3100, "digits", 0),
                                   (1, 0, 2400, "bytes", 0)][: 5 if tier == "thorough" else 3]:
        for tail in (["getm"], ["img"], ["tty"], ["make~0", "getm"], ["make~1", "getm"], [f"setl~{l0}", "getm"]):
            for first in ("make~1", "getm"):
                for ctor_v in (None, 7):
                    if tier != "thorough" and (len(items) + seed) % 3:
                        continue
                    items.append(((ctor_v, l0, 10, 0, rnd.choice([None, 2])), [f"add~{blob(n, kind)}~{opt}", first, f"setl~{l1}", "make~1"] + tail, ()))
    D = 4 if tier == "thorough" else 3
    ctors = [(1, 0, 10, 4, 3), (None, 1, 10, 0, None)]
    for d in range(1, D + 1):
        for seq in itertools.product(ALPHABET, repeat=d):
            for ci, ctor in enumerate(ctors):
                if d == D and ci == 1 and tier != "thorough" and (hash(seq) + seed) % 4:
                    continue
                if d == D and tier == "thorough" and ci == 1 and (hash(seq) + seed) % 3:
                    continue
                items.append((ctor, list(seq), () if (len(items) % 5) else (1, 2)))
    R.exhaustive.append(f"every operation sequence up to depth {D} over the 16-operation alphabet (constructor 1; constructor 2 sampled at the last depth)")
    nrand = 6000 if tier == "thorough" else 800
    pay = lambda: ",".join(str(b) for b in gens.payload(rnd, rnd.choice(["lower", "digits", "alnum", "bytes", "zeros"]), rnd.choice([1, 3, 8, 14, 17, 20, 40, 60])))
    for _ in range(nrand):
        n = rnd.randrange(4, 41) if rnd.random() < 0.3 else rnd.randrange(4, 12)
        ops = []
        for _ in range(n):
            r = rnd.random()
            if r < 0.18:
                ops.append(f"add~{pay()}~{rnd.choice([0, 4, 20])}")
            elif r < 0.21:
                ops.append(f"addseg~{rnd.choice([1, 2, 4])}:{','.join(str(b) for b in gens.mode_payload(rnd, 1, rnd.randrange(1, 9), 0))}")
            elif r < 0.22:
                ops.append(rnd.choice(["addsame", "addsame", big, small]))
            elif r < 0.27:
                ops.append("clear")
            elif r < 0.45:
                ops.append(f"make~{rnd.randrange(2)}")
            elif r < 0.55:
                ops.append(f"setv~{rnd.choice(['-', 1, 1, 2, 3, 4, 5, 6, 7, 9, 10, 0, 41])}")
            elif r < 0.62:
                ops.append(f"setl~{rnd.randrange(4)}")
            elif r < 0.70:
                ops.append(f"setm~{rnd.choice(['-', '-', 0, 1, 2, 3, 4, 5, 6, 7, 8, -1])}")
            elif r < 0.74:
                ops.append(f"setb~{rnd.choice([0, 1, 4, -1])}")
            elif r < 0.77:
                ops.append(f"setbox~{rnd.choice([1, 10, 0, -2])}")
            elif r < 0.84:
                ops.append("getm")
            elif r < 0.90:
                ops.append(f"mut~{rnd.randrange(25)}~{rnd.randrange(25)}~{rnd.randrange(2)}")
            elif r < 0.93:
                ops.append("img")
            elif r < 0.96:
                ops.append(rnd.choice(["ascii", "tty"]))
            else:
                ops.append(f"other~{rnd.choice([0, 1, 2, 3, 7])}~{rnd.randrange(4)}~{rnd.choice(['-', 0, 5])}~{rnd.randrange(2)}~4:{pay()}")
        ctor = (rnd.choice([None, None, 1, 2, 3, 5, 7]), rnd.randrange(4), 10, rnd.choice([0, 4]), rnd.choice([None, None, 0, 3, 6]))
        items.append((ctor, ops, tuple(rnd.sample(range(1, 8), rnd.randrange(0, 3)))))
    log(f"{len(items)} histories")
    import multiprocessing as mp
    from .. import pristine
    global PRISTINE
    PRISTINE = pristine.Pristine()       # forked before this process or any worker compiles anything
    try:
        with mp.get_context("fork").Pool(14 if tier == "thorough" else 8) as pool:
            res = pool.map(_work, items, chunksize=50)
    finally:
        PRISTINE.close(); PRISTINE = None
    log("implementation done")
    got = ask_parallel([objrun.request(c, o, w) for c, o, w in items], chunk=300)
    for (ctor, ops, warm), (out, viol), g in zip(items, res, got):
        key = objrun.request(ctor, ops, warm)
        R.corr("history", key, out, g, tag="P2:len%d" % min(len(ops), 9), sample=key[:120] if len(ops) > 3 else None)
        nm = sum(1 for o in ops if o.startswith("make"))
        R.oracle("P3 " + key, not viol, dict(input=key[:400], history=dict(ctor=list(ctor), ops=ops, warm=list(warm)),
                                             expected="every make() equals a fresh object with the same settings and data in a fresh process",
                                             observed=str([{k: v for k, v in x.items() if k != "earlier_in_this_process"} for x in viol[:2]]),
                                             earlier_in_this_process=(viol[0].get("earlier_in_this_process") if viol else None)),
                 nontrivial=nm > 0, tag="P3:makes%d" % min(nm, 5))
    log(f"done: {len(R.corr_failures)} disagreements, {len(R.violations)} violations")
    R.assumptions += ["caller mutation is modelled as writes into qr.modules (covers the border-0 alias returned by get_matrix)",
                      "error_correction is assigned integers 0..3 only (it is an unvalidated plain attribute)"]
    return R.out()
