"""C20 - the manual-page release hook rewrites only version and date of the .TH line."""
import os, random, shutil, tempfile, importlib.util, datetime
from ..core import *  # noqa
from .common import Res, generic_replay

replay = generic_replay


def hx(s):
    return s.encode("utf-8").hex() or "-"


class Scratch:
    """a scratch copy of release.py with its own doc/qr.1 (release.py locates the page relative to its own file)"""

    def __init__(self):
        self.dir = tempfile.mkdtemp(prefix="c20-")
        os.makedirs(os.path.join(self.dir, "qrcode")); os.makedirs(os.path.join(self.dir, "doc"))
        shutil.copy(os.path.join(REPO, "qrcode", "release.py"), os.path.join(self.dir, "qrcode", "release.py"))
        spec = importlib.util.spec_from_file_location("c20_release", os.path.join(self.dir, "qrcode", "release.py"))
        self.mod = importlib.util.module_from_spec(spec); spec.loader.exec_module(self.mod)
        self.page = os.path.join(self.dir, "doc", "qr.1")

    def run(self, name, version, text):
        """returns (written?, text after)"""
        with open(self.page, "w", newline="") as f:
            f.write(text)
        os.utime(self.page, (1, 1))
        before = os.stat(self.page)
        self.mod.update_manpage({"name": name, "new_version": version})
        after = os.stat(self.page)
        with open(self.page, newline="") as f:
            out = f.read()
        written = after.st_mtime_ns != before.st_mtime_ns or after.st_ino != before.st_ino
        return written, out

    def close(self):
        shutil.rmtree(self.dir, ignore_errors=True)


def gen_line(rnd, kind=None):
    kind = kind or rnd.choice(["th-good", "th-good", "th-1field", "th-0field", "th-odd", "th-tab", "text", "text-quotes", "sh", "empty", "th-lower", "th-nospace", "th-many"])
    f = lambda: rnd.choice(["", " ", "1 Feb 2020", "6.1", "7.4.2", "x y", "@@", "User Commands", "Python QR tool", "a'b", "  "])
    g = lambda: rnd.choice([" ", " ", "  ", "\t", "", " 1 ", " x y ", "\\ "])      # what stands between two quoted fields
    if kind == "th-good":
        return f'.TH {rnd.choice(["QR 1 ", "", chr(34) + "QR" + chr(34) + " 1 ", "QR  "])}"{f()}"{g()}"{f()}"{g()}"{f()}"{rnd.choice(["", " ", " tail"])}'
    if kind == "th-many":
        return f'.TH QR 1 "{f()}"{g()}"{f()}"{g()}"{f()}" "{f()}" trailing "{f()}"'
    if kind == "th-1field":
        return f'.TH QR 1 "{f()}" no more'
    if kind == "th-0field":
        return ".TH QR 1 nothing quoted"
    if kind == "th-odd":
        return f'.TH QR 1 "{f()}" "{f()}" "unterminated'
    if kind == "th-tab":
        return f'.TH\tQR 1 "{f()}" "{f()}"'
    if kind == "th-lower":
        return f'.th QR 1 "{f()}" "{f()}"'
    if kind == "th-nospace":
        return f'.THX "{f()}" "{f()}"'
    if kind == "text":
        return rnd.choice(["qr \\- script to create QR codes", ".SH NAME", "\\fB\\-\\-help\\fR", "plain text", "  indented"])
    if kind == "text-quotes":
        return f'say "{f()}" and "{f()}" then "{f()}"'
    if kind == "sh":
        return ".SH " + rnd.choice(["NAME", "SYNOPSIS", '"SEE ALSO"'])
    return ""


def run(ctx):
    tier, seed, log = ctx["tier"], ctx["seed"], ctx["log"]
    rnd = random.Random(seed * 47 + 5)
    R = Res("update_manpage run on a scratch copy of release.py with its own doc/qr.1: pages from a line grammar (0..k lines, "
            ".TH lines with 0..5 quoted fields, empty/space fields, equal date and version fields, decoy .TH lines before and after, "
            "unterminated quotes, missing final newline) + the shipped doc/qr.1, x package names x versions, and a second "
            "application. P2: Model.updateManpage (written? + text); P3: Spec.expectedManpage (quote-position definition) and "
            "idempotence. distinct = distinct (name, version, page)")
    sc = Scratch()
    try:
        date = datetime.datetime.now().strftime("%-d %b %Y")
        shipped = open(os.path.join(REPO, "doc", "qr.1")).read()
        pages = [shipped, shipped.rstrip("\n"), "", "\n", '.TH QR 1 "1 Jan 2000" "1.0" "x"', '.TH QR 1 "@@" "@@" "Python QR tool"\n',
                 '.TH QR 1 " " " " " "\nrest\n', '.TH "only one"\n.TH QR 1 "d" "v" "t"\n.TH QR 1 "d2" "v2"\n',
                 '.TH QR 1 "d" "7.0" "t"\n.TH QR 1 "d2" "v2" "t2"\n']
        for _ in range(3000 if tier == "thorough" else 500):
            k = rnd.choice([0, 1, 1, 2, 3, 4, 6, 10])
            lines = [gen_line(rnd) for _ in range(k)]
            text = "\n".join(lines) + ("\n" if (lines and rnd.random() < 0.8) else "")
            pages.append(text)
        items = []
        for text in pages:
            for _ in range(2):
                name = rnd.choice(["qrcode", "qrcode", "qrcode", "other", "Qrcode", ""])
                ver = rnd.choice(["7.0", "6.1", "7.4.2", "@@", " ", "", "1.0", "v2", "8.0.dev0", "x y", "d",
                                  # characters that mean something to re / str.format / roff but nothing to the property
                                  "\\fB8.0\\fR", "8.0\\1", "a\\\\b", "\\g<0>", "8.0\\-rc1", "\\n", "{0}", "%s", "$1", "&", "8.0\\"])
                items.append((name, ver, text))
        reqs, exps, sreq = [], [], []
        second = []
        for name, ver, text in items:
            written, out = sc.run(name, ver, text)
            e = "ok some " + hx(out) if written else "ok none"
            if not written and out != text:
                e = "ok corrupted-without-write"
            reqs.append(f"manpage {hx(name)} {hx(ver)} {hx(date)} {hx(text)}"); exps.append(e)
            sreq.append(f"spec.manpage {hx(name)} {hx(ver)} {hx(date)} {hx(text)}")
            if written:
                w2, out2 = sc.run(name, ver, out)
                second.append((name, ver, text, out, w2, out2))
        got = ask_parallel(reqs + sreq, chunk=400)
        for (name, ver, text), rq, e, g, sp in zip(items, reqs, exps, got[:len(reqs)], got[len(reqs):]):
            key = f"{name!r} {ver!r} {sha(text)}"
            R.corr("manpage", key, e, g, tag="P2:manpage")
            ok = e == sp
            R.oracle(key, ok, dict(input=f"update_manpage(name={name!r}, new_version={ver!r}) on page {text[:300]!r}", name=name, version=ver, page=text,
                                   expected="nothing written" if sp == "ok none" else "only the first two quoted fields of the first well-formed .TH line replaced",
                                   observed="nothing written" if e == "ok none" else "wrote a different page: " + (bytes.fromhex(e[8:]).decode()[:200] if e.startswith("ok some ") and e[8:] != "-" else e)),
                     tag="P3:" + ("write" if sp != "ok none" else "noop"), sample=dict(name=name, version=ver, page=text[:60]))
        for name, ver, text, out, w2, out2 in second:
            key = f"twice {name!r} {ver!r} {sha(text)}"
            R.oracle(key, (not w2) and out2 == out, dict(input=f"second update_manpage(name={name!r}, new_version={ver!r}) on page {text[:300]!r}", name=name, version=ver, page=text,
                                                          expected="second application writes nothing", observed="second application rewrote the page"), tag="P3:idempotent")
    finally:
        sc.close()
    log(f"done: {len(R.corr_failures)} disagreements, {len(R.violations)} violations")
    R.assumptions += ["the date is strftime('%-d %b %Y') of the run's clock, passed to the model as a parameter (no quotes/newlines)",
                      "pages are LF-terminated ASCII (no CR): universal-newline translation is not modelled"]
    return R.out()
