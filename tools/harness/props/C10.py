"""C10 - segmentation is lossless, valid, most compact, honours optimize."""
import random, itertools
from ..core import *  # noqa
from .. import enc, gens
from .common import Res, generic_replay

replay = generic_replay


def impl_adddata(d, n):
    import qrcode
    q = qrcode.QRCode()
    q.add_data(d, optimize=n)
    return fmt_segs((s.mode, s.data) for s in q.data_list)


def run(ctx):
    tier, seed, log = ctx["tier"], ctx["seed"], ctx["log"]
    rnd = random.Random(seed * 37 + 6)
    from qrcode import util
    R = Res("P2: add_data / optimal_mode / QRData(mode, check_data) vs the Model on ALL byte strings of length <= L over "
            "{'7','A',':','a',',','\\n',0xC3} x thresholds 0..5, each of the 256 byte values alone and inside runs, and random "
            "mixes of digit / alphanumeric / other runs with lengths n-1, n, n+1; P3: the clauses of the property "
            "(Spec.segmentation: lossless, valid modes, n=0 one most-compact segment, long runs carried, minimum length) on "
            "the implementation's data_list. distinct = distinct (data, threshold) pairs")
    items = []   # (bytes, n)
    alphabet = [ord("7"), ord("A"), ord(":"), ord("a"), ord(","), 10, 0xC3]
    L = 6 if tier == "thorough" else 5
    for k in range(0, L + 1):
        for t in itertools.product(alphabet, repeat=k):
            for n in range(0, 6):
                if tier != "thorough" and k == L and (hash(t) + n + seed) % 3:
                    continue
                items.append((bytes(t), n))
    R.exhaustive.append(f"all strings of length <= {L - (0 if tier == 'thorough' else 1)} over 7 class representatives x thresholds 0..5")
    for c in range(256):
        for n in (0, 1, 2, 3):
            items.append((bytes([c]), n))
            items.append((b"12" + bytes([c]) + b"34", n))
            items.append((b"AB" + bytes([c]) + b"CD" + bytes([c]) * 2, n))
    R.exhaustive.append("each of the 256 byte values alone and inside digit / alphanumeric runs")
    for _ in range(6000 if tier == "thorough" else 1500):
        n = rnd.choice([1, 2, 3, 4, 5, 8, 20, 20, 21])
        out = b""
        for _ in range(rnd.randrange(1, 7)):
            kind = rnd.choice(["digits", "alnum", "alpha-nodigit", "lower", "bytes", "nl"])
            ln = max(0, n + rnd.choice([-2, -1, 0, 1, 2, 5]))
            out += b"\n" if kind == "nl" else gens.payload(rnd, kind, ln)
        items.append((out, n))
        if rnd.random() < 0.2:
            items.append((out[:n], n)); items.append((out[:n + 1], n)); items.append((out[:max(0, n - 1)] + b"\n", n))
    reqs, exps = [], []
    for d, n in items:
        reqs.append(f"adddata {fmt_list(d)} {n}"); exps.append(run_impl(lambda: impl_adddata(d, n)))
    # explicit modes
    exp_items = []
    for d, _ in items[::7]:
        for m in (1, 2, 4, None):
            for chk in (0, 1):
                exp_items.append((d, m, chk))
    for d, m, chk in exp_items:
        reqs.append(f"qrdata {fmt_list(d)} {'-' if m is None else m} {chk}")
        exps.append(run_impl(lambda: (lambda q: f"{q.mode}:{fmt_list(q.data)}")(util.QRData(d, mode=m, check_data=bool(chk)))))
    got = ask_parallel(reqs, chunk=5000)
    for rq, e, g in zip(reqs, exps, got):
        R.corr(rq.split(" ")[0], rq, e, g, tag="P2:" + rq.split(" ")[0])
    log(f"P2 done: {len(reqs)} comparisons, {len(R.corr_failures)} disagreements")
    # P3
    sreq = []
    meta = []
    for (d, n), e in zip(items, exps):
        if not e.startswith("ok "):
            R.oracle(f"add {fmt_list(d)} {n}", False, dict(input=f"add_data({d!r}, optimize={n})", expected="segments", observed=e))
            continue
        sreq.append(f"spec.segmentation {n} {fmt_list(d)} {e[3:]}"); meta.append((d, n, e[3:]))
    names = ["lossless", "valid modes", "threshold 0: one most-compact segment", "long runs carried in their mode", "minimum segment length"]
    for (d, n, segs), rep in zip(meta, ask_parallel(sreq, chunk=5000)):
        t = rep.split(" ")
        bad = [rep] if t[0] != "ok" else [names[i] for i in range(5) if t[1 + i] != "1"]
        R.oracle(f"seg {n} {fmt_list(d)}", not bad, dict(input=f"add_data({d!r}, optimize={n})", data=d.hex(), optimize=n, segments=segs,
                                                         expected="all clauses of the property", observed="violated: " + ", ".join(bad)),
                 tag="P3:n=%s" % (n if n < 6 else "big"), sample=dict(data=repr(d)[:40], optimize=n, segments=segs[:60]))
    # explicit mode rejection (a requested mode that cannot represent the data is rejected)
    for (d, m, chk), e in zip(exp_items, exps[len(items):]):
        if m is None or not chk:
            continue
        can = {1: all(48 <= c <= 57 for c in d), 2: all(c in gens.ALN for c in d), 4: True}[m]
        # the property only demands rejection of a mode that CANNOT represent the data (QRData(b'', mode=NUMBER) is
        # rejected by the code although representable: not covered by the statement, so not flagged)
        ok = (e == "err ValueError") if not can else True
        R.oracle(f"explicit {m} {fmt_list(d)}", ok, dict(input=f"QRData({d!r}, mode={m})", expected="ValueError" if not can else "accepted", observed=e),
                 tag="P3:explicit")
    # text arguments: the segments of add_data(text) are those of its UTF-8 bytes (Unicode digits / letters are not ASCII digits / the 45 set)
    treq, tmeta = [], []
    for tx in gens.TEXTS:
        bts = tx.encode("utf-8")
        for n in (0, 4, 20):
            treq.append(f"adddata {fmt_list(bts)} {n}"); tmeta.append((tx, n, run_impl(lambda: impl_adddata(tx, n))))
    for (tx, n, e), g in zip(tmeta, ask_parallel(treq, chunk=5000)):
        R.oracle(f"text {n} {tx!r}", e == g, dict(input=f"add_data({tx!r}, optimize={n})", expected="the segments of its UTF-8 bytes: " + g[:120], observed=e[:200]), tag="P3:text")
        for m in (1, 2):
            bts = tx.encode("utf-8")
            can = {1: all(48 <= c <= 57 for c in bts), 2: all(c in gens.ALN for c in bts)}[m] and len(bts) > 0
            e2 = run_impl(lambda: (lambda q: f"{q.mode}:{fmt_list(q.data)}")(util.QRData(tx, mode=m)))
            if not can and len(bts) > 0:
                R.oracle(f"text explicit {m} {tx!r}", e2 == "err ValueError", dict(input=f"QRData({tx!r}, mode={m})", expected="ValueError", observed=e2), tag="P3:text-explicit")
    log(f"P3 done: {len(R.violations)} violations")
    R.assumptions += ["re semantics of the four patterns (leftmost-longest runs, ^...$ before a final newline) as stated in Model/Segment.lean",
                      "negative thresholds are outside the statement (n >= 0)"]
    return R.out()
