"""C18 - out-of-range settings are rejected, in-range settings accepted."""
import io, random
from ..core import *  # noqa
from .. import objrun
from .common import Res, generic_replay

replay = generic_replay
PA = "104,105"


def expected_ctor(version, box, border, mask):
    if box <= 0 or border < 0:
        return "ValueError"
    if version is not None and not (1 <= version <= 40):
        return "ValueError"
    if mask is not None and not (0 <= mask <= 7):
        return "ValueError"
    return None


def run(ctx):
    tier, seed, log = ctx["tier"], ctx["seed"], ctx["log"]
    rnd = random.Random(seed * 61 + 9)
    import qrcode
    from qrcode.image.pure import PyPNGImage
    R = Res("P2 exhaustive: constructor with every version in -3..44 / None, mask -3..11 / None, border -3..6, box_size -3..6, and "
            "assignment of each followed by every producing operation (make, get_matrix, make_image, print_ascii), as histories "
            "through the state-machine model; P3: exception class and acceptance per the property, and the settings visible "
            "whenever something was produced; big integers and representative non-integers (str, float, bool, None). "
            "distinct = distinct histories / calls")
    items = []
    base = (None, 0, 10, 4, None)
    for v in [None] + list(range(-3, 45)):
        items.append(((v, 0, 10, 4, None), [f"add~{PA}~0", "make~1", "getm"]))
    for m in [None] + list(range(-3, 12)):
        items.append(((1, 0, 10, 4, m), [f"add~{PA}~0", "make~0", "getm"]))
    for b in range(-3, 7):
        items.append(((1, 0, 10, b, 0), [f"add~{PA}~0", "getm", "img"]))
    for x in range(-3, 7):
        items.append(((1, 0, x, 4, 0), [f"add~{PA}~0", "img"]))
    prod = ["make~1", "make~0", "getm", "img", "ascii", "tty"]
    for p in prod:
        for pre in ([], ["make~1"]):          # assignment before the first compile / after the object was compiled
            for v in ["-"] + list(range(-3, 45)):
                items.append(((2, 0, 10, 4, 1), [f"add~{PA}~0"] + pre + [f"setv~{v}", p]))
            for m in ["-"] + list(range(-3, 12)):
                items.append(((2, 0, 10, 4, 1), [f"add~{PA}~0"] + pre + [f"setm~{m}", p]))
            for b in range(-3, 7):
                items.append(((2, 0, 10, 4, 1), [f"add~{PA}~0"] + pre + [f"setb~{b}", p]))
            for x in range(-3, 7):
                items.append(((2, 0, 10, 4, 1), [f"add~{PA}~0"] + pre + [f"setbox~{x}", p, "img"]))
    R.exhaustive.append("version -3..44, mask -3..11, border -3..6, box_size -3..6 at construction and by assignment (before and after "
                        "a compile) x every producing operation")
    outs = [objrun.run_history(c, o) for c, o in items]
    got = ask_parallel([objrun.request(c, o) for c, o in items], chunk=400)
    def settings_view(h):
        # C18 is about which settings are accepted and under which settings anything is produced - not about the bits of the
        # symbol (C01/C05/C09): the content hashes of matrices / images / texts and of the final module matrix are dropped,
        # their presence, kind, sizes, border and box size are kept
        import re as _re
        h = _re.sub(r"\b(m:\d+):\d+", r"\1", h)
        h = _re.sub(r"\b(i:-?\d+:-?\d+:-?\d+):\d+", r"\1", h)
        h = _re.sub(r"\b(t:-?\d+):\d+", r"\1", h)
        return _re.sub(r"(S:(?:[^: ]*:){9})[^: ]*", r"\1", h)
    for (ctor, ops), e, g in zip(items, outs, got):
        key = objrun.request(ctor, ops)
        R.corr("history", key, settings_view(e), settings_view(g), tag="P2:" + ("ctor" if len(ops) == 3 and ops[-1] in ("getm", "img") else "assign"))
        # P3: the property's own predicate on the implementation's behaviour
        problems = []
        version, _, box, border, mask = ctor
        exp = expected_ctor(version, box, border, mask)
        if e.startswith("ctor-err"):
            if exp is None:
                problems.append(f"in-range constructor arguments rejected ({e})")
            elif e != "ctor-err " + exp:
                problems.append(f"constructor raised {e[9:]}, expected {exp}")
        else:
            if exp is not None:
                problems.append("out-of-range constructor argument accepted")
            t = e.split(" ")
            res = t[1].split("|")
            st = t[2].split(":")
            cur = dict(version=version or 0, mask=mask, border=border, box=box)
            for op, o in zip(ops, res):
                k = op.split("~")
                if k[0] in ("setv", "setm", "setb", "setbox"):
                    val = None if k[1] == "-" else int(k[1])
                    rng = {"setv": (1, 40), "setm": (0, 7), "setb": (0, 10 ** 9), "setbox": (-10 ** 9, 10 ** 9)}[k[0]]
                    inr = val is None or rng[0] <= val <= rng[1]
                    if k[0] == "setb" and val is None:
                        inr = False
                    if inr and o != "u":
                        problems.append(f"in-range assignment {op} rejected ({o})")
                    if not inr and o != "e:ValueError":
                        problems.append(f"out-of-range assignment {op} gave {o}, expected ValueError")
                    if o == "u":
                        cur[{"setv": "version", "setm": "mask", "setb": "border", "setbox": "box"}[k[0]]] = val if k[0] != "setv" else (val or 0)
                elif k[0] in ("make", "getm", "img", "ascii", "tty"):
                    produced = o[0] in "umit" and not o.startswith("e:")
                    if produced:
                        if not (cur["version"] == 0 or 1 <= cur["version"] <= 40) or not (cur["mask"] is None or 0 <= cur["mask"] <= 7) or cur["border"] < 0:
                            problems.append(f"{op} produced output under out-of-range settings {cur}")
                        if k[0] == "img" and cur["box"] <= 0:
                            problems.append(f"image produced with box_size {cur['box']}")
                    if k[0] == "img" and cur["box"] <= 0 and o != "e:ValueError":
                        problems.append(f"make_image with box_size {cur['box']} gave {o}, expected ValueError")
            # the settings actually held by the implementation object at the end (not only the accepted assignments)
            try:
                fin_v, fin_m, fin_b = int(st[1]), st[3], int(st[4])
                last = res[-1] if res else ""
                if last and last[0] in "mit" and not last.startswith("e:"):
                    if fin_b < 0 or not (0 <= fin_v <= 40) or (fin_m != "-" and not (0 <= int(fin_m) <= 7)):
                        problems.append(f"output produced while the object holds version={fin_v} mask={fin_m} border={fin_b}")
            except Exception:
                pass
        R.oracle("P3 " + key, not problems, dict(input=key, history=dict(ctor=list(ctor), ops=ops), expected="rejection of out-of-range / acceptance of in-range settings",
                                                 observed="; ".join(problems)), tag="P3:grid", sample=key[:80])
    # big integers and non-integers (P3 only: the value after int() decides; non-int masks are TypeError)
    def attempt(f):
        try:
            f(); return None
        except Exception as ex:  # noqa
            return err_name(ex)
    probes = []
    for val, vexp, mexp, bexp, xexp in [
        (10 ** 20, "ValueError", "ValueError", None, None), (-10 ** 20, "ValueError", "ValueError", "ValueError", "ValueError"),
        ("7", None, "TypeError", None, None), ("0", "ValueError", "TypeError", None, "ValueError"), ("x", "ValueError", "TypeError", "ValueError", "ValueError"),
        (2.5, None, "TypeError", None, None), (41.9, "ValueError", "TypeError", None, None), (0.5, "ValueError", "TypeError", None, "ValueError"),
        (-1.5, "ValueError", "TypeError", "ValueError", "ValueError"), (True, None, None, None, None), (None, None, None, "TypeError", "TypeError")]:
        for where in ("ctor", "assign"):
            for name, exp in (("version", vexp), ("mask_pattern", mexp), ("border", bexp), ("box_size", xexp)):
                def f():
                    if where == "ctor":
                        q = qrcode.QRCode(**{name: val})
                    else:
                        q = qrcode.QRCode(); setattr(q, name, val)
                    q.add_data("x"); q.make_image(image_factory=PyPNGImage)
                if isinstance(val, int) and abs(val) > 10 ** 6 and name in ("border", "box_size") and exp is None:
                    continue      # an astronomically large (in-range) border/box size cannot be rendered: resource limit, not a setting check
                got_ = attempt(f)
                if name == "box_size" and where == "assign" and exp is None and not isinstance(val, int):
                    continue      # a non-integer box size by assignment reaches the image factory unconverted: outside the integer statement
                ok = got_ == exp
                if exp == "TypeError" and val is None:
                    ok = got_ in ("TypeError", "ValueError")
                R.oracle(f"nonint {where} {name} {val!r}", ok, dict(input=f"{name}={val!r} ({where}) then make_image", expected=str(exp), observed=str(got_)), tag="P3:non-integer")
    # non-integers that COMPARE EQUAL to an in-range integer (3.0 == 3, Fraction(3) == 3, Decimal(5) == 5, 2+0j == 2): the
    # statement says a mask pattern of non-integer type is a TypeError whatever its value; an acceptance test written as a
    # membership / equality test instead of a type test lets exactly these through
    import decimal, fractions
    for val in (0.0, 3.0, 7.0, fractions.Fraction(3), fractions.Fraction(0), decimal.Decimal(5), complex(2, 0), 8.0, -1.0,
                fractions.Fraction(7, 2), decimal.Decimal("2.5")):
        for where in ("ctor", "assign", "assign-compiled"):
            # the rejection must happen WHERE the value is supplied (a TypeError raised later, from inside the compile, by
            # arithmetic on the stored non-integer is not a rejection of the setting)
            if where == "ctor":
                got_ = attempt(lambda: qrcode.QRCode(mask_pattern=val))
            else:
                q = qrcode.QRCode()
                if where == "assign-compiled":
                    q.add_data("y"); q.make()
                got_ = attempt(lambda: setattr(q, "mask_pattern", val))
            R.oracle(f"nonint-equal {where} mask_pattern {val!r}", got_ == "TypeError",
                     dict(input=f"mask_pattern={val!r} supplied at {where}", expected="TypeError where it is supplied", observed=str(got_)), tag="P3:non-integer")
    # fractional values: whatever conversion the library applies, a setting it ACCEPTS must be held in range and the image must
    # carry a non-negative quiet zone and a positive box (the state held when something is produced decides, not the argument)
    for val in (-0.999, -0.75, -0.5, -0.25, 0.25, 0.5, 0.75, 1.5, 2.5, 3.999):
        for where in ("ctor", "assign"):
            for name in ("border", "box_size"):
                if name == "box_size" and where == "assign":
                    continue      # a non-integer box size by assignment reaches the image factory unconverted: outside the integer statement
                problems = []
                try:
                    if where == "ctor":
                        q = qrcode.QRCode(version=1, **{name: val})
                    else:
                        q = qrcode.QRCode(version=1); setattr(q, name, val)
                    q.add_data("x"); im = q.make_image(image_factory=PyPNGImage)
                    if not (q.border >= 0):
                        problems.append(f"image produced while the object holds border={q.border!r}")
                    if name == "border" or where == "ctor":
                        if not (q.box_size > 0):
                            problems.append(f"image produced while the object holds box_size={q.box_size!r}")
                        if isinstance(im.pixel_size, int) and im.pixel_size < 21 * max(1, int(q.box_size)):
                            problems.append(f"image of {im.pixel_size} px is smaller than the 21 modules of the symbol: negative quiet zone")
                except (ValueError, TypeError):
                    pass
                except Exception as ex:  # noqa
                    problems.append("unexpected " + err_name(ex))
                R.oracle(f"fraction {where} {name} {val!r}", not problems, dict(input=f"{name}={val!r} ({where}) then make_image", expected="rejected, or accepted and held in range",
                                                                                observed="; ".join(problems)), tag="P3:fraction")
    log(f"done: {len(R.corr_failures)} disagreements, {len(R.violations)} violations")
    R.assumptions += ["non-integer arguments go through Python's int()/isinstance; only the listed representatives are probed (P3 only)",
                      "bool is an int in Python (True is accepted as 1)"]
    return R.out()
