"""A server process that answers "what does a FRESH object in a FRESH process produce?".

It is forked before the harness compiles anything, never compiles anything itself, and forks once more per request, so
every answer comes from an interpreter state in which no symbol was ever produced: cold caches of every kind, including
ones the harness does not know about."""
import os, pickle, socket, socketserver, struct, tempfile, threading


def _fresh_compile(req):
    import qrcode
    from qrcode import util
    v, l, m, segs, fit = req
    f = qrcode.QRCode(version=v, error_correction=l, mask_pattern=m)
    for mode, d in segs:
        f.add_data(util.QRData(d, mode=mode, check_data=False))
    try:
        f.make(fit=fit)
        return ("ok", f.version, [row[:] for row in f.modules])
    except Exception as e:  # noqa
        from .core import err_name
        return ("err", err_name(e))


class _Handler(socketserver.BaseRequestHandler):
    def handle(self):
        n = struct.unpack("!I", self._read(4))[0]
        req = pickle.loads(self._read(n))
        try:
            out = _fresh_compile(req)
        except BaseException as e:  # noqa
            out = ("err", "Exception:" + type(e).__name__)
        b = pickle.dumps(out)
        self.request.sendall(struct.pack("!I", len(b)) + b)

    def _read(self, n):
        buf = b""
        while len(buf) < n:
            c = self.request.recv(n - len(buf))
            if not c:
                raise EOFError
            buf += c
        return buf


class _Server(socketserver.ForkingMixIn, socketserver.UnixStreamServer):
    max_children = 64
    request_queue_size = 128


class Pristine:
    def __init__(self):
        self.dir = tempfile.mkdtemp(prefix="pristine-")
        self.path = os.path.join(self.dir, "sock")
        self.pid = os.fork()
        if self.pid == 0:
            try:
                srv = _Server(self.path, _Handler)
                srv.serve_forever()
            finally:
                os._exit(0)
        # wait for the socket
        import time
        for _ in range(200):
            if os.path.exists(self.path):
                break
            time.sleep(0.01)

    def ask(self, v, l, m, segs, fit):
        s = socket.socket(socket.AF_UNIX, socket.SOCK_STREAM)
        s.connect(self.path)
        b = pickle.dumps((v, l, m, segs, fit))
        s.sendall(struct.pack("!I", len(b)) + b)
        hdr = b""
        while len(hdr) < 4:
            hdr += s.recv(4 - len(hdr))
        n = struct.unpack("!I", hdr)[0]
        buf = b""
        while len(buf) < n:
            buf += s.recv(n - len(buf))
        s.close()
        return pickle.loads(buf)

    def close(self):
        import shutil, signal
        try:
            os.kill(self.pid, signal.SIGTERM)
            os.waitpid(self.pid, 0)
        except Exception:
            pass
        shutil.rmtree(self.dir, ignore_errors=True)
