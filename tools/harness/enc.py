"""Implementation runner + model/spec sweep for the encoder properties."""
import os
from .core import *  # noqa
from . import gens


def _to_bytes(d):
    if isinstance(d, tuple):            # ("qrdata", object key, raw, mode or None)
        return _to_bytes(d[2])
    return d if isinstance(d, bytes) else str(d).encode("utf-8")


def _arg(d, objs):
    """the argument handed to add_data: bytes / str as they are; ("qrdata", key, raw, mode) -> a util.QRData object, the SAME
    object for the same key (adding one QRData object twice is legal)"""
    if isinstance(d, tuple):
        from qrcode import util
        _, key, raw, mode = d
        if key not in objs:
            objs[key] = util.QRData(raw, mode=mode)
        return objs[key]
    return d


def run_case(case):
    """Run one compile case on the real implementation (fresh object). Returns a record."""
    import qrcode
    rec = dict(case=case)
    payload = b"".join(_to_bytes(d) for d, _ in case["calls"])
    rec["payload"] = payload
    objs = {}
    if case.get("entry") == "make-shortcut":
        # qrcode.make(data, **settings): the module-level shortcut (default optimisation threshold, fitting on)
        try:
            d = case["calls"][0][0]
            ref = qrcode.QRCode(); ref.add_data(_arg(d, {}))
            rec["segs"] = [(s.mode, bytes(s.data)) for s in ref.data_list]
        except Exception as e:  # noqa
            rec["setup_error"] = err_name(e)
            return rec
        try:
            kw = {}
            if case["level"] != 0:                  # ERROR_CORRECT_M = 0 is the default: not passed, so that the plain
                kw["error_correction"] = case["level"]      # qrcode.make(data) form (no keyword arguments at all) occurs too
            if case["version"] is not None:
                kw["version"] = case["version"]
            if case["mask"] is not None:
                kw["mask_pattern"] = case["mask"]
            im = qrcode.make(_arg(d, objs), **kw)
            mods = [list(row) for row in im.modules]
            rec["outcome"] = ("ok", (len(mods) - 17) // 4, mods)
            rec["data_cache"] = None
        except RecursionError:
            rec["outcome"] = ("err", "Exception")
        except Exception as e:  # noqa
            rec["outcome"] = ("err", err_name(e))
            rec["exc_repr"] = repr(e)[:200]
        return rec
    try:
        pre = case.get("prehistory")
        if pre and pre.get("style") == "resettings":
            # same data, other settings first: compile, then only re-assign version / level / mask (no add_data, no clear)
            q = qrcode.QRCode(version=pre["version"], error_correction=pre["level"], mask_pattern=pre["mask"])
            for d, opt in case["calls"]:
                q.add_data(_arg(d, objs), optimize=opt)
            try:
                q.make()
            except Exception:  # noqa
                pass
            q.version = case["version"]; q.error_correction = case["level"]; q.mask_pattern = case["mask"]
            rec["segs"] = [(s.mode, bytes(s.data)) for s in q.data_list]
        elif pre and pre.get("style") == "recompile":
            # natural reuse: the object is constructed with the case's own settings, compiles OTHER data first, and then gets
            # the case's data (after clear(), or on top) - no setting is ever re-assigned, so whatever an earlier compile left
            # behind in the object (a remembered mask, a cache) is still there
            q = qrcode.QRCode(version=case["version"], error_correction=case["level"], mask_pattern=case["mask"])
            q.add_data(pre["data"], optimize=0)
            try:
                q.make(fit=case["fit"])
                if pre.get("render"):
                    q.get_matrix()
            except Exception:  # noqa
                pass
            if pre.get("clear", True):
                q.clear()
        elif pre:
            # "every symbol" includes symbols compiled by an object that compiled something else before: compile under other
            # settings and data first, then re-configure the same object by clear() + attribute assignment
            q = qrcode.QRCode(version=pre["version"], error_correction=pre["level"], mask_pattern=pre["mask"])
            q.add_data(pre["data"], optimize=0)
            try:
                q.make(fit=pre.get("fit", True))
            except Exception:  # noqa
                pass
            if pre.get("clear", True):
                q.clear()
            else:
                q.data_list = []; q.data_cache = None
            q.version = case["version"]; q.error_correction = case["level"]; q.mask_pattern = case["mask"]
        else:
            q = qrcode.QRCode(version=case["version"], error_correction=case["level"], mask_pattern=case["mask"])
        if not (pre and pre.get("style") == "resettings"):
            for d, opt in case["calls"]:
                q.add_data(_arg(d, objs), optimize=opt)
            rec["segs"] = [(s.mode, bytes(s.data)) for s in q.data_list]
    except Exception as e:  # noqa
        rec["setup_error"] = err_name(e)
        return rec
    try:
        q.make(fit=case["fit"])
        rec["outcome"] = ("ok", q.version, [row[:] for row in q.modules])
        rec["data_cache"] = list(q.data_cache) if q.data_cache is not None else None
    except RecursionError:
        rec["outcome"] = ("err", "Exception")
    except Exception as e:  # noqa
        rec["outcome"] = ("err", err_name(e))
        rec["exc_repr"] = repr(e)[:200]
    return rec


def _run_chunk(cases):
    import_impl()
    return [run_case(c) for c in cases]


def run_cases(cases, jobs=1):
    if jobs <= 1 or len(cases) < 64:
        import_impl()
        return [run_case(c) for c in cases]
    import multiprocessing as mp
    n = max(1, len(cases) // (jobs * 4))
    chunks = [cases[i:i + n] for i in range(0, len(cases), n)]
    with mp.get_context("fork").Pool(jobs) as pool:
        res = pool.map(_run_chunk, chunks)
    return [r for c in res for r in c]


def compile_request(rec):
    c = rec["case"]
    return "compile {} {} {} {} {}".format(c["version"] or 0, c["level"], "-" if c["mask"] is None else c["mask"],
                                           int(bool(c["fit"])), fmt_segs(rec["segs"]))


def impl_compile_reply(rec):
    o = rec["outcome"]
    if o[0] == "ok":
        return f"ok {o[1]} {fmt_mat(o[2])}"
    return "err " + o[1]


def model_compile_reply_canon(reply):
    """drop the mask field of the model's reply (the implementation does not expose the chosen mask)"""
    t = reply.split(" ")
    if t[0] == "ok" and len(t) == 4:
        return f"ok {t[1]} {t[3]}", int(t[2])
    return reply, None


def attach_model_and_spec(recs, want_model=True, want_spec=True):
    reqs = []
    idx = []
    for i, r in enumerate(recs):
        if "segs" not in r:
            continue
        if want_model:
            reqs.append(compile_request(r)); idx.append((i, "model"))
        if want_spec and r["outcome"][0] == "ok":
            reqs.append("spec.read " + fmt_mat(r["outcome"][2])); idx.append((i, "spec"))
    replies = ask_parallel(reqs, chunk=200)
    for (i, k), rep in zip(idx, replies):
        recs[i][k] = rep
    return recs


def parse_spec_read(rep):
    """-> dict or None"""
    t = rep.split(" ")
    if t[0] != "ok":
        return None
    segs = []
    if t[5] != "-":
        for s in t[5].split(";"):
            m, d = s.split(":")
            segs.append((int(m), bytes(int(x) for x in d.split(",")) if d != "-" else b""))
    return dict(version=int(t[1]), level=int(t[2]), mask=int(t[3]), conformant=t[4] == "1", segs=segs,
                data=[int(x) for x in t[6].split(",")] if t[6] != "-" else [])


def _d_repr(d):
    if isinstance(d, tuple):
        return {"qrdata": [d[1], _d_repr(d[2]), d[3]]}
    return d.hex() if isinstance(d, bytes) else {"str": d}


def _d_from(d):
    if isinstance(d, dict) and "qrdata" in d:
        k, raw, mode = d["qrdata"]
        return ("qrdata", k, _d_from(raw), mode)
    return bytes.fromhex(d) if isinstance(d, str) else d["str"]


def case_repr(case):
    c = dict(case)
    c["calls"] = [[_d_repr(d), o] for d, o in case["calls"]]
    if c.get("prehistory"):
        c["prehistory"] = dict(c["prehistory"], data=c["prehistory"]["data"].hex())
    return c


def case_from_repr(c):
    c = dict(c)
    c["calls"] = [(_d_from(d), o) for d, o in c["calls"]]
    if c.get("prehistory"):
        c["prehistory"] = dict(c["prehistory"], data=bytes.fromhex(c["prehistory"]["data"]))
    return c


def std_cases(tier, seed, caps=None, cross_all=False):
    """the shared case pool of C01/C02/C03/C06/C07"""
    import random
    rnd = random.Random(seed * 7919 + 13)
    caps = caps or gens.capacities()
    allpairs = [(v, l) for v in range(1, 41) for l in range(4)]
    if tier == "thorough":
        pairs = allpairs
        nrand = 6000
    else:
        fixed = [(1, 1), (1, 2), (9, 0), (10, 0), (26, 3), (27, 1), (40, 1), (40, 2), (5, 2), (7, 3)]
        pairs = fixed + rnd.sample([p for p in allpairs if p not in fixed and p[0] <= 30], 14)
        nrand = 1200
    cases = gens.boundary_cases(rnd, caps, pairs)
    if tier != "thorough":
        # keep the quick tier quick: thin out large-version boundary cases
        cases = [c for c in cases if (c["version"] or 0) <= 30 or rnd.random() < 0.5]
    rc = gens.random_cases(rnd, nrand)
    for c in rc[::4]:
        c["prehistory"] = dict(version=rnd.choice([None, 1, 2, 5, 7, 10]), level=rnd.randrange(4), mask=rnd.choice([None, 0, 5]),
                               data=gens.payload(rnd, rnd.choice(["lower", "digits", "bytes"]), rnd.randrange(1, 30)), clear=rnd.random() < 0.7)
        c["tag"] = "random-reused-object"
    for c in rc[2::9]:
        if not c.get("prehistory"):
            # an earlier compile of the same object that FAILED (fixed version too small, fitting off, automatic or fixed mask)
            c["prehistory"] = dict(version=rnd.choice([1, 2]), level=rnd.choice([2, 3]), mask=rnd.choice([None, None, 2]), fit=False,
                                   data=gens.payload(rnd, "lower", rnd.randrange(60, 90)), clear=rnd.random() < 0.6)
            c["tag"] = "random-after-failed-compile"
    for c in rc[1::5]:
        if c["version"] is None:
            continue        # (with version None the fitted version of the first compile is a legitimate starting point)
        c["prehistory"] = dict(style="resettings", version=rnd.choice([1, 2, 5, 7, 10]), level=rnd.randrange(4), mask=rnd.choice([None, 0, 5]), data=b"")
        c["tag"] = "random-resettings"
    for c in rc[3::7]:
        if not c.get("prehistory") and c["version"] is not None and not c["fit"]:
            # (fixed version, fitting off: the earlier compile cannot move the starting version, so the request is unchanged)
            c["prehistory"] = dict(style="recompile", data=gens.payload(rnd, rnd.choice(["lower", "digits", "bytes"]), rnd.randrange(1, 12)),
                                   clear=True, render=rnd.random() < 0.5)     # (clear: the payload is the case's calls only)
            c["tag"] = "random-recompiled-object"
    cases += rc
    cc = gens.class_crossing_cases(rnd, caps)
    cases += cc if (tier == "thorough" or cross_all) else rnd.sample(cc, 120)
    # streams that need two re-fits (across 9|10 and then 26|27), around the capacity of version 27
    dc = gens.double_crossing_cases(rnd, caps)
    cases += dc if tier == "thorough" else rnd.sample(dc, min(len(dc), 28))
    # short payloads with one odd character at either end; multi-segment streams at capacity -2..+3 bits
    aw = gens.awkward_short_cases(rnd)
    awc = [c for c in aw if c["tag"] == "awkward-core"]
    cases += aw if tier == "thorough" else awc + rnd.sample([c for c in aw if c["tag"] != "awkward-core"], 40)
    ms = gens.multi_segment_boundary_items(rnd, caps, pairs if tier == "thorough" else rnd.sample(pairs, 8), prefixes=(3, 7, 11, 2))
    ms = ms if len(ms) <= (600 if tier == "thorough" else 60) else rnd.sample(ms, 600 if tier == "thorough" else 60)
    for (v, l, segs, d) in ms:
        for (ver, fit) in ((None, True), (v, False)) if d <= 0 or rnd.random() < 0.5 else ((None, True),):
            cases.append(dict(version=ver, level=l, mask=rnd.randrange(8), fit=fit, calls=[(dd, 0) for _, dd in segs], tag=f"multi-boundary{d:+d}"))
    # less used entry points of the same API: explicit QRData objects (the same object added more than once, equal but distinct
    # objects, explicit modes), text (str) payloads incl. non-ASCII digits and letters, the qrcode.make() shortcut
    api = gens.api_entry_cases(rnd)
    cases += api if tier == "thorough" else rnd.sample(api, 90)
    # fixed corner cases (corpus of past findings)
    cases += [
        dict(version=None, level=2, mask=None, fit=True, calls=[(b"\0" * 24, 0)], tag="corpus-D1"),
        dict(version=5, level=2, mask=3, fit=False, calls=[(b"\0" * 40, 0)], tag="corpus-D1"),
        dict(version=None, level=1, mask=0, fit=True, calls=[(b"a" * 3000, 20)], tag="corpus-D2"),
        dict(version=None, level=0, mask=0, fit=True, calls=[(b"1" * 7090, 0)], tag="corpus-D2"),
        dict(version=1, level=0, mask=None, fit=False, calls=[(b"", 0)], tag="empty"),
        dict(version=None, level=0, mask=None, fit=True, calls=[], tag="no-data"),
        dict(version=40, level=1, mask=2, fit=False, calls=[(b"7" * 7089, 0)], tag="max-numeric"),
        dict(version=40, level=1, mask=None, fit=False, calls=[(bytes(range(256)) * 11 + bytes(137), 0)], tag="max-bytes"),
    ]
    return cases
