"""Run an operation history on a real QRCode object; canonical output identical to the driver's `obj` op."""
import io
from .core import *  # noqa

MOD = 1000000007


def hstep(h, x):
    return (h * 31 + x) % MOD


def hash_opt(m):
    h = 7
    for row in m:
        for c in row:
            h = hstep(h, 0 if c is None else (2 if c else 1))
        h = hstep(h, 3)
    return h


def hash_segs(dl):
    h = 7
    for s in dl:
        h = hstep(h, s.mode + 300)
        for b in s.data:
            h = hstep(h, b)
        h = hstep(h, 299)
    return h


class TTY(io.StringIO):
    def isatty(self):
        return True


class Capture:
    """image factory stand-in: records what make_image passes to the factory"""
    pass


def fmt_opt_int(x):
    return "-" if x is None else str(x)


def run_history(ctor, ops, warm=(), probe=None):
    """ctor = (version, level, box, border, mask); ops = list of op strings (driver syntax). Returns canonical reply."""
    import qrcode, qrcode.main as M
    from qrcode import util
    from qrcode.image.base import BaseImage

    class Probe(BaseImage):
        kind = "PROBE"
        needs_drawrect = False
        def new_image(self, **kw):
            return None
        def drawrect(self, row, col):
            pass
        def save(self, stream, kind=None):
            pass

    M.precomputed_qr_blanks.clear()
    for v in warm:
        w = qrcode.QRCode(version=v); w.makeImpl(False, 0)
    version, level, box, border, mask = ctor
    try:
        q = qrcode.QRCode(version=version, error_correction=level, box_size=box, border=border, mask_pattern=mask)
    except Exception as e:  # noqa
        return "ctor-err " + err_name(e)
    outs = []
    last_qrdata = None
    failed_make = False
    for op in ops:
        t = op.split("~")
        render_snap = None
        try:
            k = t[0]
            if probe is not None and failed_make and (k in ("getm", "ascii", "tty") or (k == "img" and isinstance(q.box_size, int) and q.box_size > 0)):
                # a rendering call directly after a make() that RAISED compiles implicitly: what it shows must be what a fresh
                # object with the same data and settings compiles (fitting on), or it fails with the same error
                render_snap = (q._version, q.error_correction, q.mask_pattern, [(s.mode, bytes(s.data)) for s in q.data_list])
            if k == "add":
                d = bytes(int(x) for x in t[1].split(",")) if t[1] != "-" else b""
                q.add_data(d, optimize=int(t[2])); o = "u"
            elif k == "addseg":
                m, d = t[1].split(":")
                d = bytes(int(x) for x in d.split(",")) if d != "-" else b""
                last_qrdata = util.QRData(d, mode=int(m), check_data=False)
                q.add_data(last_qrdata); o = "u"
            elif k == "addsame":
                # the same QRData OBJECT once more (legal; the model has no object identity: the driver sees a second addseg)
                if last_qrdata is None:
                    last_qrdata = util.QRData(b"7", mode=1, check_data=False)
                q.add_data(last_qrdata); o = "u"
            elif k == "shortcut":
                # qrcode.make(data): another symbol of this process, through the module-level shortcut; compared with a fresh object
                d = bytes(int(x) for x in t[1].split(",")) if t[1] != "-" else b""
                segs = []
                if t[2] != "-":
                    for s in t[2].split(";"):
                        mm, dd = s.split(":")
                        segs.append((int(mm), bytes(int(x) for x in dd.split(",")) if dd != "-" else b""))
                try:
                    im = qrcode.make(d)             # no keyword arguments at all: the plain shortcut
                    res = ("ok", (len(im.modules) - 17) // 4, [list(r) for r in im.modules])
                except Exception as e:  # noqa
                    res = ("err", err_name(e))
                if probe is not None:
                    probe((None, 0, None, segs), True, res, len(outs))
                o = "u"
            elif k == "clear":
                q.clear(); o = "u"
            elif k == "make":
                if probe is None:
                    q.make(fit=t[1] == "1"); o = "u"
                else:
                    snap = (q._version, q.error_correction, q.mask_pattern, [(s.mode, bytes(s.data)) for s in q.data_list])
                    try:
                        q.make(fit=t[1] == "1"); res = ("ok", q.version, [row[:] for row in q.modules]); o = "u"
                    except Exception as e:  # noqa
                        res = ("err", err_name(e)); o = "e:" + err_name(e)
                    probe(snap, t[1] == "1", res, len(outs))
            elif k == "setv":
                q.version = None if t[1] == "-" else int(t[1]); o = "u"
            elif k == "setl":
                q.error_correction = int(t[1]); o = "u"
            elif k == "setm":
                q.mask_pattern = None if t[1] == "-" else int(t[1]); o = "u"
            elif k == "setb":
                q.border = int(t[1]); o = "u"
            elif k == "setbox":
                q.box_size = int(t[1]); o = "u"
            elif k == "getm":
                g = q.get_matrix(); o = f"m:{len(g)}:{hash_opt(g)}"
            elif k == "mut":
                r, c, x = int(t[1]), int(t[2]), t[3] == "1"
                if r < len(q.modules) and c < len(q.modules[r]):
                    q.modules[r][c] = x
                o = "u"
            elif k == "img":
                im = q.make_image(image_factory=Probe)
                o = f"i:{im.border}:{im.width}:{im.box_size}:{hash_opt(im.modules)}"
            elif k == "ascii":
                q.print_ascii(out=io.StringIO()); o = f"t:{q.border}:{hash_opt(q.modules)}"
            elif k == "tty":
                q.print_tty(out=TTY()); o = f"t:1:{hash_opt(q.modules)}"
            elif k == "other":
                v, l, m, f, sg = t[1:6]
                oq = qrcode.QRCode(version=int(v) or None, error_correction=int(l), mask_pattern=None if m == "-" else int(m))
                if sg != "-":
                    for s in sg.split(";"):
                        mm, dd = s.split(":")
                        oq.add_data(util.QRData(bytes(int(x) for x in dd.split(",")) if dd != "-" else b"", mode=int(mm), check_data=False))
                try:
                    oq.make(fit=f == "1")
                except Exception:  # noqa
                    pass
                o = "u"
            else:
                raise RuntimeError("unknown op " + op)
        except RuntimeError:
            raise
        except RecursionError:
            o = "e:Exception"
        except Exception as e:  # noqa
            o = "e:" + err_name(e)
        if render_snap is not None:
            probe(render_snap, True, ("err", o[2:]) if o.startswith("e:") else ("ok", q.version, [row[:] for row in q.modules]), len(outs))
        failed_make = t[0] == "make" and o.startswith("e:")
        outs.append(o)
    st = "S:{}:{}:{}:{}:{}:{}:{}:{}:{}:{}".format(q._version or 0, q.error_correction, fmt_opt_int(q.mask_pattern), q.border, q.box_size,
                                                 len(q.data_list), hash_segs(q.data_list), 1 if q.data_cache is not None else 0,
                                                 q.modules_count, hash_opt(q.modules))
    g = "G:" + (",".join(str(v) for v in sorted(M.precomputed_qr_blanks)) or "-")
    return "ok " + ("|".join(outs)) + " " + st + " " + g


def driver_ops(ops):
    """the operations as the model sees them: `addsame` = the last explicit segment again (a fixed one if there was none),
    `shortcut~data~segs` = another object (no version, level M, automatic mask, fitting on) compiling these segments"""
    out, last = [], "addseg~1:55"
    for op in ops:
        if op.startswith("addseg~"):
            last = op
        if op == "addsame":
            out.append(last)
        elif op.startswith("shortcut~"):
            out.append("other~0~0~-~1~" + op.split("~")[2])
        else:
            out.append(op)
    return out


def shortcut_op(data):
    """`shortcut~bytes~segments` for qrcode.make(data): the segments are what add_data's default threshold yields"""
    import qrcode
    ref = qrcode.QRCode(); ref.add_data(data)
    segs = ";".join(f"{s.mode}:{','.join(str(b) for b in s.data) or '-'}" for s in ref.data_list) or "-"
    return "shortcut~{}~{}".format(",".join(str(b) for b in data) or "-", segs)


def request(ctor, ops, warm=()):
    c = ",".join(fmt_opt_int(x) for x in ctor)
    return "obj {} {} {}".format(c, "|".join(driver_ops(ops)) or "-", ",".join(map(str, warm)) or "-")
