"""Deterministic thread scheduler for C19: real threads, one runs at a time, switching only at yield points.
Yield points: every access to the process-wide dicts (precomputed_qr_blanks, ElementTree's namespace registry) and the
entry of every pattern-drawing / placing method of QRCode (so that in-place mutation of shared objects between two dict
accesses is exposed too)."""
import threading, sys


class DenseTrace:
    """sys.settrace function: a yield point at EVERY LINE of the given functions (pairs (file name, function name)) - used for
    the functions that touch process-wide state the committed inventory does not know (directed search for race windows)"""
    def __init__(self, dense):
        self.dense = set(dense)

    def __call__(self, frame, event, arg):
        if event == "call" and (frame.f_code.co_filename, frame.f_code.co_name) in self.dense:
            return self.local
        return None

    def local(self, frame, event, arg):
        if event == "line" and SchedDict.ctl is not None:
            SchedDict.ctl.yield_point("call:line")
        return self.local


class Controller:
    tracer = None       # a DenseTrace installed in every worker thread, or None

    def __init__(self, schedule, nthreads, rnd=None):
        self.schedule = list(schedule)
        self.go = [threading.Semaphore(0) for _ in range(nthreads)]
        self.arrived = threading.Semaphore(0)
        self.done = [False] * nthreads
        self.tid = threading.local()
        self.trace = []
        self.active = False
        self.rnd = rnd

    def yield_point(self, what):
        t = getattr(self.tid, "id", None)
        if t is None or not self.active:
            return
        self.trace.append((t, what))
        self.arrived.release()
        self.go[t].acquire()

    def worker(self, t, fn, results):
        self.tid.id = t
        self.arrived.release()          # reached the start line
        self.go[t].acquire()
        try:
            if Controller.tracer is not None:
                sys.settrace(Controller.tracer)
            results[t] = ("ok", fn())
        except BaseException as e:  # noqa
            results[t] = ("exc", f"{type(e).__name__}: {e}")
        finally:
            sys.settrace(None)
        self.done[t] = True
        self.arrived.release()

    def run(self, fns):
        n = len(fns)
        results = [None] * n
        self.active = True
        threads = [threading.Thread(target=self.worker, args=(t, fns[t], results), daemon=True) for t in range(n)]
        for th in threads:
            th.start()
        for _ in range(n):
            self.arrived.acquire()
        k = 0
        steps = 0
        while not all(self.done):
            if k < len(self.schedule):
                t = self.schedule[k] % n; k += 1
            else:
                t = min(i for i in range(n) if not self.done[i])     # schedule exhausted: finish the threads in order
            if self.done[t]:
                continue
            self.go[t].release()
            if not self.arrived.acquire(timeout=60):
                raise RuntimeError("scheduler timeout (deadlock?)")
            steps += 1
        self.active = False
        for th in threads:
            th.join(timeout=10)
        return results, steps


class SchedDict(dict):
    """dict whose accesses are scheduling points"""
    ctl = None
    label = "dict"

    def _y(self, what):
        if SchedDict.ctl is not None:
            SchedDict.ctl.yield_point(self.label + ":" + what)

    def __contains__(self, k):
        self._y("contains"); return dict.__contains__(self, k)

    def __getitem__(self, k):
        self._y("get"); return dict.__getitem__(self, k)

    def __setitem__(self, k, v):
        self._y("set"); return dict.__setitem__(self, k, v)

    def __delitem__(self, k):
        self._y("del"); return dict.__delitem__(self, k)

    def get(self, k, d=None):
        self._y("get"); return dict.get(self, k, d)

    def items(self):
        self._y("items"); return dict.items(self)


class Installed:
    """install the yield points into the real code; restores everything on exit"""

    METHODS = ["setup_position_probe_pattern", "setup_position_adjust_pattern", "setup_timing_pattern", "setup_type_info",
               "setup_type_number", "map_data", "best_mask_pattern"]

    def __enter__(self):
        import qrcode.main as M
        import xml.etree.ElementTree as ET
        self.M, self.ET = M, ET
        self.saved_blanks = M.precomputed_qr_blanks
        d = SchedDict(M.precomputed_qr_blanks); d.label = "blanks"
        M.precomputed_qr_blanks = d
        self.saved_ns = ET._namespace_map
        ns = SchedDict(ET._namespace_map); ns.label = "ns"
        ET._namespace_map = ns
        self.saved_methods = {}
        for name in self.METHODS:
            orig = getattr(M.QRCode, name)
            self.saved_methods[name] = orig

            def make(orig, name):
                def wrapper(self_, *a, **k):
                    if SchedDict.ctl is not None:
                        SchedDict.ctl.yield_point("call:" + name)
                    return orig(self_, *a, **k)
                return wrapper
            setattr(M.QRCode, name, make(orig, name))
        # image side: constructor, drawer initialisation, and (sparsely) the per-module drawing calls
        import qrcode.image.base as IB
        self.saved_img = []
        for cls, name, every in ((IB.BaseImage, "__init__", 1), (IB.BaseImageWithDrawer, "init_new_image", 1),
                                 (IB.BaseImageWithDrawer, "drawrect_context", 61), (M.QRCode, "make_image", 1)):
            orig = cls.__dict__[name]
            self.saved_img.append((cls, name, orig))

            def make2(orig, name, every):
                cnt = [0]

                def wrapper(self_, *a, **k):
                    cnt[0] += 1
                    if SchedDict.ctl is not None and (every == 1 or cnt[0] % every == 1):
                        SchedDict.ctl.yield_point("call:" + name)
                    return orig(self_, *a, **k)
                return wrapper
            setattr(cls, name, make2(orig, name, every))
        self.saved_reg = ET.register_namespace

        def reg(prefix, uri, _orig=ET.register_namespace):
            if SchedDict.ctl is not None:
                SchedDict.ctl.yield_point("call:register_namespace")
            return _orig(prefix, uri)
        ET.register_namespace = reg
        try:
            import qrcode.compat.etree as CE
            self.CE = CE
        except Exception:
            self.CE = None
        return self

    def __exit__(self, *a):
        M, ET = self.M, self.ET
        SchedDict.ctl = None
        cur = M.precomputed_qr_blanks
        M.precomputed_qr_blanks = self.saved_blanks
        M.precomputed_qr_blanks.clear(); M.precomputed_qr_blanks.update(dict(cur))
        curns = dict(ET._namespace_map)
        ET._namespace_map = self.saved_ns
        ET._namespace_map.clear(); ET._namespace_map.update(curns)
        for name, orig in self.saved_methods.items():
            setattr(M.QRCode, name, orig)
        for cls, name, orig in self.saved_img:
            setattr(cls, name, orig)
        ET.register_namespace = self.saved_reg
