"""Input generators for the encoder properties (C01-C10). Every random choice derives from one seed."""
import random
from .core import ask

DIG = b"0123456789"
ALN = b"0123456789ABCDEFGHIJKLMNOPQRSTUVWXYZ $%*+-./:"
LOW = b"abcdefghijklmnopqrstuvwxyz,;!?#&()[]{}<>=@_~'\"\\\n\t"

MODE_NUM, MODE_ALN, MODE_BYTE = 1, 2, 4


def rbytes(rnd, alphabet, n):
    return bytes(rnd.choice(alphabet) for _ in range(n))


def payload(rnd, kind, n):
    if kind == "digits":
        return rbytes(rnd, DIG, n)
    if kind == "alnum":
        return rbytes(rnd, ALN, n)
    if kind == "alpha-nodigit":
        return rbytes(rnd, ALN[10:], n)
    if kind == "bytes":
        return bytes(rnd.randrange(256) for _ in range(n))
    if kind == "lower":
        return rbytes(rnd, LOW, n)
    if kind == "zeros":
        return b"\0" * n
    if kind == "ff":
        return b"\xff" * n
    if kind == "mixed":
        out = b""
        while len(out) < n:
            k = rnd.choice(["digits", "alnum", "alpha-nodigit", "lower", "bytes", "zeros"])
            out += payload(rnd, k, rnd.choice([1, 2, 3, 4, 5, 7, 19, 20, 21, 40]))
        return out[:n]
    raise ValueError(kind)


KINDS = ["digits", "alnum", "alpha-nodigit", "bytes", "lower", "zeros", "ff", "mixed"]


def capacities():
    """ISO capacities from the Spec (driver), dict (mode, v, l) -> chars."""
    reqs = [f"spec.capacity {m} {v} {l}" for m in (1, 2, 4) for v in range(1, 41) for l in range(4)]
    res = ask(reqs)
    out = {}
    i = 0
    for m in (1, 2, 4):
        for v in range(1, 41):
            for l in range(4):
                assert res[i].startswith("ok "), res[i]
                out[(m, v, l)] = int(res[i][3:])
                i += 1
    return out


def mode_payload(rnd, m, n, flavour=0):
    """a payload of exactly n characters whose optimal single-segment mode is m"""
    if n == 0:
        return b""
    if m == MODE_NUM:
        return rbytes(rnd, DIG, n) if flavour != 1 else b"0" * n
    if m == MODE_ALN:
        s = bytearray(rbytes(rnd, ALN, n))
        s[rnd.randrange(n)] = rnd.choice(ALN[10:])  # make sure it is not all digits
        return bytes(s)
    s = bytearray(payload(rnd, ["bytes", "lower", "zeros", "ff"][flavour % 4], n))
    if all(c in ALN for c in s):
        s[rnd.randrange(n)] = ord("a")
    return bytes(s)


def boundary_cases(rnd, caps, pairs, deltas=(-1, 0, 1)):
    """capacity-directed cases: one segment (optimize=0) of mode m with capacity+delta characters"""
    out = []
    for (v, l) in pairs:
        for m in (MODE_NUM, MODE_ALN, MODE_BYTE):
            cap = caps[(m, v, l)]
            for d in deltas:
                n = cap + d
                if n < 0:
                    continue
                data = mode_payload(rnd, m, n, rnd.randrange(4))
                for (ver, fit) in ((v, False), (None, True), (v, True)):
                    out.append(dict(version=ver, level=l, mask=rnd.randrange(8), fit=fit,
                                    calls=[(data, 0)], tag=f"boundary{d:+d}"))
    return out


def random_cases(rnd, count, max_len=400, auto_mask_ratio=0.25, big_ratio=0.05):
    out = []
    for _ in range(count):
        r = rnd.random()
        if r < 0.35:
            ver = None
        elif r < 0.8:
            ver = rnd.choice([1, 2, 3, 4, 5, 6, 7, 8, 9, 10, 11, 14, 20, 26, 27, 28, 32, 35, 40])
        else:
            ver = rnd.randrange(1, 41)
        level = rnd.randrange(4)
        mask = None if rnd.random() < auto_mask_ratio else rnd.randrange(8)
        fit = rnd.random() < 0.6
        ncalls = rnd.choice([1, 1, 1, 2, 3])
        calls = []
        for _ in range(ncalls):
            kind = rnd.choice(KINDS)
            if rnd.random() < big_ratio:
                n = rnd.randrange(0, 3200)
            else:
                n = rnd.choice([0, 1, 2, 3, 4, 5, 7, 10, 16, 17, 19, 20, 21, 25, 33, 50, 64, 100, rnd.randrange(0, max_len)])
            data = payload(rnd, kind, n)
            opt = rnd.choice([0, 0, 1, 2, 4, 5, 20, 20, 21, 100])
            as_str = False
            if rnd.random() < 0.2:
                try:
                    data = data.decode("ascii")
                    as_str = True
                except UnicodeDecodeError:
                    pass
            if not as_str and rnd.random() < 0.05:
                data = "".join(rnd.choice("aé漢1٣A😀 ") for _ in range(min(n, 40)))  # non-ASCII text incl. non-ASCII digits
            calls.append((data, opt))
        out.append(dict(version=ver, level=level, mask=mask, fit=fit, calls=calls, tag="random"))
    return out


def class_crossing_cases(rnd, caps):
    """streams whose first version guess falls in a lower class than the final one (re-fit recursion)
    and many tiny segments (where the stream grows a lot between classes)"""
    out = []
    for l in range(4):
        for (lo, hi) in ((9, 10), (26, 27)):
            for m in (MODE_NUM, MODE_ALN, MODE_BYTE):
                base = caps[(m, lo, l)]
                for d in (-2, -1, 0, 1, 2, 3):
                    n = base + d
                    data = mode_payload(rnd, m, n, 0)
                    for start in (None, 1, lo - 1, lo, hi):
                        out.append(dict(version=start, level=l, mask=0, fit=True, calls=[(data, 0)], tag="class-cross"))
                # around the capacity of the first version of the higher class: the first guess (made with the narrower
                # count fields of the lower class) lands exactly on `hi` although the stream needs hi or hi+1
                base = caps[(m, hi, l)]
                for d in (-1, 0, 1, 2):
                    n = base + d
                    data = mode_payload(rnd, m, n, 0)
                    for (start, fit) in ((None, False), (None, True), (1, True), (lo - 4, True), (lo, True), (lo, False)):
                        out.append(dict(version=start, level=l, mask=0, fit=fit, calls=[(data, 0)], tag="class-cross-hi"))
                # many tiny segments filling about the capacity of lo..hi
                per = {MODE_NUM: 14 + 4, MODE_ALN: 13 + 6, MODE_BYTE: 12 + 8}[m]
                total_bits = caps[(MODE_BYTE, lo, l)] * 8
                k = total_bits // per
                for dk in (-3, -1, 0, 1, 2, 6):
                    calls = [(mode_payload(rnd, m, 1, 0), 0) for _ in range(max(0, k + dk))]
                    out.append(dict(version=None, level=l, mask=0, fit=True, calls=calls, tag="tiny-segments"))
    return out


# ---- exact bit arithmetic of the ISO stream (independent of the library), for boundary-directed multi-segment streams
def _cci(mode, v):
    k = 0 if v <= 9 else (1 if v <= 26 else 2)
    return {MODE_NUM: (10, 12, 14), MODE_ALN: (9, 11, 13), MODE_BYTE: (8, 16, 16)}[mode][k]


def seg_bits(mode, n, v):
    if mode == MODE_NUM:
        body = 10 * (n // 3) + (0, 4, 7)[n % 3]
    elif mode == MODE_ALN:
        body = 11 * (n // 2) + 6 * (n % 2)
    else:
        body = 8 * n
    return 4 + _cci(mode, v) + body


def data_bits(caps, v, l):
    """data capacity in bits of (v, l), derived from the Spec's byte capacity"""
    return 8 * (caps[(MODE_BYTE, v, l)] + (2 if v <= 9 else 3))


def multi_segment_boundary_items(rnd, caps, pairs, prefixes=(1, 2, 3, 5, 7, 11), window=(-2, -1, 0, 1, 2, 3)):
    """(v, l, segs, delta): an alphanumeric (or byte) prefix followed by a numeric tail tuned so that the whole stream is
    capacity+delta bits at version v - exact capacity / one bit over are hit whenever the arithmetic allows it"""
    out = []
    for (v, l) in pairs:
        D = data_bits(caps, v, l)
        for a in prefixes:
            for pm in (MODE_ALN, MODE_BYTE):
                pre = seg_bits(pm, a, v)
                n0 = max(0, (D - pre - 4 - _cci(MODE_NUM, v)) * 3 // 10)
                for n in range(max(1, n0 - 4), n0 + 5):
                    d = pre + seg_bits(MODE_NUM, n, v) - D
                    if d in window:
                        prefix = mode_payload(rnd, pm, a, 1)
                        out.append((v, l, [(pm, prefix), (MODE_NUM, rbytes(rnd, DIG, n))], d))
    return out


def double_crossing_cases(rnd, caps):
    """many-segment streams that need TWO re-fits: with the count fields of versions 1-9 the stream fits version <= 26, with
    those of 10-26 it needs 27, and with those of 27-40 it no longer fits 27 (or just does): alternating one-byte and numeric
    segments (a byte segment grows 8 bits from the first class to the second and 0 to the third, a numeric one 2 and 2)."""
    out = []
    for l in range(4):
        D26, D27 = data_bits(caps, 26, l), data_bits(caps, 27, l)
        nb = (D27 - D26) // 8 + 3
        nn = nb
        for d_target in (0, 1, 2, nn, 2 * nn - 2, 2 * nn, 2 * nn + 3):       # D27 - (bits with the middle widths); < 2*nn: needs 28
            lens = [3] * nn
            def bits(v):
                return nb * seg_bits(MODE_BYTE, 1, v) + sum(seg_bits(MODE_NUM, k, v) for k in lens)
            i = 0
            while bits(20) + 4 <= D27 - d_target and i < 200000:       # grow the numeric segments round-robin
                lens[i % nn] += 1; i += 1
            for j in range(nn):                                           # fine-tune with single digits (+4 / +3 bits)
                lens[j] += 1
                if bits(20) > D27 - d_target:
                    lens[j] -= 1
            b1, b2, b3 = bits(5), bits(20), bits(30)
            if not (b1 <= D26 < b2 <= D27):
                continue
            calls = []
            for k in lens:
                calls.append((bytes([rnd.choice(b"abcxyz#!?")]), 0))
                calls.append((rbytes(rnd, DIG, k), 0))
            calls = calls[:2 * nb]
            for (start, fit) in ((None, True), (None, False), (1, True), (9, True), (26, True), (27, False)):
                out.append(dict(version=start, level=l, mask=rnd.randrange(8), fit=fit, calls=list(calls),
                                tag="double-crossing" + ("-28" if b3 > D27 else "-27")))
    return out


AWKWARD_TAILS = [b"\n", b"\r\n", b"\r", b" ", b"\t", b"\0", b"\x0b", b"\x0c", b"\x1c", b"\x1f", b"\x85", b"\xa0", b"_", b"+", b"-", b".", b",",
                 b"\xd9\xa3", b"\xef\xbc\x91", b"e5", b"0x", b"\n\n"]


def awkward_short_cases(rnd, per_tail=2):
    """short all-digit / all-alphanumeric payloads with one odd character glued to either end or the middle (trailing newline of
    `echo`, signs, underscores, whitespace, non-ASCII digits): where 'looks numeric' tests written with regexes, int() or
    str.isdigit() differ from 'every byte is an ASCII digit'.  The first block (tag awkward-core) is the same for every seed:
    every tail as a SUFFIX and as a PREFIX of a 3-character and of a just-below-threshold core, default threshold."""
    core_cases, out = [], []
    for t in AWKWARD_TAILS:
        for kind in ("digits", "alnum"):
            for n in (3, max(1, 20 - len(t))):
                core = payload(rnd, kind, n)
                for data in (core + t, t + core):
                    core_cases.append(dict(version=None, level=rnd.randrange(4), mask=rnd.choice([None, 0, 3, 7]), fit=True,
                                           calls=[(data, 20)], tag="awkward-core"))
        for k in range(per_tail):
            for kind in ("digits", "alnum"):
                core = payload(rnd, kind, rnd.choice([1, 2, 5, 8, 13, 19, 21, 40]))
                data = rnd.choice([core + t, t + core, core[:len(core) // 2] + t + core[len(core) // 2:]])
                for opt in (20, 0, 4):
                    out.append(dict(version=None, level=rnd.randrange(4), mask=rnd.choice([None, 0, 3, 7]), fit=True,
                                    calls=[(data, opt)], tag="awkward-short"))
    return core_cases + out


TEXTS = ["héllo wörld", "\u0661\u0662\u0663", "\uff11\uff12\uff13\uff14", "12\u00b2", "\u0663\u0664\u0665" * 5, "ΑΒΓ 123", "ＡＢＣ", "١٢٣٤٥٦٧٨٩٠" * 3,
         "12345", "HELLO WORLD", "hello", "0", "", "٣", "1\u0660", "A\u0391", "123456789012345678901234567890\u0661", "\u00bd", "\u2460\u2461", "x" * 30 + "٤٥"]


def api_entry_cases(rnd):
    """the same compile through other doors of the public API"""
    out = []
    # text payloads (UTF-8), thresholds 0 / 20 / 4: what decides the mode must be the BYTES
    for t in TEXTS:
        for opt in (0, 20, 4):
            out.append(dict(version=None, level=rnd.randrange(4), mask=rnd.choice([None, 1, 6]), fit=True, calls=[(t, opt)], tag="text"))
    # explicit QRData objects: one object added 2-3 times, equal but distinct objects, explicit modes, mixed with plain calls
    for i in range(60):
        kind = rnd.choice(["digits", "alnum", "lower", "bytes"])
        raw = payload(rnd, kind, rnd.choice([1, 5, 17, 30, 60, 100]))
        mode = rnd.choice([None, None, MODE_BYTE] + ({"digits": [MODE_NUM, MODE_ALN], "alnum": [MODE_ALN]}.get(kind, [])))
        if mode == MODE_ALN and kind == "alnum":
            pass
        rep = rnd.choice([2, 2, 3, 1])
        same = rnd.random() < 0.7
        calls = [(("qrdata", 0 if same else k, raw, mode), 20) for k in range(rep)]
        if rnd.random() < 0.4:
            calls.insert(rnd.randrange(len(calls) + 1), (payload(rnd, "lower", rnd.randrange(1, 12)), rnd.choice([0, 20])))
        v = rnd.choice([None, None, 1, 3, 9])
        out.append(dict(version=v, level=rnd.randrange(4), mask=rnd.choice([None, 0, 7]), fit=True, calls=calls, tag="qrdata-objects"))
    # qrcode.make(data, ...): sizes in shuffled order (a larger symbol before a smaller one), with and without settings
    sizes = [1, 300, 5, 60, 2, 900, 10, 40, 3, 150, 7, 20]
    for n in sizes + sizes[::-1]:
        kind = rnd.choice(["lower", "digits", "alnum", "mixed"])
        kw = rnd.random()
        out.append(dict(version=None if kw < 0.6 else rnd.choice([1, 5, 12]), level=0 if kw < 0.3 else rnd.randrange(4),
                        mask=None if kw < 0.5 else rnd.randrange(8), fit=True, calls=[(payload(rnd, kind, n), 20)], entry="make-shortcut", tag="make-shortcut"))
    for k in range(8):
        out.append(dict(version=None, level=rnd.randrange(4), mask=k, fit=True, calls=[(payload(rnd, "lower", rnd.randrange(1, 30)), 20)], entry="make-shortcut", tag="make-shortcut-mask"))
    return out
