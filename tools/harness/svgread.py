"""Parse the SVG documents produced by the factories back into shapes (exact Fractions, in pixels = 0.1 mm)."""
import re
from fractions import Fraction
from decimal import Decimal
import xml.etree.ElementTree as ET

SVGNS = "http://www.w3.org/2000/svg"


def mm(s):
    """'1.23mm' -> pixels"""
    if not s.endswith("mm"):
        raise ValueError("not a mm length: " + s)
    return Fraction(Decimal(s[:-2])) * 10


def num(s):
    return Fraction(Decimal(s)) * 10


def local(tag):
    return tag.split("}")[-1]


def parse(data):
    """-> dict(width, height, viewBox, backgrounds, shapes=[(kind, cx, cy, w, h, raw)], ns_prefix_ok)"""
    root = ET.fromstring(data)
    if local(root.tag) != "svg":
        raise ValueError("root is " + root.tag)
    doc = dict(width=mm(root.get("width")), height=mm(root.get("height")), viewBox=root.get("viewBox"), backgrounds=0, shapes=[],
               root_ns=root.tag.startswith("{" + SVGNS + "}"), xmlns_attr=None)
    for el in root:
        t = local(el.tag)
        if t == "rect" and el.get("width") == "100%":
            doc["backgrounds"] += 1
            doc["background_fill"] = el.get("fill")
            continue
        if t == "rect":
            x, y, w, h = mm(el.get("x")), mm(el.get("y")), mm(el.get("width")), mm(el.get("height"))
            doc["shapes"].append(("rect", x + w / 2, y + h / 2, w, h, (x, y, w, h)))
        elif t == "circle":
            cx, cy, r = mm(el.get("cx")), mm(el.get("cy")), mm(el.get("r"))
            doc["shapes"].append(("circle", cx, cy, 2 * r, 2 * r, (cx, cy, r)))
        elif t == "path":
            d = el.get("d")
            for sub in re.findall(r"M[^M]*", d):
                m = re.fullmatch(r"M([-\d.E+]+),([-\d.E+]+)H([-\d.E+]+)V([-\d.E+]+)H([-\d.E+]+)z", sub)
                if m:
                    x0, y0, x1, y1, x0b = map(num, m.groups())
                    if x0b != x0:
                        raise ValueError("square subpath does not close: " + sub)
                    doc["shapes"].append(("psq", (x0 + x1) / 2, (y0 + y1) / 2, x1 - x0, y1 - y0, (x0, y0, x1, y1)))
                    continue
                m = re.fullmatch(r"M([-\d.E+]+),([-\d.E+]+)A([-\d.E+]+),([-\d.E+]+) 0 0 0 ([-\d.E+]+),([-\d.E+]+)A([-\d.E+]+),([-\d.E+]+) 0 0 0 ([-\d.E+]+),([-\d.E+]+)z", sub)
                if m:
                    x0, yh, h1, h2, x1, yh2, h3, h4, x0b, yh3 = map(num, m.groups())
                    if not (yh == yh2 == yh3 and x0 == x0b and h1 == h2 == h3 == h4):
                        raise ValueError("inconsistent circle subpath: " + sub)
                    chord = x1 - x0
                    # SVG arc radius correction: a radius smaller than half the chord is scaled up to it (A-SVG)
                    diam = max(2 * h1, chord)
                    doc["shapes"].append(("pci", (x0 + x1) / 2, yh, diam, diam, (x0, yh, x1, h1)))
                    continue
                raise ValueError("unknown subpath: " + sub[:60])
        else:
            raise ValueError("unexpected element " + t)
    return doc
