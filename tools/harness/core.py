"""Shared harness plumbing: driver process, canonical encodings, implementation wrappers."""
import os, subprocess, sys, hashlib, json, random, time

VERIF = os.path.dirname(os.path.dirname(os.path.dirname(os.path.abspath(__file__))))
REPO = os.environ.get("VERIF_REPO", "/repo")
DRV = os.path.join(VERIF, "lean", ".lake", "build", "bin", "qrdrv")

if REPO not in sys.path:
    sys.path.insert(0, REPO)


def import_impl():
    import qrcode, qrcode.util, qrcode.base, qrcode.main, qrcode.constants, qrcode.exceptions  # noqa
    assert os.path.realpath(qrcode.__file__).startswith(os.path.realpath(REPO)), qrcode.__file__
    return qrcode


def ask(lines, timeout=3600):
    """Send request lines to the native model/spec driver, return reply lines (same order)."""
    if not lines:
        return []
    p = subprocess.run([DRV], input=("\n".join(lines) + "\n").encode(), stdout=subprocess.PIPE,
                       stderr=subprocess.PIPE, timeout=timeout)
    if p.returncode != 0:
        raise RuntimeError(f"driver exited {p.returncode}: {p.stderr.decode()[:500]}")
    out = p.stdout.decode().split("\n")
    if out and out[-1] == "":
        out.pop()
    if len(out) != len(lines):
        raise RuntimeError(f"driver returned {len(out)} replies for {len(lines)} requests")
    return out


def ask_parallel(lines, jobs=None, chunk=2000):
    """Same as ask() but splits the batch over several driver processes."""
    from concurrent.futures import ThreadPoolExecutor
    jobs = jobs or min(16, os.cpu_count() or 4)
    if len(lines) <= chunk:
        return ask(lines)
    chunks = [lines[i:i + chunk] for i in range(0, len(lines), chunk)]
    with ThreadPoolExecutor(max_workers=jobs) as ex:
        res = list(ex.map(ask, chunks))
    return [r for c in res for r in c]


# ---- canonical encodings -------------------------------------------------------------------

def fmt_list(xs):
    xs = list(xs)
    return ",".join(str(int(x)) for x in xs) if xs else "-"


def fmt_segs(segs):
    """segs: iterable of (mode, bytes)"""
    segs = list(segs)
    return ";".join(f"{m}:{fmt_list(d)}" for m, d in segs) if segs else "-"


def fmt_blocks(bl):
    bl = list(bl)
    return ";".join(f"{a}:{b}" for a, b in bl) if bl else "-"


def fmt_mat(m):
    return "/".join("".join("." if c is None else ("1" if c else "0") for c in row) for row in m)


def parse_mat(s):
    return [[None if ch == "." else ch == "1" for ch in row] for row in s.split("/")]


ERRMAP = {
    "DataOverflowError": "DataOverflowError", "ValueError": "ValueError", "TypeError": "TypeError",
    "OSError": "OSError", "IndexError": "IndexError", "KeyError": "KeyError",
}


def err_name(e):
    n = type(e).__name__
    if n in ERRMAP:
        return n
    for cls in type(e).__mro__:
        if cls.__name__ in ERRMAP:
            return cls.__name__
    return "Exception"


def run_impl(f):
    """Evaluate f() on the implementation and return the canonical reply string."""
    try:
        return "ok " + f()
    except RecursionError:
        return "err Exception"
    except Exception as e:  # noqa
        return "err " + err_name(e)


def sha(s):
    return hashlib.sha1(s.encode() if isinstance(s, str) else s).hexdigest()


class Counter:
    """Counts evaluations and distinct non-trivial cases (by hash of the canonical request)."""

    def __init__(self):
        self.evaluations = 0
        self.seen = set()
        self.dist = {}
        self.samples = []

    def add(self, key, nontrivial=True, tag=None, sample=None):
        self.evaluations += 1
        if nontrivial:
            self.seen.add(hashlib.md5(key.encode()).digest()[:8])
        if tag is not None:
            self.dist[tag] = self.dist.get(tag, 0) + 1
        if sample is not None and len(self.samples) < 6:
            self.samples.append(sample)

    @property
    def distinct(self):
        return len(self.seen)
