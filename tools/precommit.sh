#!/bin/bash
# build everything, audit forbidden tokens, validate MANIFEST and evidence before committing
set -e
cd "$(dirname "$0")/../lean"
(echo "import QR.Gen.Tables"; for f in QR/Model/*.lean QR/Spec/*.lean QR/Proofs/*.lean QR/Props/*.lean; do echo "import $(echo ${f%.lean} | tr / .)"; done) > QR.lean
/venv/bin/python ../tools/gen_tables.py > /dev/null; /venv/bin/python ../tools/translate.py > /dev/null; lake build QR qrdrv 2>&1 | tail -1
cd ..
# the Gen files of the pinned tree (the build above includes every Cxx_source_fingerprints theorem, so /repo IS the pinned tree)
if git -C /repo diff --quiet; then mkdir -p corpus/pinned_gen && cp lean/QR/Gen/Code.lean lean/QR/Gen/Tables.lean lean/QR/Gen/Fingerprints.lean corpus/pinned_gen/; fi
python3 tools/mkmanifest.py
python3-vt -c "
import json,jsonschema,glob
jsonschema.validate(json.load(open('MANIFEST.json')), json.load(open('/root/.vp/MANIFEST.schema.json')))
for f in glob.glob('evidence/*.json'): jsonschema.validate(json.load(open(f)), json.load(open('/root/.vp/EVIDENCE.schema.json')))
print('manifest + evidence valid')"
! grep -rnE "\b(sorry|admit|native_decide|bv_decide)\b" lean/QR --include=*.lean | grep -v "^\S*:\S*:\s*--" | grep -v "No \`sorry\`" | head
