#!/usr/bin/env python3
"""Build-coupling audit: a property's check must not break on an edit OUTSIDE the property's static slice.

`./check Cxx` builds QR.Props.Cxx; the build re-proves every bridge theorem in the import closure of that module against the
freshly translated Gen/Code.lean.  If the closure mentions a translated definition whose Python source lies outside Cxx's
slice, an edit there would break Cxx's build although neither its property nor its fingerprint obligation is concerned.
This tool lists, per property, the source functions reachable that way and not in the slice.  Exit 1 if there are any
(apart from the exemptions of corpus/coupling_allowed.json).  Usage: tools/check_coupling.py [Cxx ...]"""
import json, os, re, sys
VERIF = os.path.dirname(os.path.dirname(os.path.abspath(__file__)))
LEAN = os.path.join(VERIF, "lean")
GEN = os.path.join(LEAN, "QR", "Gen")


def closure(mod, seen):
    if mod in seen:
        return
    seen.add(mod)
    path = os.path.join(LEAN, *mod.split(".")) + ".lean"
    if not os.path.exists(path):
        return
    for m in re.findall(r"^import (QR\.(?:Proofs|Props)\.[A-Za-z0-9_]+)", open(path).read(), flags=re.M):
        closure(m, seen)


def main():
    defs = json.load(open(os.path.join(GEN, "code_defs.json")))
    srcs = json.load(open(os.path.join(GEN, "code_sources.json")))
    keys = json.load(open(os.path.join(GEN, "fingerprint_keys.json")))
    allkeys = sorted({k for ks in keys.values() for k in ks})
    allowed = {}
    ap = os.path.join(VERIF, "corpus", "coupling_allowed.json")
    if os.path.exists(ap):
        allowed = json.load(open(ap))
    frag_of = {d: f for f, ds in defs.items() for d in ds}
    names = sorted(frag_of, key=len, reverse=True)
    rx = re.compile(r"(?<![A-Za-z0-9_.'])(?:QR\.)?(?:Gen\.)?(?:Code\.)?(" + "|".join(re.escape(n) for n in names) + r")(?![A-Za-z0-9_'])")
    props = [a for a in sys.argv[1:] if re.match(r"C\d\d$", a)] or sorted(keys)
    bad = 0
    for p in props:
        mods = set(); closure("QR.Props." + p, mods)
        sl = set(keys[p])
        out = {}
        for m in sorted(mods):
            path = os.path.join(LEAN, *m.split(".")) + ".lean"
            if not os.path.exists(path):
                continue
            txt = re.sub(r"/-.*?-/", "", open(path).read(), flags=re.S)
            txt = re.sub(r"--[^\n]*", "", txt)
            for nm in set(rx.findall(txt)):
                for q in srcs.get(frag_of[nm], []):
                    ks = [k for k in allkeys if k.endswith(":" + q) or (":" + q + ".") in k]
                    # a looked-up class stands for its methods
                    hit = [k for k in ks if k in sl]
                    if ks and not hit:
                        out.setdefault(ks[0], set()).add(f"{m.split('.')[-1]}:{nm}")
        out = {k: v for k, v in out.items() if k not in allowed.get(p, [])}
        if out:
            bad += 1
            print(p, "build depends on source outside its slice:")
            for k, v in sorted(out.items()):
                print("    ", k, "<-", ", ".join(sorted(v))[:160])
        else:
            print(p, "ok (", len(mods), "modules )")
    sys.exit(1 if bad else 0)


if __name__ == "__main__":
    main()
