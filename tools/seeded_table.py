#!/usr/bin/env python3
"""Markdown table of a seeded round from seeded/*/meta.json.  Usage: tools/seeded_table.py <round>"""
import json, os, sys, glob
VERIF = os.path.dirname(os.path.dirname(os.path.abspath(__file__)))
rnd = int(sys.argv[1])
rows = []
for d in sorted(glob.glob(os.path.join(VERIF, "seeded", "*")), key=lambda p: (os.path.basename(p).split("-")[0], int(os.path.basename(p).split("-")[1]))):
    m = json.load(open(os.path.join(d, "meta.json")))
    if m.get("round") != rnd:
        continue
    c = m.get("caught_by", {})
    what = " ".join(m.get("needs_to_manifest", "").split())[:240].replace("|", "/")
    kind = "caught (failing-input)" if c.get("with_failing_input") else ("caught (proof-broken, no-failing-input-found)" if c.get("result") == "caught" else str(c.get("result")))
    obs = " ".join(str(c.get("observed") or "").split())[:150].replace("|", "/")
    rows.append(f"| {m['id']} | {what} | {kind} | {obs} |")
print("| id | change (as described by its author) | quick check of its property | what the check reported |\n|---|---|---|---|")
print("\n".join(rows))
