#!/bin/bash
# usage: cross_sweep.sh k id...  : apply each seeded change in sandbox k, run ALL 20 quick checks, print one line per (id, property)
k=$1; shift
rsync -a --exclude .git --exclude replays --exclude 'lean/.lake' --exclude evidence --exclude 'lean/QR/Gen' --exclude lean_pinned /verif/ /tmp/sweep/$k/verif/
cd /tmp/sweep/$k/verif
for id in "$@"; do
  git -C /tmp/sweep/$k/repo checkout -- . ; git -C /tmp/sweep/$k/repo apply /verif/seeded/$id/patch.diff || { echo "$id patch-fails"; continue; }
  for P in C01 C02 C03 C04 C05 C06 C07 C08 C09 C10 C11 C12 C13 C14 C15 C16 C17 C18 C19 C20; do
    s=$(date +%s); out=$(VERIF_REPO=/tmp/sweep/$k/repo ./check $P --tier quick 2>&1); rc=$?
    v=$(echo "$out" | grep -E '^(VIOLATION|INFRA)' | head -1 | cut -c1-120)
    fb=$(echo "$out" | grep -c "re-checked against the pinned Gen")
    ch=$(echo "$out" | grep -o "source differs from the pinned tree in [^:]*" | cut -c1-100)
    echo "$id $P rc=$rc $(( $(date +%s)-s ))s fallback=$fb | $v | $ch"
  done
  git -C /tmp/sweep/$k/repo checkout -- .
done
