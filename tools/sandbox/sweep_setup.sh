#!/bin/bash
# usage: sweep_setup.sh k  -> /tmp/sweep/k/{verif,repo}
k=$1; mkdir -p /tmp/sweep/$k; rm -rf /tmp/sweep/$k/verif
git -C /repo worktree remove --force /tmp/sweep/$k/repo 2>/dev/null
git -C /repo worktree add -q --detach /tmp/sweep/$k/repo HEAD
rsync -a --exclude .git --exclude replays /verif/ /tmp/sweep/$k/verif/
mkdir -p /tmp/sweep/$k/verif/replays
