#!/bin/bash
# usage: sweep_one.sh k id...   (syncs /verif tools+lean sources into IDLE sandbox k, runs run_seeded there, copies meta back)
k=$1; shift
busy=0; for p in $(pgrep -f "python3 tools/run_seeded.py"); do [ "$(readlink /proc/$p/cwd)" = "/tmp/sweep/$k/verif" ] && busy=1; done
if [ $busy = 1 ] || [ -n "$(git -C /tmp/sweep/$k/repo status --porcelain)" ]; then echo "sandbox $k busy"; exit 3; fi
rsync -a --exclude .git --exclude replays --exclude 'lean/.lake' --exclude evidence --exclude 'lean/QR/Gen' /verif/ /tmp/sweep/$k/verif/
cd /tmp/sweep/$k/verif && VERIF_REPO=/tmp/sweep/$k/repo python3 tools/run_seeded.py "$@"
for i in "$@"; do cp /tmp/sweep/$k/verif/seeded/$i/meta.json /verif/seeded/$i/meta.json; done
