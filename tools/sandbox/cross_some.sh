#!/bin/bash
# usage: cross_some.sh k id P...   apply one seeded change, run the listed checks
k=$1; id=$2; shift; shift
rsync -a --exclude .git --exclude replays --exclude 'lean/.lake' --exclude evidence --exclude 'lean/QR/Gen' --exclude lean_pinned /verif/ /tmp/sweep/$k/verif/
cd /tmp/sweep/$k/verif
git -C /tmp/sweep/$k/repo checkout -- . ; git -C /tmp/sweep/$k/repo apply /verif/seeded/$id/patch.diff
for P in "$@"; do
  s=$(date +%s); out=$(VERIF_REPO=/tmp/sweep/$k/repo ./check $P --tier quick 2>&1); rc=$?
  v=$(echo "$out" | grep -E '^(VIOLATION|INFRA)' | head -1 | cut -c1-120); fb=$(echo "$out" | grep -c "re-checked against the pinned Gen")
  ch=$(echo "$out" | grep -o "source differs from the pinned tree in [^:]*" | cut -c1-100)
  echo "$id $P rc=$rc $(( $(date +%s)-s ))s fallback=$fb | $v | $ch"
done
git -C /tmp/sweep/$k/repo checkout -- .
