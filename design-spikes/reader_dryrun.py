# throwaway independent reader (dry run of the Spec reader), strict
ECC={'L':[7,10,15,20,26,18,20,24,30,18,20,24,26,30,22,24,28,30,28,28,28,28,30,30,26,28,30,30,30,30,30,30,30,30,30,30,30,30,30,30],
'M':[10,16,26,18,24,16,18,22,22,26,30,22,22,24,24,28,28,26,26,26,26,28,28,28,28,28,28,28,28,28,28,28,28,28,28,28,28,28,28,28],
'Q':[13,22,18,26,18,24,18,22,20,24,28,26,24,20,30,24,28,28,26,30,28,30,30,30,30,28,30,30,30,30,30,30,30,30,30,30,30,30,30,30],
'H':[17,28,22,16,22,28,26,26,24,28,24,28,22,24,24,30,28,28,26,28,30,24,30,30,30,30,30,30,30,30,30,30,30,30,30,30,30,30,30,30]}
NB={'L':[1,1,1,1,1,2,2,2,2,4,4,4,4,4,6,6,6,6,7,8,8,9,9,10,12,12,12,13,14,15,16,17,18,19,19,20,21,22,24,25],
'M':[1,1,1,2,2,4,4,4,5,5,5,8,9,9,10,10,11,13,14,16,17,17,18,20,21,23,25,26,28,29,31,33,35,37,38,40,43,45,47,49],
'Q':[1,1,2,2,4,4,6,6,8,8,8,10,12,16,12,17,16,18,21,20,23,23,25,27,29,34,34,35,38,40,43,45,48,51,53,56,59,62,65,68],
'H':[1,1,2,4,4,4,5,6,8,8,11,11,16,16,18,16,19,21,25,25,25,34,30,32,35,37,40,42,45,48,51,54,57,60,63,66,70,74,77,81]}
def gmul(a,b):
    r=0
    while b:
        if b&1: r^=a
        a<<=1
        if a&256: a^=0x11D
        b>>=1
    return r
def align(v):
    if v==1: return []
    n=v//7+2; step=26 if v==32 else ((v*4+n*2+1)//(n*2-2))*2
    return [6]+sorted(v*4+10-i*step for i in range(n-1))
def is_function(v,r,c):
    n=17+4*v
    if (r<9 and c<9) or (r<9 and c>=n-8) or (r>=n-8 and c<9): return True
    if r==6 or c==6: return True
    al=align(v)
    for a in al:
        for b in al:
            if (a,b) in ((6,6),(6,n-7),(n-7,6)): continue
            if abs(r-a)<=2 and abs(c-b)<=2: return True
    if v>=7 and ((r<6 and n-11<=c<n-8) or (c<6 and n-11<=r<n-8)): return True
    return False
MASK=[lambda i,j:(i+j)%2==0, lambda i,j:i%2==0, lambda i,j:j%3==0, lambda i,j:(i+j)%3==0, lambda i,j:(i//2+j//3)%2==0,
      lambda i,j:(i*j)%2+(i*j)%3==0, lambda i,j:((i*j)%2+(i*j)%3)%2==0, lambda i,j:((i+j)%2+(i*j)%3)%2==0]
def bch(data,gen,glen,shift):
    d=data<<shift
    for i in range(data.bit_length()+shift-1, shift-1, -1):
        if d>>i&1: d^=gen<<(i-shift)
    return (data<<shift)|d
FMT={ (bch(d,0x537,11,10)^0x5412):d for d in range(32)}
def read(m):
    n=len(m); assert all(len(r)==n for r in m); v=(n-17)//4; assert 17+4*v==n and 1<=v<=40
    assert all(x is True or x is False for r in m for x in r), "non-bool"
    f1pos=[(8,0),(8,1),(8,2),(8,3),(8,4),(8,5),(8,7),(8,8),(7,8),(5,8),(4,8),(3,8),(2,8),(1,8),(0,8)]  # bit14..bit0
    f2pos=[(n-1,8),(n-2,8),(n-3,8),(n-4,8),(n-5,8),(n-6,8),(n-7,8),(8,n-8),(8,n-7),(8,n-6),(8,n-5),(8,n-4),(8,n-3),(8,n-2),(8,n-1)]
    w1=int(''.join('1' if m[r][c] else '0' for r,c in f1pos),2); w2=int(''.join('1' if m[r][c] else '0' for r,c in f2pos),2)
    assert w1==w2 and w1 in FMT, ("format",bin(w1),bin(w2)); d=FMT[w1]; lvl={1:'L',0:'M',3:'Q',2:'H'}[d>>3]; mask=d&7
    assert m[n-8][8] is True, "dark module"
    if v>=7:
        vw=bch(v,0x1F25,13,12)
        for i in range(18):
            b=bool(vw>>i&1); assert m[i//3][n-11+i%3]==b and m[n-11+i%3][i//3]==b, "version info"
    bits=[]; col=n-1; up=True
    while col>0:
        if col==6: col-=1
        rows=range(n-1,-1,-1) if up else range(n)
        for r in rows:
            for c in (col,col-1):
                if not is_function(v,r,c): bits.append(bool(m[r][c])^MASK[mask](r,c))
        up=not up; col-=2
    raw=len(bits)//8; rem=len(bits)%8; assert not any(bits[raw*8:]), "remainder bits"
    cw=[int(''.join('1' if b else '0' for b in bits[i*8:i*8+8]),2) for i in range(raw)]
    nb=NB[lvl][v-1]; ecc=ECC[lvl][v-1]; short=raw//nb; nlong=raw%nb
    lens=[short-ecc]*(nb-nlong)+[short+1-ecc]*nlong
    blocks=[[] for _ in range(nb)]; k=0
    for i in range(max(lens)):
        for b in range(nb):
            if i<lens[b]: blocks[b].append(cw[k]); k+=1
    ecs=[[] for _ in range(nb)]
    for i in range(ecc):
        for b in range(nb): ecs[b].append(cw[k]); k+=1
    assert k==raw
    for b in range(nb):
        full=blocks[b]+ecs[b]
        for i in range(ecc):
            x=1
            for _ in range(i): x=gmul(x,2)
            acc=0
            for cwd in full: acc=gmul(acc,x)^cwd
            assert acc==0, ("syndrome",b,i)
    data=[x for b in blocks for x in b]
    sb=''.join(format(x,'08b') for x in data); p=0; out=bytearray(); segs=[]
    cls=0 if v<10 else 1 if v<27 else 2
    W={1:[10,12,14],2:[9,11,13],4:[8,16,16]}
    AL=b"0123456789ABCDEFGHIJKLMNOPQRSTUVWXYZ $%*+-./:"
    while len(sb)-p>=4:
        mode=int(sb[p:p+4],2); p+=4
        if mode==0: break
        assert mode in W, ("mode",mode); w=W[mode][cls]; cnt=int(sb[p:p+w],2); p+=w
        seg=bytearray()
        if mode==1:
            i=0
            while i<cnt:
                k_=min(3,cnt-i); bl={3:10,2:7,1:4}[k_]; val=int(sb[p:p+bl],2); p+=bl; assert val<10**k_; seg+=str(val).zfill(k_).encode(); i+=k_
        elif mode==2:
            i=0
            while i<cnt:
                if cnt-i>=2: val=int(sb[p:p+11],2); p+=11; assert val<45*45; seg+=bytes([AL[val//45],AL[val%45]]); i+=2
                else: val=int(sb[p:p+6],2); p+=6; assert val<45; seg+=bytes([AL[val]]); i+=1
        else:
            for _ in range(cnt): seg.append(int(sb[p:p+8],2)); p+=8
        assert p<=len(sb); segs.append((mode,bytes(seg))); out+=seg
    # padding conformance
    rest=sb[p:]
    z=len(rest)%8; assert rest[:z].strip('0')=="" , "bit padding"
    pads=rest[z:]; exp=''.join(['11101100','00010001'][i%2] for i in range(len(pads)//8)); assert pads==exp, ("pad",pads[:32])
    return v,lvl,mask,bytes(out),segs
