import qrcode, random
from qrcode import constants, exceptions, util, base
from reader import ECC, NB, read
import pen
L={'L':constants.ERROR_CORRECT_L,'M':constants.ERROR_CORRECT_M,'Q':constants.ERROR_CORRECT_Q,'H':constants.ERROR_CORRECT_H}
def raw_modules(v):
    r=(16*v+128)*v+64
    if v>=2:
        na=v//7+2; r-=(25*na-10)*na-55
        if v>=7: r-=36
    return r
def capbits(v,l): return 8*(raw_modules(v)//8 - ECC[l][v-1]*NB[l][v-1])
def cls(v): return 0 if v<10 else 1 if v<27 else 2
def cap_chars(v,l,mode):
    b=capbits(v,l)-4-{1:[10,12,14],2:[9,11,13],4:[8,16,16]}[mode][cls(v)]
    if mode==4: return b//8
    if mode==2: return 2*(b//11)+(1 if b%11>=6 else 0)
    return 3*(b//10)+(2 if b%10>=7 else 1 if b%10>=4 else 0)
print(cap_chars(40,'L',1),cap_chars(40,'L',2),cap_chars(40,'L',4),cap_chars(1,'H',1),cap_chars(1,'H',2),cap_chars(1,'H',4),cap_chars(10,'L',1),cap_chars(40,'H',4))
bad=0; n=0
ch={1:b"7",2:b"A",4:b"a"}
for v in range(1,41):
    for l in 'LMQH':
        for mode in (1,2,4):
            c=cap_chars(v,l,mode)
            for k,(ln) in enumerate((c-1,c,c+1)):
                q=qrcode.QRCode(error_correction=L[l],mask_pattern=0); q.add_data(ch[mode]*ln,optimize=0)
                try:
                    q.make(); got=q.version
                except exceptions.DataOverflowError: got='ovf'
                except ValueError as e: got='VE'
                exp = v if k<2 else (v+1 if v<40 else 'ovf')
                # c-1 might fit smaller version if capacities equal? capacities strictly increase so c-1 > cap(v-1) unless c-1<=cap(v-1)
                if k==0 and v>1 and ln<=cap_chars(v-1,l,mode): exp=None
                n+=1
                if exp is not None and got!=exp: bad+=1; print("C07",v,l,mode,ln,"got",got,"exp",exp)
print("boundaries",n,"bad",bad)
# C09: mask argmin vs spec
rng=random.Random(3); badm=0
for t in range(60):
    p=bytes(rng.randrange(32,127) for _ in range(rng.randint(1,60))); l=rng.choice('LMQH')
    q=qrcode.QRCode(error_correction=L[l]); q.add_data(p); q.make()
    v,lv,m,out,_=read(q.modules)
    scores=[]
    for i in range(8):
        q.makeImpl(True,i); M=[[bool(x) for x in r] for r in q.modules]
        scores.append(pen.n1(M)+pen.n2(M)+pen.n3(M)+pen.n4(M))
    exp=min(range(8),key=lambda i:(scores[i],i))
    if exp!=m: badm+=1; print("C09",p,l,m,exp,scores)
print("mask checks bad",badm)
