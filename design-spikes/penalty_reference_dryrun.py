import random, itertools
from qrcode import util
def n1(m):
    n=len(m); s=0
    def line(l):
        t=0; i=0
        while i<len(l):
            j=i
            while j<len(l) and l[j]==l[i]: j+=1
            if j-i>=5: t+=j-i-2
            i=j
        return t
    for r in m: s+=line(r)
    for c in range(n): s+=line([m[r][c] for r in range(n)])
    return s
def n2(m):
    n=len(m); return 3*sum(1 for r in range(n-1) for c in range(n-1) if m[r][c]==m[r][c+1]==m[r+1][c]==m[r+1][c+1])
P1=[1,0,1,1,1,0,1,0,0,0,0]; P2=[0,0,0,0,1,0,1,1,1,0,1]
def n3(m):
    n=len(m); s=0
    def line(l):
        l=[int(bool(x)) for x in l]
        return sum(40 for k in range(len(l)-10) if l[k:k+11] in (P1,P2))
    for r in m: s+=line(r)
    for c in range(n): s+=line([m[r][c] for r in range(n)])
    return s
def n4(m):
    n=len(m); d=sum(map(sum,m)); return 10*(abs(20*d-10*n*n)//(n*n))
