import Mathlib.Tactic.Ring
import Mathlib.Algebra.Ring.Basic

variable {F : Type} [CommRing F]

/-- Horner evaluation, highest-order coefficient first (as in qrcode.base.Polynomial). -/
def peval (r : F) (p : List F) : F := p.foldl (fun acc a => acc * r + a) 0

theorem foldl_horner (r : F) (p : List F) (acc : F) :
    p.foldl (fun acc a => acc * r + a) acc = acc * r ^ p.length + peval r p := by
  induction p generalizing acc with
  | nil => simp [peval]
  | cons a t ih =>
    simp only [List.foldl_cons, List.length_cons, peval]
    rw [ih, ih (0 * r + a)]; ring

theorem peval_cons (r a : F) (t : List F) : peval r (a :: t) = a * r ^ t.length + peval r t := by
  simp only [peval, List.foldl_cons]; rw [foldl_horner]; simp [peval]

theorem peval_append (r : F) (p q : List F) : peval r (p ++ q) = peval r p * r ^ q.length + peval r q := by
  simp only [peval, List.foldl_append]; rw [foldl_horner]; rfl

/-- one elimination step against the monic divisor `1 :: gt`: subtract `a * gt` from the front of `pt`. -/
def subStep (a : F) : List F → List F → List F
  | [], pt => pt
  | _ :: _, [] => []
  | y :: gt, x :: pt => (x - a * y) :: subStep a gt pt

theorem subStep_length (a : F) (gt pt : List F) : (subStep a gt pt).length = pt.length := by
  induction gt generalizing pt with
  | nil => simp [subStep]
  | cons y gt ih => cases pt with
    | nil => simp [subStep]
    | cons x pt => simp [subStep, ih]

theorem peval_subStep (r a : F) (gt pt : List F) (h : gt.length ≤ pt.length) :
    peval r (subStep a gt pt) = peval r pt - a * r ^ (pt.length - gt.length) * peval r gt := by
  induction gt generalizing pt with
  | nil => simp [subStep, peval]
  | cons y gt ih => cases pt with
    | nil => simp at h
    | cons x pt =>
      simp only [List.length_cons, Nat.add_le_add_iff_right] at h
      simp only [subStep, peval_cons, subStep_length, ih pt h, List.length_cons, Nat.add_sub_add_right]
      have : r ^ pt.length = r ^ (pt.length - gt.length) * r ^ gt.length := by
        rw [← pow_add]; congr 1; omega
      rw [this]; ring

/-- long division by the monic `1 :: gt`; returns the remainder with exactly `min p.length gt.length` coefficients -/
def pmod (gt : List F) : List F → List F
  | [] => []
  | a :: pt => if pt.length < gt.length then a :: pt else pmod gt (subStep a gt pt)
termination_by p => p.length
decreasing_by simp [subStep_length]

/-- the division invariant: remainders agree with the dividend at every root of the divisor -/
theorem peval_pmod (r : F) (gt : List F) (hroot : peval r (1 :: gt) = 0) (p : List F) :
    peval r (pmod gt p) = peval r p := by
  induction p using pmod.induct (gt := gt) with
  | case1 => simp [pmod]
  | case2 a pt h => rw [pmod]; simp [h]
  | case3 a pt h ih =>
    rw [pmod]; simp only [h, if_false]
    rw [ih, peval_subStep r a gt pt (by omega), peval_cons]
    rw [peval_cons] at hroot
    have : peval r gt = - r ^ gt.length := by
      have := hroot; rw [one_mul] at this; exact eq_neg_of_add_eq_zero_right this
    rw [this]
    have : r ^ pt.length = r ^ (pt.length - gt.length) * r ^ gt.length := by
      rw [← pow_add]; congr 1; omega
    rw [this]; ring

/-- codeword: data · x^e − remainder vanishes at every root of g -/
theorem codeword_root (r : F) (gt : List F) (hroot : peval r (1 :: gt) = 0) (data : List F) :
    let raw := data ++ List.replicate gt.length 0
    peval r raw - peval r (pmod gt raw) = 0 := by
  intro raw; rw [peval_pmod r gt hroot]; ring
#print axioms codeword_root
