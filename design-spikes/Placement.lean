namespace Place
abbrev Pos := Nat × Nat
abbrev Mat := Pos → Option Bool
def write (m : Mat) (p : Pos) (b : Bool) : Mat := fun q => if q = p then some b else m q

/-- model of map_data: walk the traversal, fill cells that are still `none`, pad with `false` when bits run out -/
def place (mask : Pos → Bool) : List Pos → List Bool → Mat → Mat
  | [], _, m => m
  | p :: ps, bits, m =>
    match m p with
    | some _ => place mask ps bits m
    | none => place mask ps bits.tail (write m p (xor (bits.headD false) (mask p)))

/-- reader: same traversal, cells selected by an independent `free` predicate -/
def readBack (mask : Pos → Bool) (free : Pos → Bool) (m : Mat) : List Pos → List Bool
  | [] => []
  | p :: ps => if free p then xor ((m p).getD false) (mask p) :: readBack mask free m ps
               else readBack mask free m ps

theorem place_other (mask) (ps : List Pos) (bits) (m : Mat) (q : Pos) (hq : q ∉ ps) :
    place mask ps bits m q = m q := by
  induction ps generalizing bits m with
  | nil => rfl
  | cons p ps ih =>
    simp only [List.mem_cons, not_or] at hq
    cases hm : m p with
    | some v => simp only [place, hm]; exact ih _ _ hq.2
    | none => simp only [place, hm]; rw [ih _ _ hq.2]; simp [write, hq.1]

theorem place_keeps_some (mask) (ps : List Pos) (bits) (m : Mat) (q : Pos) (b : Bool) (hq : m q = some b) :
    place mask ps bits m q = some b := by
  induction ps generalizing bits m with
  | nil => exact hq
  | cons p ps ih =>
    cases hm : m p with
    | some v => simp only [place, hm]; exact ih _ _ hq
    | none =>
      simp only [place, hm]
      apply ih
      have : q ≠ p := fun e => by subst e; rw [hq] at hm; cases hm
      simp [write, this, hq]

/-- expected read-back: the first `k` bits, padded with `false` -/
def padTake : Nat → List Bool → List Bool
  | 0, _ => []
  | k+1, bits => bits.headD false :: padTake k bits.tail

theorem read_place (mask) (free : Pos → Bool) (ps : List Pos) (hnd : ps.Nodup) (bits : List Bool) (m : Mat)
    (hfree : ∀ q ∈ ps, free q = true ↔ m q = none) :
    readBack mask free (place mask ps bits m) ps = padTake (ps.countP free) bits := by
  induction ps generalizing bits m with
  | nil => rfl
  | cons p ps ih =>
    have hp : p ∉ ps := (List.nodup_cons.mp hnd).1
    have hnd' := (List.nodup_cons.mp hnd).2
    cases hm : m p with
    | some b =>
      have hf : free p = false := by
        have := hfree p (List.mem_cons_self ..); rw [hm] at this; simpa using this
      simp only [readBack, hf, List.countP_cons, place, hm]
      simpa using ih hnd' bits m (fun q hq => hfree q (List.mem_cons_of_mem _ hq))
    | none =>
      have hf : free p = true := (hfree p (List.mem_cons_self ..)).mpr hm
      simp only [readBack, hf, if_true, List.countP_cons, place, hm]
      rw [place_other mask ps _ _ p hp]
      simp only [write, if_true, Option.getD_some, Bool.xor_assoc, Bool.xor_self, Bool.xor_false, padTake]
      congr 1
      apply ih hnd'
      intro q hq
      have : q ≠ p := fun e => hp (e ▸ hq)
      simp [write, this, hfree q (List.mem_cons_of_mem _ hq)]
#print axioms read_place
end Place
