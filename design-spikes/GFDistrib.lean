namespace GF
def xtime (a : Nat) : Nat := if a ≥ 128 then (2 * a - 256) ^^^ 29 else 2 * a
def mulAux : Nat → Nat → Nat → Nat
  | 0, _, _ => 0
  | n+1, a, b => (if b % 2 = 1 then a else 0) ^^^ mulAux n (xtime a) (b / 2)
def mul (a b : Nat) : Nat := mulAux 8 a b

/-- right distributivity of the carry-less product over xor: structural, no enumeration -/
theorem mulAux_xor_right (n a b c : Nat) : mulAux n a (b ^^^ c) = mulAux n a b ^^^ mulAux n a c := by
  induction n generalizing a b c with
  | zero => simp [mulAux]
  | succ n ih =>
    simp only [mulAux, Nat.xor_div_two, ih]
    by_cases hb : b % 2 = 1 <;> by_cases hc : c % 2 = 1 <;>
      simp only [Nat.xor_mod_two_eq_one, hb, hc, if_true, if_false, not_true, not_false_iff, iff_true, iff_false, Nat.zero_xor] <;>
      first | ac_rfl | (rw [show ∀ x y : Nat, a ^^^ x ^^^ (a ^^^ y) = x ^^^ y from fun x y => by
                  rw [Nat.xor_assoc, ← Nat.xor_assoc x, Nat.xor_comm x a, Nat.xor_assoc a x, ← Nat.xor_assoc a a, Nat.xor_self, Nat.zero_xor]])
theorem mul_xor_right (a b c : Nat) : mul a (b ^^^ c) = mul a b ^^^ mul a c := mulAux_xor_right 8 a b c

-- the two 65 536-case kernel facts (≈ 50 s and ≈ 90 s); kept out of the default spike run
-- set_option maxRecDepth 100000 in set_option maxHeartbeats 4000000 in
-- theorem xtime_xor : ∀ a < 256, ∀ b < 256, xtime (a ^^^ b) = xtime a ^^^ xtime b := by decide +kernel
-- theorem mul_comm' : ∀ a < 256, ∀ b < 256, mul a b = mul b a := by decide +kernel
#print axioms mul_xor_right
end GF
