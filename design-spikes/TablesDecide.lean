-- needs a Gen.lean dumped from /repo (see DESIGN §2.3); kept as the shape of the table theorems
import Gen
namespace Spec
def eccPerBlock : List (List Nat) := [
 [7,10,15,20,26,18,20,24,30,18,20,24,26,30,22,24,28,30,28,28,28,28,30,30,26,28,30,30,30,30,30,30,30,30,30,30,30,30,30,30],
 [10,16,26,18,24,16,18,22,22,26,30,22,22,24,24,28,28,26,26,26,26,28,28,28,28,28,28,28,28,28,28,28,28,28,28,28,28,28,28,28],
 [13,22,18,26,18,24,18,22,20,24,28,26,24,20,30,24,28,28,26,30,28,30,30,30,30,28,30,30,30,30,30,30,30,30,30,30,30,30,30,30],
 [17,28,22,16,22,28,26,26,24,28,24,28,22,24,24,30,28,28,26,28,30,24,30,30,30,30,30,30,30,30,30,30,30,30,30,30,30,30,30,30]]
def numBlocks : List (List Nat) := [
 [1,1,1,1,1,2,2,2,2,4,4,4,4,4,6,6,6,6,7,8,8,9,9,10,12,12,12,13,14,15,16,17,18,19,19,20,21,22,24,25],
 [1,1,1,2,2,4,4,4,5,5,5,8,9,9,10,10,11,13,14,16,17,17,18,20,21,23,25,26,28,29,31,33,35,37,38,40,43,45,47,49],
 [1,1,2,2,4,4,6,6,8,8,8,10,12,16,12,17,16,18,21,20,23,23,25,27,29,34,34,35,38,40,43,45,48,51,53,56,59,62,65,68],
 [1,1,2,4,4,4,5,6,8,8,11,11,16,16,18,16,19,21,25,25,25,34,30,32,35,37,40,42,45,48,51,54,57,60,63,66,70,74,77,81]]
def rawModules (v : Nat) : Nat :=
  let r := (16*v+128)*v+64
  if v ≥ 2 then
    let na := v/7+2
    let r := r - ((25*na-10)*na-55)
    if v ≥ 7 then r - 36 else r
  else r
-- lvl index: 0=L 1=M 2=Q 3=H ; blocks as (total, data) list, short blocks first
def isoBlocks (v lvl : Nat) : List (Nat × Nat) :=
  let raw := rawModules v / 8
  let nb := (numBlocks.getD lvl []).getD (v-1) 0
  let ecc := (eccPerBlock.getD lvl []).getD (v-1) 0
  let short := raw / nb
  let nlong := raw % nb
  List.replicate (nb - nlong) (short, short - ecc) ++ List.replicate nlong (short+1, short+1-ecc)

def gfmulAux : Nat → Nat → Nat → Nat
  | 0, _, _ => 0
  | n+1, a, b => (if b % 2 = 1 then a else 0) ^^^ gfmulAux n (if a ≥ 128 then (2*a-256) ^^^ 29 else 2*a) (b/2)
def gfmul (a b : Nat) := gfmulAux 8 a b
def gfpow (a : Nat) : Nat → Nat | 0 => 1 | n+1 => gfmul (gfpow a n) a
def peval (r : Nat) (p : List Nat) : Nat := p.foldl (fun acc a => gfmul acc r ^^^ a) 0
end Spec
namespace Model
def expand : List Nat → List (Nat × Nat)
  | c :: t :: d :: rest => List.replicate c (t, d) ++ expand rest
  | _ => []
-- level code → offset via Gen.RS_BLOCK_OFFSET (L=1→0, M=0→1, Q=3→2, H=2→3)
def rsBlocks (v off : Nat) : List (Nat × Nat) := expand (Gen.RS_BLOCK_TABLE.getD ((v-1)*4+off) [])
end Model
def allLt (n : Nat) (p : Nat → Bool) : Bool := match n with | 0 => true | k+1 => p k && allLt k p

set_option maxRecDepth 100000 in
theorem rsBlocks_eq_iso : allLt 40 (fun v => allLt 4 (fun l => Model.rsBlocks (v+1) l == Spec.isoBlocks (v+1) l)) = true := by decide +kernel

set_option maxRecDepth 100000 in
theorem exp_table : allLt 255 (fun i => Gen.EXP_TABLE.getD i 0 == Spec.gfpow 2 i) = true := by decide +kernel

set_option maxRecDepth 100000 in
set_option maxHeartbeats 2000000 in
theorem genpoly_roots : Gen.rsPoly_LUT.all (fun (e, g) => g.length == e + 1 && g.headD 0 == 1 && g.all (· != 0) &&
    allLt e (fun i => Spec.peval (Spec.gfpow 2 i) g == 0)) = true := by decide +kernel
#print axioms rsBlocks_eq_iso
#print axioms genpoly_roots
