namespace Pen3
def cond (a0 a1 a2 a3 a4 a5 a6 a7 a8 a9 a10 : Bool) : Bool :=
  !a1 && a4 && !a5 && a6 && !a9 &&
    ((a0 && a2 && a3 && !a7 && !a8 && !a10) || (!a0 && !a2 && !a3 && a7 && a8 && a10))

def scan : List Bool → Nat
  | a0::a1::a2::a3::a4::a5::a6::a7::a8::a9::a10::t =>
    (if cond a0 a1 a2 a3 a4 a5 a6 a7 a8 a9 a10 then 40 else 0) +
      (if a10 then scan (a2::a3::a4::a5::a6::a7::a8::a9::a10::t)
       else scan (a1::a2::a3::a4::a5::a6::a7::a8::a9::a10::t))
  | _ => 0
termination_by l => l.length

def pat1 : List Bool := [true,false,true,true,true,false,true,false,false,false,false]
def pat2 : List Bool := [false,false,false,false,true,false,true,true,true,false,true]
def isHit (w : List Bool) : Bool := w.take 11 == pat1 || w.take 11 == pat2
def count : List Bool → Nat
  | [] => 0
  | x :: t => (if isHit (x :: t) then 40 else 0) + count t

theorem isHit_short (l : List Bool) (h : l.length < 11) : isHit l = false := by
  unfold isHit
  have h1 : (l.take 11).length < 11 := by simp [List.length_take]; omega
  have e1 : l.take 11 ≠ pat1 := fun e => by rw [e] at h1; simp [pat1] at h1
  have e2 : l.take 11 ≠ pat2 := fun e => by rw [e] at h1; simp [pat2] at h1
  simp [e1, e2]

theorem count_short (l : List Bool) (h : l.length < 11) : count l = 0 := by
  induction l with
  | nil => rfl
  | cons x t ih =>
    simp only [List.length_cons] at h
    simp [count, isHit_short (x :: t) (by simpa using h), ih (by omega)]

theorem cond_eq : ∀ a0 a1 a2 a3 a4 a5 a6 a7 a8 a9 a10 : Bool,
    (([a0,a1,a2,a3,a4,a5,a6,a7,a8,a9,a10] == pat1) || ([a0,a1,a2,a3,a4,a5,a6,a7,a8,a9,a10] == pat2))
      = cond a0 a1 a2 a3 a4 a5 a6 a7 a8 a9 a10 := by decide

theorem isHit_cons11 (a0 a1 a2 a3 a4 a5 a6 a7 a8 a9 a10 : Bool) (t : List Bool) :
    isHit (a0::a1::a2::a3::a4::a5::a6::a7::a8::a9::a10::t) = cond a0 a1 a2 a3 a4 a5 a6 a7 a8 a9 a10 := by
  rw [← cond_eq]; simp [isHit, List.take]

theorem skip_sound : ∀ a1 a2 a3 a4 a5 a6 a7 a8 a9 a11 : Bool,
    cond a1 a2 a3 a4 a5 a6 a7 a8 a9 true a11 = false := by decide

theorem isHit_after_dark (a1 a2 a3 a4 a5 a6 a7 a8 a9 : Bool) (t : List Bool) :
    isHit (a1::a2::a3::a4::a5::a6::a7::a8::a9::true::t) = false := by
  cases t with
  | nil => exact isHit_short _ (by simp)
  | cons a11 t => rw [isHit_cons11, skip_sound]

theorem scan_eq_count (l : List Bool) : scan l = count l := by
  induction l using scan.induct with
  | case1 a0 a1 a2 a3 a4 a5 a6 a7 a8 a9 a10 t ih1 ih2 =>
    rw [scan, count, isHit_cons11]
    cases a10 with
    | true =>
      have hc : count (a1::a2::a3::a4::a5::a6::a7::a8::a9::true::t) = count (a2::a3::a4::a5::a6::a7::a8::a9::true::t) := by
        rw [count, isHit_after_dark]; simp
      simp only [if_true]; rw [ih1, hc]
    | false => simp only [Bool.false_eq_true, if_false]; rw [ih2]
  | case2 l h =>
    rw [scan]
    · apply (count_short l _).symm
      match l, h with
      | [], _ | [_], _ | [_,_], _ | [_,_,_], _ | [_,_,_,_], _ | [_,_,_,_,_], _ | [_,_,_,_,_,_], _
      | [_,_,_,_,_,_,_], _ | [_,_,_,_,_,_,_,_], _ | [_,_,_,_,_,_,_,_,_], _ | [_,_,_,_,_,_,_,_,_,_], _ => simp
      | a0::a1::a2::a3::a4::a5::a6::a7::a8::a9::a10::t, h => exact absurd rfl (h a0 a1 a2 a3 a4 a5 a6 a7 a8 a9 a10 t)
    · exact h
#print axioms scan_eq_count
end Pen3
