import itertools
from qrcode import util
AL=set(util.ALPHA_NUM)
def isdig(b): return 48<=b<=57
def isal(b): return b in AL
# hand model of optimal_data_chunks
def split_runs(data, cls, n, anchored):
    out=[]
    if anchored:
        # pattern ^[cls]+$ via re.search: match iff nonempty prefix run covers whole data or all but a final "\n"
        k=0
        while k<len(data) and cls(data[k]): k+=1
        # loop of _optimal_split
        rest=data
        while rest:
            k=0
            while k<len(rest) and cls(rest[k]): k+=1
            ok = k>=1 and (k==len(rest) or (k==len(rest)-1 and rest[k]==0x0A))
            if not ok: break
            out.append((True,rest[:k])); rest=rest[k:]
        if rest: out.append((False,rest))
        return out
    rest=data
    while rest:
        # leftmost run of >= n
        i=0; found=None
        while i<len(rest):
            if cls(rest[i]):
                j=i
                while j<len(rest) and cls(rest[j]): j+=1
                if j-i>=n: found=(i,j); break
                i=j
            else: i+=1
        if not found: break
        i,j=found
        if i: out.append((False,rest[:i]))
        out.append((True,rest[i:j])); rest=rest[j:]
    if rest: out.append((False,rest))
    return out
def model_chunks(data,n):
    anchored = len(data)<=n
    res=[]
    for isnum,ch in split_runs(data,isdig,n,anchored):
        if isnum: res.append((1,ch))
        else:
            for isa,sub in split_runs(ch,isal,n,anchored):
                res.append((2 if isa else 4,sub))
    return res
alpha=[b"7",b"A",b":",b"a",b"\n",b"\xc3"]
bad=0;cnt=0
for L in range(0,7):
    for tup in itertools.product(alpha,repeat=L):
        d=b"".join(tup)
        for n in range(1,6):
            cnt+=1
            got=[(c.mode,c.data) for c in util.optimal_data_chunks(d,minimum=n)]
            exp=model_chunks(d,n)
            if got!=exp:
                bad+=1
                if bad<6: print("DIFF",d,n,got,exp)
print(cnt,"bad",bad)
