import random, qrcode, sys
from qrcode import constants, exceptions, util, base
from reader import read
L={'L':constants.ERROR_CORRECT_L,'M':constants.ERROR_CORRECT_M,'Q':constants.ERROR_CORRECT_Q,'H':constants.ERROR_CORRECT_H}
rng=random.Random(int(sys.argv[1]) if len(sys.argv)>1 else 1)
AL=b"0123456789ABCDEFGHIJKLMNOPQRSTUVWXYZ $%*+-./:"
def payload():
    k=rng.random(); n=rng.choice([0,1,2,3,5,8,13,20,21,40,80,150,300])
    if k<.25: return bytes(rng.choice(b"0123456789") for _ in range(n))
    if k<.5: return bytes(rng.choice(AL) for _ in range(n))
    if k<.75: return bytes(rng.randrange(1,256) for _ in range(n))
    out=b""
    while len(out)<n:
        out+=bytes(rng.choice([b"0123456789",AL,bytes(range(1,256))][rng.randrange(3)]) for _ in range(rng.randint(1,30)))
    return out[:n]
ok=0; errs={}
for t in range(1500):
    p=payload(); lv=rng.choice('LMQH'); ver=rng.choice([None,None,rng.randint(1,40)]); mask=rng.choice([None,rng.randrange(8),rng.randrange(8)]); fit=rng.random()<.7; opt=rng.choice([0,20,4,1,7])
    if len(p)>100 and mask is None and rng.random()<.7: mask=rng.randrange(8)
    q=qrcode.QRCode(version=ver,error_correction=L[lv],mask_pattern=mask); 
    parts=[p] if rng.random()<.6 else [p[:len(p)//2],p[len(p)//2:]]
    for x in parts: q.add_data(x,optimize=opt)
    try: q.make(fit=fit)
    except exceptions.DataOverflowError: errs['overflow']=errs.get('overflow',0)+1; continue
    except Exception as e: errs[type(e).__name__]=errs.get(type(e).__name__,0)+1; continue
    try:
        v,l,m,out,segs=read(q.modules)
        assert out==p,("payload",p,out); assert l==lv; assert v==q.version; assert mask is None or m==mask
        if ver is not None: assert v>=ver and (fit or v==ver)
        ok+=1
    except AssertionError as e:
        print("FAIL",dict(p=p[:40],lv=lv,ver=ver,mask=mask,fit=fit,opt=opt),e.args[:1]); errs['fail']=errs.get('fail',0)+1
print("ok",ok,errs)
