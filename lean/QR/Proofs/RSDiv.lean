import QR.Proofs.GF256
/-
Reed-Solomon division in the model (`Polynomial.__mod__`, `polyMod`) against the specification field:
the remainder agrees with the dividend at every root of a monic divisor.
-/
namespace QR.Proofs
open QR QR.Spec

/-- all entries are bytes -/
def Bytes (l : List Nat) : Prop := ∀ c ∈ l, c < 256

theorem Bytes.nil : Bytes [] := by intro c h; cases h
theorem Bytes.cons {a : Nat} {l : List Nat} (ha : a < 256) (hl : Bytes l) : Bytes (a :: l) := by
  intro c h
  rcases List.mem_cons.mp h with rfl | h
  · exact ha
  · exact hl c h
theorem Bytes.head {a : Nat} {l : List Nat} (h : Bytes (a :: l)) : a < 256 := h a (List.mem_cons_self ..)
theorem Bytes.tail {a : Nat} {l : List Nat} (h : Bytes (a :: l)) : Bytes l :=
  fun c hc => h c (List.mem_cons_of_mem _ hc)
theorem Bytes.append {l m : List Nat} (hl : Bytes l) (hm : Bytes m) : Bytes (l ++ m) := by
  intro c h
  rcases List.mem_append.mp h with h | h
  · exact hl c h
  · exact hm c h
theorem Bytes.replicate_zero (n : Nat) : Bytes (List.replicate n 0) := by
  intro c h
  rw [(List.mem_replicate.mp h).2]; omega

/-! ### Horner evaluation with an explicit accumulator -/

/-- `Spec.peval` started from an arbitrary accumulator -/
def pevalAcc (r acc : Nat) (p : List Nat) : Nat := p.foldl (fun acc a => gfmul acc r ^^^ a) acc

theorem peval_eq (r : Nat) (p : List Nat) : peval r p = pevalAcc r 0 p := rfl

@[simp] theorem pevalAcc_nil (r acc : Nat) : pevalAcc r acc [] = acc := rfl
@[simp] theorem pevalAcc_cons (r acc a : Nat) (p : List Nat) :
    pevalAcc r acc (a :: p) = pevalAcc r (gfmul acc r ^^^ a) p := rfl
theorem pevalAcc_append (r acc : Nat) (p q : List Nat) :
    pevalAcc r acc (p ++ q) = pevalAcc r (pevalAcc r acc p) q := by
  simp [pevalAcc, List.foldl_append]

theorem pevalAcc_lt {r acc : Nat} {p : List Nat} (hacc : acc < 256) (hp : Bytes p) : pevalAcc r acc p < 256 := by
  induction p generalizing acc with
  | nil => simpa using hacc
  | cons a p ih =>
    rw [pevalAcc_cons]
    exact ih (xor_lt_256 (gfmul_lt _ hacc) hp.head) hp.tail

theorem peval_lt {r : Nat} {p : List Nat} (hp : Bytes p) : peval r p < 256 :=
  pevalAcc_lt (by omega) hp

/-- leading zeros do not change the value -/
theorem pevalAcc_zero_cons_zero (r : Nat) (p : List Nat) : pevalAcc r 0 (0 :: p) = pevalAcc r 0 p := by
  simp

theorem pevalAcc_zero_replicate_append (r n : Nat) (p : List Nat) :
    pevalAcc r 0 (List.replicate n 0 ++ p) = pevalAcc r 0 p := by
  induction n with
  | zero => simp
  | succ n ih => rw [List.replicate_succ, List.cons_append, pevalAcc_zero_cons_zero, ih]

/-- xor-linearity of Horner evaluation in the accumulator -/
theorem pevalAcc_xor {r a b : Nat} {p : List Nat} (hr : r < 256) (ha : a < 256) (hb : b < 256) (hp : Bytes p) :
    pevalAcc r (a ^^^ b) p = pevalAcc r a p ^^^ pevalAcc r b (List.replicate p.length 0) := by
  induction p generalizing a b with
  | nil => simp
  | cons c p ih =>
    simp only [pevalAcc_cons, List.length_cons, List.replicate_succ]
    rw [← ih (xor_lt_256 (gfmul_lt _ ha) hp.head) (xor_lt_256 (gfmul_lt _ hb) (by omega)) hp.tail]
    congr 1
    rw [gfmul_xor_left ha hb hr, Nat.xor_zero]
    ac_rfl

/-! ### `stripZ` (leading-zero stripping of `Polynomial.__init__`) -/

theorem stripZ_sublist (l : List Nat) : ∀ c ∈ Model.stripZ l, c ∈ l := by
  fun_induction Model.stripZ l with
  | case1 => simp
  | case2 a => simp
  | case3 a b t h => simp
  | case4 a b t h ih =>
    intro c hc
    exact List.mem_cons_of_mem _ (ih c hc)

theorem stripZ_bytes {l : List Nat} (h : Bytes l) : Bytes (Model.stripZ l) :=
  fun c hc => h c (stripZ_sublist l c hc)

theorem stripZ_length_le (l : List Nat) : (Model.stripZ l).length ≤ l.length := by
  fun_induction Model.stripZ l with
  | case1 => simp
  | case2 a => simp
  | case3 a b t h => simp
  | case4 a b t h ih => simp only [List.length_cons] at ih ⊢; omega

theorem stripZ_ne_nil {l : List Nat} (h : l ≠ []) : Model.stripZ l ≠ [] := by
  fun_induction Model.stripZ l with
  | case1 => exact absurd rfl h
  | case2 a => simp
  | case3 a b t h => simp
  | case4 a b t h ih => exact ih (by simp)

theorem stripZ_head_zero {l : List Nat} (h : (Model.stripZ l).head? = some 0) : Model.stripZ l = [0] := by
  fun_induction Model.stripZ l with
  | case1 => simp at h
  | case2 a => simpa using h
  | case3 a b t h' => simp at h; exact absurd h h'
  | case4 a b t h' ih => exact ih h

theorem stripZ_cons_ne_zero {a : Nat} (t : List Nat) (h : a ≠ 0) : Model.stripZ (a :: t) = a :: t := by
  cases t with
  | nil => rfl
  | cons b t => simp [Model.stripZ, h]

theorem pevalAcc_stripZ (r : Nat) (l : List Nat) : pevalAcc r 0 (Model.stripZ l) = pevalAcc r 0 l := by
  fun_induction Model.stripZ l with
  | case1 => rfl
  | case2 a => rfl
  | case3 a b t h => rfl
  | case4 a b t h ih =>
    have : a = 0 := by simpa using h
    subst this
    rw [ih, pevalAcc_zero_cons_zero]

theorem peval_stripZ (r : Nat) (l : List Nat) : peval r (Model.stripZ l) = peval r l := pevalAcc_stripZ r l

/-! ### one elimination step -/

/-- `self - s·other·x^k` on coefficient lists (`other` aligned at the front): what one pass of `__mod__` builds -/
def subMul (s : Nat) : List Nat → List Nat → List Nat
  | x :: xs, y :: ys => (x ^^^ gfmul y s) :: subMul s xs ys
  | xs, [] => xs
  | [], _ :: _ => []

theorem subMul_length (s : Nat) (xs ys : List Nat) : (subMul s xs ys).length = xs.length := by
  fun_induction subMul s xs ys <;> simp_all

theorem subMul_bytes {s : Nat} {xs ys : List Nat} (hx : Bytes xs) (hy : Bytes ys) : Bytes (subMul s xs ys) := by
  fun_induction subMul s xs ys with
  | case1 x xs y ys ih => exact Bytes.cons (xor_lt_256 hx.head (gfmul_lt _ hy.head)) (ih hx.tail hy.tail)
  | case2 xs => exact hx
  | case3 => exact Bytes.nil

/-- the elimination step does not change the value at a root of the divisor (accumulator form) -/
theorem pevalAcc_subMul {r s : Nat} (hr : r < 256) (hs : s < 256) :
    ∀ (ys xs : List Nat) (a1 a2 : Nat), a1 < 256 → a2 < 256 → Bytes xs → Bytes ys → ys.length ≤ xs.length →
      pevalAcc r a2 ys = 0 →
      pevalAcc r (a1 ^^^ gfmul a2 s) (subMul s xs ys) = pevalAcc r a1 xs := by
  intro ys
  induction ys with
  | nil =>
    intro xs a1 a2 _ _ _ _ _ h0
    have : a2 = 0 := by simpa using h0
    subst this
    cases xs <;> simp [subMul]
  | cons y ys ih =>
    intro xs a1 a2 h1 h2 hx hy hlen h0
    cases xs with
    | nil => simp at hlen
    | cons x xs =>
      simp only [List.length_cons, Nat.add_le_add_iff_right] at hlen
      simp only [subMul, pevalAcc_cons] at h0 ⊢
      have h1' : gfmul a1 r ^^^ x < 256 := xor_lt_256 (gfmul_lt _ h1) hx.head
      have h2' : gfmul a2 r ^^^ y < 256 := xor_lt_256 (gfmul_lt _ h2) hy.head
      rw [← ih xs _ _ h1' h2' hx.tail hy.tail hlen h0]
      congr 1
      rw [gfmul_xor_left h1 (gfmul_lt _ h2) hr, gfmul_xor_left (gfmul_lt _ h2) hy.head hs,
        gfmul_right_comm h2 hs hr]
      ac_rfl

theorem peval_subMul {r s : Nat} {xs ys : List Nat} (hr : r < 256) (hs : s < 256) (hx : Bytes xs) (hy : Bytes ys)
    (hlen : ys.length ≤ xs.length) (hroot : peval r ys = 0) : peval r (subMul s xs ys) = peval r xs := by
  have := pevalAcc_subMul hr hs ys xs 0 0 (by omega) (by omega) hx hy hlen hroot
  simpa [peval_eq] using this

/-! ### the model's `modStep` is `subMul` -/

/-- non-zero bytes (what `glog` accepts) -/
def NzBytes (l : List Nat) : Prop := ∀ c ∈ l, 1 ≤ c ∧ c < 256

theorem NzBytes.bytes {l : List Nat} (h : NzBytes l) : Bytes l := fun c hc => (h c hc).2

theorem modStep_ok {s : Nat} (hs1 : 1 ≤ s) (hs : s < 256) :
    ∀ (xs ys : List Nat), NzBytes ys →
      Model.modStep ((lg s : Int) - (lg 1 : Int)) xs ys = .ok (List.zipWith (fun x y => x ^^^ gfmul y s) xs ys) := by
  intro xs
  induction xs with
  | nil => intro ys _; cases ys <;> simp [Model.modStep]
  | cons x xs ih =>
    intro ys hy
    cases ys with
    | nil => simp [Model.modStep]
    | cons y ys =>
      have hy0 := hy y (List.mem_cons_self ..)
      have hyt : NzBytes ys := fun c hc => hy c (List.mem_cons_of_mem _ hc)
      simp only [Model.modStep, glog_eq hy0.1 hy0.2, R.bind_ok, gexp_modStep hy0.1 hy0.2 hs1 hs, ih ys hyt,
        R.pure_eq, List.zipWith_cons_cons]

theorem zipWith_append_drop (s : Nat) :
    ∀ (ys xs : List Nat), ys.length ≤ xs.length →
      List.zipWith (fun x y => x ^^^ gfmul y s) xs ys ++ xs.drop ys.length = subMul s xs ys := by
  intro ys
  induction ys with
  | nil => intro xs _; cases xs <;> simp [subMul]
  | cons y ys ih =>
    intro xs hlen
    cases xs with
    | nil => simp at hlen
    | cons x xs =>
      simp only [List.length_cons, Nat.add_le_add_iff_right] at hlen
      simp [subMul, ih xs hlen]

/-! ### (c) the division invariant for `polyMod` -/

/-- `Polynomial.__mod__` by a monic divisor `g = 1 :: gt` (`gt ≠ []`, no zero coefficient, bytes) on a byte list `self`
    with enough fuel: it returns a byte list `r` that agrees with `self` at every root of `g`; `r` is shorter than `g`,
    except when `self` starts with a zero (D1 fix: it is then returned unchanged). -/
theorem polyMod_spec {gt : List Nat} (hgt : gt ≠ []) (hg : NzBytes (1 :: gt)) :
    ∀ (fuel : Nat) (self : List Nat), self.length < fuel → Bytes self →
      ∃ r, Model.polyMod fuel self (1 :: gt) = .ok r ∧ Bytes r ∧
        (∀ x, x < 256 → peval x (1 :: gt) = 0 → peval x r = peval x self) ∧
        (r.length < (1 :: gt).length ∨ (r = self ∧ self.head? = some 0)) := by
  intro fuel
  induction fuel with
  | zero => intro self h; omega
  | succ fuel ih =>
    intro self hfuel hself
    rw [Model.polyMod]
    by_cases hlt : self.length < (1 :: gt).length
    · rw [if_pos hlt]
      exact ⟨self, rfl, hself, fun _ _ _ => rfl, Or.inl hlt⟩
    rw [if_neg hlt]
    have hgl : 2 ≤ (1 :: gt).length := by
      cases gt with
      | nil => exact absurd rfl hgt
      | cons b t => simp
    cases self with
    | nil => simp only [List.length_nil, List.length_cons] at hlt hgl; omega
    | cons s0 st =>
    simp only [idx, List.getElem?_cons_zero, R.bind_ok]
    by_cases hs0 : s0 = 0
    · rw [if_pos hs0]
      exact ⟨s0 :: st, rfl, hself, fun _ _ _ => rfl, Or.inr ⟨rfl, by simp [hs0]⟩⟩
    rw [if_neg hs0]
    have hs1 : 1 ≤ s0 := by omega
    have hs : s0 < 256 := hself.head
    have hlen : (1 :: gt).length ≤ (s0 :: st).length := by omega
    rw [glog_eq hs1 hs, R.bind_ok, glog_eq (by omega) (by omega), R.bind_ok, modStep_ok hs1 hs _ _ hg, R.bind_ok,
      zipWith_append_drop s0 _ _ hlen]
    -- the new numerator: same length, leading coefficient cancelled
    have hnb : Bytes (subMul s0 (s0 :: st) (1 :: gt)) := subMul_bytes hself hg.bytes
    have hnl : (subMul s0 (s0 :: st) (1 :: gt)).length = (s0 :: st).length := subMul_length ..
    obtain ⟨b, t, hst⟩ : ∃ b t, st = b :: t := by
      cases st with
      | nil => simp only [List.length_nil, List.length_cons] at hlen hgl; omega
      | cons b t => exact ⟨b, t, rfl⟩
    obtain ⟨c, u, hgt'⟩ : ∃ c u, gt = c :: u := by
      cases gt with
      | nil => exact absurd rfl hgt
      | cons c u => exact ⟨c, u, rfl⟩
    have hnum : subMul s0 (s0 :: st) (1 :: gt) = 0 :: subMul s0 st gt := by
      simp [subMul, one_gfmul hs]
    have hstrip : Model.stripZ (subMul s0 (s0 :: st) (1 :: gt)) = Model.stripZ (subMul s0 st gt) := by
      rw [hnum, hst, hgt']
      simp [subMul, Model.stripZ]
    have hpl : (Model.stripZ (subMul s0 (s0 :: st) (1 :: gt))).length < fuel := by
      rw [hstrip]
      have := stripZ_length_le (subMul s0 st gt)
      rw [subMul_length] at this
      simp only [List.length_cons] at hfuel
      omega
    have hne : subMul s0 (s0 :: st) (1 :: gt) ≠ [] := by rw [hnum]; simp
    have hmk : Model.polyMk (subMul s0 (s0 :: st) (1 :: gt)) 0 = .ok (Model.stripZ (subMul s0 (s0 :: st) (1 :: gt))) := by
      simp [Model.polyMk, hne]
    rw [hmk, R.bind_ok]
    obtain ⟨r, hr, hrb, hrv, hrl⟩ := ih _ hpl (stripZ_bytes hnb)
    refine ⟨r, hr, hrb, ?_, Or.inl ?_⟩
    · intro x hx hroot
      rw [hrv x hx hroot, peval_stripZ, peval_subMul hx hs hself hg.bytes hlen hroot]
    · rcases hrl with h | ⟨h1, h2⟩
      · exact h
      · rw [h1, stripZ_head_zero h2]
        simp only [List.length_nil, List.length_cons] at hgl ⊢; omega

/-- (c) in the vocabulary of the Python class: `g` monic (head 1), at least two coefficients, all non-zero bytes;
    `p` any non-empty byte list, `p'` the constructed `Polynomial(p, shift).num`; any fuel above `len(p')`.
    `__mod__` succeeds with a byte list `r` that agrees with `p'` at every root `x` (a byte) of `g`, and either
    `r` is shorter than `g` or (D1 fix) `p'` is the zero polynomial, returned unchanged. -/
theorem polyMod_polyMk_spec {g p p' : List Nat} {shift fuel : Nat}
    (hhead : g.head? = some 1) (hlen : 2 ≤ g.length) (hg : NzBytes g)
    (hp : Bytes p) (hmk : Model.polyMk p shift = .ok p') (hfuel : p'.length < fuel) :
    ∃ r, Model.polyMod fuel p' g = .ok r ∧ Bytes r ∧
      (∀ x, x < 256 → peval x g = 0 → peval x r = peval x p') ∧
      (r.length < g.length ∨ (r = p' ∧ ∀ c ∈ r, c = 0)) := by
  obtain ⟨gt, rfl⟩ : ∃ gt, g = 1 :: gt := by
    cases g with
    | nil => simp at hhead
    | cons a t => simp at hhead; exact ⟨t, by rw [hhead]⟩
  have hgt : gt ≠ [] := by
    intro h; subst h; simp at hlen
  have hp'eq : p' = Model.stripZ p ++ List.replicate shift 0 := by
    unfold Model.polyMk at hmk
    split at hmk
    · cases hmk
    · exact (Except.ok.inj hmk).symm
  have hpne : p ≠ [] := by
    intro h; subst h; simp [Model.polyMk] at hmk
  have hp'b : Bytes p' := by
    rw [hp'eq]; exact (stripZ_bytes hp).append (Bytes.replicate_zero _)
  obtain ⟨r, hr, hrb, hrv, hrl⟩ := polyMod_spec hgt hg fuel p' hfuel hp'b
  refine ⟨r, hr, hrb, hrv, ?_⟩
  rcases hrl with h | ⟨h1, h2⟩
  · exact Or.inl h
  · refine Or.inr ⟨h1, ?_⟩
    rw [h1, hp'eq]
    have hsne := stripZ_ne_nil hpne
    have : (Model.stripZ p).head? = some 0 := by
      rw [hp'eq] at h2
      cases hs : Model.stripZ p with
      | nil => exact absurd hs hsne
      | cons a t => rw [hs] at h2; simpa using h2
    rw [stripZ_head_zero this]
    intro c hc
    rcases List.mem_append.mp hc with hc | hc
    · simpa using hc
    · exact (List.mem_replicate.mp hc).2

/-! ### (d) every error-correction block completes its data to a Reed-Solomon codeword -/

/-- the last `e` coefficients of the remainder, zero-extended at the front (the `modIndex` loop of `create_bytes`) -/
def ecExtract (e : Nat) (m : List Nat) : List Nat :=
  (List.range e).map fun (i : Nat) =>
    let modIndex : Int := (i : Int) + ((m.length : Int) - (e : Int))
    if modIndex ≥ 0 then m.getD modIndex.toNat 0 else 0

theorem ecExtract_length (e : Nat) (m : List Nat) : (ecExtract e m).length = e := by simp [ecExtract]

theorem ecExtract_short {e : Nat} {m : List Nat} (h : m.length ≤ e) :
    ecExtract e m = List.replicate (e - m.length) 0 ++ m := by
  apply List.ext_getElem
  · simp only [ecExtract_length, List.length_append, List.length_replicate]; omega
  · intro i h1 h2
    rw [ecExtract_length] at h1
    simp only [ecExtract, List.getElem_map, List.getElem_range, List.getElem_append, List.length_replicate,
      List.getElem_replicate]
    by_cases hi : i < e - m.length
    · rw [dif_pos hi, if_neg (by omega)]
    · rw [dif_neg hi, if_pos (by omega)]
      have hj : ((i : Int) + ((m.length : Int) - (e : Int))).toNat = i - (e - m.length) := by omega
      have hlt : i - (e - m.length) < m.length := by omega
      rw [hj, List.getD_eq_getElem?_getD, List.getElem?_eq_getElem hlt, Option.getD_some]

theorem getD_zeros {m : List Nat} (h : ∀ c ∈ m, c = 0) (k : Nat) : m.getD k 0 = 0 := by
  rw [List.getD_eq_getElem?_getD]
  cases hk : m[k]? with
  | none => rfl
  | some c => exact h c (List.mem_of_getElem? hk)

theorem ecExtract_zeros {e : Nat} {m : List Nat} (h : ∀ c ∈ m, c = 0) : ecExtract e m = List.replicate e 0 := by
  rw [List.eq_replicate_iff]
  refine ⟨ecExtract_length e m, ?_⟩
  intro b hb
  simp only [ecExtract, List.mem_map, List.mem_range] at hb
  obtain ⟨i, _, hi⟩ := hb
  rw [← hi]
  split
  · exact getD_zeros h _
  · rfl

theorem peval_zeros {m : List Nat} (h : ∀ c ∈ m, c = 0) (x : Nat) : peval x m = 0 := by
  have : m = List.replicate m.length 0 := List.eq_replicate_iff.mpr ⟨rfl, h⟩
  rw [this, peval_eq]
  have := pevalAcc_zero_replicate_append x m.length []
  simpa using this

theorem ecExtract_spec {e : Nat} {m : List Nat} (hm : Bytes m) (h : m.length ≤ e ∨ ∀ c ∈ m, c = 0) :
    Bytes (ecExtract e m) ∧ ∀ x, peval x (ecExtract e m) = peval x m := by
  rcases h with h | h
  · rw [ecExtract_short h]
    exact ⟨(Bytes.replicate_zero _).append hm, fun x => pevalAcc_zero_replicate_append x _ m⟩
  · rw [ecExtract_zeros h]
    refine ⟨Bytes.replicate_zero _, fun x => ?_⟩
    rw [peval_zeros h, peval_zeros (fun c hc => (List.mem_replicate.mp hc).2)]

theorem gfpow_lt (a n : Nat) : gfpow a n < 256 := by
  induction n with
  | zero => simp [gfpow]
  | succ n ih => exact gfmul_lt _ ih

/-- data followed by the remainder of `data·x^e` vanishes wherever the remainder agrees with `data·x^e` -/
theorem peval_data_append_ec {x : Nat} {dc ec : List Nat} (hx : x < 256) (hdc : Bytes dc) (hec : Bytes ec)
    (h : peval x ec = peval x (Model.stripZ dc ++ List.replicate ec.length 0)) : peval x (dc ++ ec) = 0 := by
  have hA : pevalAcc x 0 dc < 256 := pevalAcc_lt (by omega) hdc
  have h1 : pevalAcc x (pevalAcc x 0 dc) ec
      = pevalAcc x 0 ec ^^^ pevalAcc x (pevalAcc x 0 dc) (List.replicate ec.length 0) := by
    have := pevalAcc_xor (a := 0) (b := pevalAcc x 0 dc) hx (by omega) hA hec
    rwa [Nat.zero_xor] at this
  rw [peval_eq, pevalAcc_append, h1, ← peval_eq x ec, h, peval_eq, pevalAcc_append, pevalAcc_stripZ, Nat.xor_self]

theorem ecOfBlock_eq (dc : List Nat) (e : Nat) :
    Model.ecOfBlock dc e = (do
      let rsPoly ← Model.rsPolyFor e
      let rawPoly ← Model.polyMk dc (rsPoly.length - 1)
      let modPoly ← Model.polyMod (rawPoly.length + 1) rawPoly rsPoly
      pure (ecExtract e modPoly)) := rfl

/-- **C02 (semantic part)**: for every block shape of ISO Table 9 and EVERY data content (bytes, non-empty; all-zero
    and leading-zero blocks included) `create_bytes` computes, without raising, `e` error-correction bytes that complete
    the data block to a codeword of the ISO Reed-Solomon code (all `e` syndromes vanish). -/
theorem ecOfBlock_codeword (e : Nat) (he : e ∈ Props.eccLengths) (dc : List Nat) (hne : dc ≠ [])
    (hb : ∀ c ∈ dc, c < 256) :
    ∃ ec, Model.ecOfBlock dc e = .ok ec ∧ ec.length = e ∧ (∀ c ∈ ec, c < 256) ∧
      Spec.isCodeword e (dc ++ ec) = true := by
  obtain ⟨hglen, hghead, hgcoef, hgroots⟩ := Props.C02_generator_roots e he
  have he1 : 1 ≤ e := by
    simp only [Props.eccLengths, List.mem_cons, List.not_mem_nil, or_false] at he
    omega
  obtain ⟨gt, hgen⟩ : ∃ gt, generator e = 1 :: gt := by
    cases hg : generator e with
    | nil => rw [hg] at hghead; simp at hghead
    | cons a t => rw [hg] at hghead; simp at hghead; exact ⟨t, by rw [hghead]⟩
  have hgtlen : gt.length = e := by
    rw [hgen] at hglen; simpa using hglen
  have hgt : gt ≠ [] := by
    intro h; rw [h] at hgtlen; simp at hgtlen; omega
  have hgnz : NzBytes (1 :: gt) := by
    intro c hc
    rw [← hgen] at hc
    have := hgcoef c hc
    omega
  -- the generator polynomial used by the model is the ISO one
  have hrs : Model.rsPolyFor e = .ok (1 :: gt) := by
    simp [Model.rsPolyFor, Props.C02_genpoly e he, hgen, Model.polyMk, stripZ_cons_ne_zero]
  have hraw : Model.polyMk dc ((1 :: gt).length - 1) = .ok (Model.stripZ dc ++ List.replicate e 0) := by
    simp [Model.polyMk, hne, hgtlen]
  obtain ⟨r, hr, hrb, hrv, hrl⟩ :=
    polyMod_polyMk_spec (g := 1 :: gt) (fuel := (Model.stripZ dc ++ List.replicate e 0).length + 1)
      rfl (by simp only [List.length_cons]; omega) hgnz hb hraw (by omega)
  refine ⟨ecExtract e r, ?_, ecExtract_length e r, ?_, ?_⟩
  · rw [ecOfBlock_eq, hrs, R.bind_ok, hraw, R.bind_ok, hr, R.bind_ok, R.pure_eq]
  · have hcase : r.length ≤ e ∨ ∀ c ∈ r, c = 0 := by
      rcases hrl with h | h
      · left; simp only [List.length_cons] at h; omega
      · exact Or.inr h.2
    exact (ecExtract_spec hrb hcase).1
  · have hcase : r.length ≤ e ∨ ∀ c ∈ r, c = 0 := by
      rcases hrl with h | h
      · left; simp only [List.length_cons] at h; omega
      · exact Or.inr h.2
    obtain ⟨hecb, hecv⟩ := ecExtract_spec hrb hcase
    simp only [isCodeword, List.all_eq_true, List.mem_range, beq_iff_eq]
    intro i hi
    have hx : gfpow alpha i < 256 := gfpow_lt _ _
    have hroot : peval (gfpow alpha i) (1 :: gt) = 0 := by rw [← hgen]; exact hgroots i hi
    apply peval_data_append_ec hx hb hecb
    rw [hecv, ecExtract_length, hrv _ hx hroot]

end QR.Proofs
