import QR.Gen.Code
import QR.Model.Svg
import QR.Proofs.SourceTieC13
import QR.Proofs.SourceTieB6
import QR.Proofs.SourceTieD4a
/-
Translation validation, package D4, part b: what the SVG factories append where.  `BaseImageWithDrawer.drawrect_context`,
`SvgQRModuleDrawer.drawrect`, `SvgPathQRModuleDrawer.drawrect`, `SvgPathImage.process` / `__init__` as translated statement by
statement from the Python AST (`rd_drawrect_context`, `rd_svg_drawrect`, `rd_svg_path_drawrect`, `rd_svg_path_process`,
`rd_svg_path_init` in QR/Gen/Code.lean), run inside the translated tail of `make_image`, against `Model.svgDoc`.
-/
namespace QR.SourceTieD4
open QR QR.Model QR.Gen.Code QR.SourceTieB

/-! ### (c) which drawer gets which cell, with which `is_active` -/

/-- `BaseImageWithDrawer.drawrect_context(row, col, qr)`: exactly one call `drawer.drawrect(box, is_active)` where `drawer` is
    the eye drawer on the three eyes (`Model.isEye`) and the module drawer elsewhere, `box = Model.pixelBox row col`, and
    `is_active` is the neighbour context iff that drawer `needs_neighbors`, else `bool(qr.modules[row][col])` -/
theorem drawrectContext_src {D A S : Type} (border boxSize width : Nat) (ed md : D) (nn : D → Bool) (awn : Nat → Nat → A)
    (ofBool : Bool → A) (M : Mods) (drawrect : D → rd_Box → A → S → S) (row col : Nat) (im : S) :
    rd_drawrect_context border boxSize width ed md nn awn ofBool M drawrect row col im =
      let d := if isEye width row col then ed else md
      drawrect d (pixelBox border boxSize row col) (if nn d then awn row col else ofBool ((M.getD row []).getD col false)) im := by
  unfold rd_drawrect_context
  simp only [QR.SourceTie.isEye_eq]
  rfl

/-- the Python class of a model drawer -/
def drawerClass (isPath : Bool) : SvgDrawerKind → String
  | .square => if isPath then "SvgPathSquareDrawer" else "SvgSquareDrawer"
  | .circle => if isPath then "SvgPathCircleDrawer" else "SvgCircleDrawer"

/-- `needs_neighbors` of a model drawer, from the table generated from the class bodies -/
def needsNeighbors (isPath : Bool) (d : SvgDrawer) : Bool :=
  (rd_svg_drawer_needs_neighbors.lookup (drawerClass isPath d.kind)).getD true

/-- no SVG drawer asks for the neighbour context; the path drawers inherit `SvgPathQRModuleDrawer.drawrect`, the others
    `SvgQRModuleDrawer.drawrect` -/
theorem svgDrawer_classes_src (isPath : Bool) (d : SvgDrawer) :
    needsNeighbors isPath d = false ∧
    rd_svg_drawer_drawrect_class.lookup (drawerClass isPath d.kind)
      = some (if isPath then "SvgPathQRModuleDrawer" else "SvgQRModuleDrawer") := by
  unfold needsNeighbors
  cases isPath <;> cases d.kind <;> decide

/-- the default drawer of a factory is the square drawer of its family, for modules and for eyes -/
theorem svgDefaultDrawer_src (f : SvgFactory) :
    rd_svg_default_drawer.lookup (factoryName f) = some (drawerClass f.isPath .square) ∧
    rd_get_default_module_drawer = "self.default_drawer_class()" ∧ rd_get_default_eye_drawer = "self.default_drawer_class()" := by
  cases f <;> decide

/-! ### the drawers' `drawrect` -/

/-- `SvgQRModuleDrawer.drawrect(box, is_active)`: inactive -> nothing; active -> `self.el(box)` appended to `self.img._img` -/
theorem svgDrawrect_src (el : rd_Box → rd_Element) (box : rd_Box) (a : Bool) (img : rd_SvgImg) :
    rd_svg_drawrect el id box a img = if a then { img with img := img.img ++ [el box] } else img := by
  unfold rd_svg_drawrect
  cases a <;> rfl

/-- `SvgPathQRModuleDrawer.drawrect(box, is_active)`: inactive -> nothing; active -> `self.subpath(box)` appended to
    `self.img._subpaths` -/
theorem svgPathDrawrect_src (sub : rd_Box → String) (box : rd_Box) (a : Bool) (img : rd_SvgImg) :
    rd_svg_path_drawrect sub id box a img = if a then { img with subpaths := img.subpaths ++ [sub box] } else img := by
  unfold rd_svg_path_drawrect
  cases a <;> rfl

/-- `ActiveWithNeighbors.__bool__` is the centre flag -/
theorem activeWithNeighbors_bool_literal : rd_active_with_neighbors_bool = "self.me" := by decide

/-- `SvgPathImage.process()`: one `<path>` element whose `d` is the concatenation of the accumulated subpaths (in order), with
    `id="qr-path"` and the `QR_PATH_STYLE` attributes after it; it is stored in `self.path`, `_subpaths` is emptied, and the
    element is appended to the document -/
theorem svgPathProcess_src (self : rd_SvgImg) :
    rd_svg_path_process self =
      let p : rd_Element :=
        { tag := "path"
          attrs := [("d", "".intercalate self.subpaths), ("id", "qr-path"), ("fill", "#000000"), ("fill-opacity", "1"),
                    ("fill-rule", "nonzero"), ("stroke", "none")] }
      { img := self.img ++ [p], subpaths := [], path := some p } := rfl

/-- `SvgPathImage.__init__`: `_subpaths` starts empty before anything else runs -/
theorem svgPathInit_src (superInit : rd_SvgImg → rd_SvgImg) (self : rd_SvgImg) :
    rd_svg_path_init superInit self = superInit { self with subpaths := [] } := rfl

/-! ### (b) the whole document -/

/-- how the bridge reads a model drawer as the Python drawer object handed to `drawrect_context`: its `el` / `subpath` produce
    (any rendering of) the Model's shape for the pixel box; the drawer's class decides which `drawrect` runs -/
def svgDrawrect (isPath : Bool) (render : Nat × SvgShape → rd_Element) (renderP : Nat × SvgShape → String) (boxSize : Nat)
    (d : SvgDrawer) (box : rd_Box) (a : Bool) (img : rd_SvgImg) : rd_SvgImg :=
  if isPath then rd_svg_path_drawrect (fun box => renderP (2 * d.den, drawShape true d boxSize box.1.1 box.1.2)) id box a img
  else rd_svg_drawrect (fun box => render (2 * d.den, drawShape false d boxSize box.1.1 box.1.2)) id box a img

/-- append rendered shapes where the factory family collects them -/
def addAll (isPath : Bool) (render : Nat × SvgShape → rd_Element) (renderP : Nat × SvgShape → String)
    (img : rd_SvgImg) (xs : List (Nat × SvgShape)) : rd_SvgImg :=
  if isPath then { img with subpaths := img.subpaths ++ xs.map renderP } else { img with img := img.img ++ xs.map render }

theorem addAll_nil (isPath : Bool) (render) (renderP) (img : rd_SvgImg) : addAll isPath render renderP img [] = img := by
  cases img; cases isPath <;> simp [addAll]

theorem addAll_addAll (isPath : Bool) (render) (renderP) (img : rd_SvgImg) (xs ys : List (Nat × SvgShape)) :
    addAll isPath render renderP (addAll isPath render renderP img xs) ys = addAll isPath render renderP img (xs ++ ys) := by
  cases isPath <;> simp [addAll]

theorem foldl_addAll_filter {β : Type} (isPath : Bool) (render) (renderP) (p : β → Bool) (g : β → Nat × SvgShape) (l : List β)
    (img : rd_SvgImg) :
    l.foldl (fun img c => if p c then addAll isPath render renderP img [g c] else img) img
      = addAll isPath render renderP img (l.filterMap fun c => if p c then some (g c) else none) := by
  induction l generalizing img with
  | nil => simp [addAll_nil]
  | cons a t ih =>
    simp only [List.foldl_cons, ih, List.filterMap_cons]
    cases p a
    · simp
    · simp [addAll_addAll]

theorem foldl_addAll_flat {β : Type} (isPath : Bool) (render) (renderP) (g : β → List (Nat × SvgShape)) (l : List β)
    (img : rd_SvgImg) :
    l.foldl (fun img r => addAll isPath render renderP img (g r)) img = addAll isPath render renderP img (l.flatMap g) := by
  induction l generalizing img with
  | nil => simp [addAll_nil]
  | cons a t ih => simp only [List.foldl_cons, ih, List.flatMap_cons, addAll_addAll]

theorem flags_svg (f : SvgFactory) : flagsOf (factoryName f) = (true, true, f.isPath) := by
  cases f <;> decide

/-- one cell: the translated `drawrect_context` with the translated drawers appends the rendering of the Model's shape for that
    cell (eye drawer on the eyes) if the module is dark, and nothing otherwise -/
theorem svgCell_src (isPath : Bool) (render : Nat × SvgShape → rd_Element) (renderP : Nat × SvgShape → String)
    (md ed : SvgDrawer) (M : Mods) (width border boxSize : Nat) (awn : Nat → Nat → Bool) (r c : Nat) (img : rd_SvgImg) :
    rd_drawrect_context border boxSize width ed md (needsNeighbors isPath) awn id M (svgDrawrect isPath render renderP boxSize) r c img
      = if (M.getD r []).getD c false then
          addAll isPath render renderP img
            [(let d := if isEye width r c then ed else md
              (2 * d.den, drawShape isPath d boxSize ((c + border) * boxSize) ((r + border) * boxSize)))]
        else img := by
  rw [drawrectContext_src]
  simp only [(svgDrawer_classes_src isPath _).1, Bool.false_eq_true, if_false, id]
  unfold svgDrawrect addAll
  cases isPath
  · simp only [Bool.false_eq_true, if_false, svgDrawrect_src]; rfl
  · simp only [if_true, svgPathDrawrect_src]; rfl

/-- (b) `make_image` with an SVG factory `f` (class flags read from the class bodies), module drawer `md`, eye drawer `ed`: the
    translated loop, `drawrect_context`, drawers' `drawrect` and `process` leave the image object in the state described by
    `Model.svgDoc`: for the element factories the shapes of `svgDoc` are appended to the document in the Model's order (inactive
    modules append nothing); for the path factories nothing is appended per module, and `process()` appends ONE `<path>` whose
    `d` is the concatenation, in the Model's (row-major) order, of the subpaths of the dark modules, followed by `id` and the
    style attributes.  `render` / `renderP` are arbitrary renderings of a shape (`el` / `subpath`, tied by `drawShape_src`);
    `awn` (the neighbour context) and `drawrect` are never used. -/
theorem svgDraw_src (f : SvgFactory) (render : Nat × SvgShape → rd_Element) (renderP : Nat × SvgShape → String)
    (md ed : SvgDrawer) (M : Mods) (width border boxSize : Nat) (awn : Nat → Nat → Bool)
    (drawrect : Nat → Nat → rd_SvgImg → rd_SvgImg) (img : rd_SvgImg) :
    makeImageDraw (factoryName f) width M
        (rd_drawrect_context border boxSize width ed md (needsNeighbors f.isPath) awn id M (svgDrawrect f.isPath render renderP boxSize))
        drawrect rd_svg_path_process img
      = let shapes := (svgDoc f md ed M width border boxSize).shapes
        if f.isPath then
          let p : rd_Element :=
            { tag := "path"
              attrs := [("d", "".intercalate (img.subpaths ++ shapes.map renderP)), ("id", "qr-path"), ("fill", "#000000"),
                        ("fill-opacity", "1"), ("fill-rule", "nonzero"), ("stroke", "none")] }
          { img := img.img ++ [p], subpaths := [], path := some p }
        else { img with img := img.img ++ shapes.map render } := by
  unfold makeImageDraw
  rw [flags_svg, makeImageDraw_src]
  simp only [if_true, svgCell_src]
  have hloop : (List.range width).foldl (fun im r => (List.range width).foldl (fun im c =>
        if (M.getD r []).getD c false then
          addAll f.isPath render renderP im
            [(let d := if isEye width r c then ed else md
              (2 * d.den, drawShape f.isPath d boxSize ((c + border) * boxSize) ((r + border) * boxSize)))]
        else im) im) img
      = addAll f.isPath render renderP img (svgDoc f md ed M width border boxSize).shapes := by
    unfold svgDoc
    dsimp only
    rw [← foldl_addAll_flat]
    congr 1
    funext im r
    rw [foldl_addAll_filter f.isPath render renderP (fun c => (M.getD r []).getD c false)
      (fun c => (let d := if isEye width r c then ed else md
        (2 * d.den, drawShape f.isPath d boxSize ((c + border) * boxSize) ((r + border) * boxSize))))]
  rw [hloop]
  cases h : f.isPath
  · simp [addAll]
  · simp only [if_true, svgPathProcess_src, addAll]

/-- (b) for a freshly constructed path image (`__init__` has emptied `_subpaths`, nothing drawn yet): the single path element's
    `d` attribute is exactly the concatenation of the Model's subpaths in row-major order -/
theorem svgPathD_src (f : SvgFactory) (hf : f.isPath = true) (render : Nat × SvgShape → rd_Element)
    (renderP : Nat × SvgShape → String) (md ed : SvgDrawer) (M : Mods) (width border boxSize : Nat) (awn : Nat → Nat → Bool)
    (drawrect : Nat → Nat → rd_SvgImg → rd_SvgImg) (superInit : rd_SvgImg → rd_SvgImg) (self : rd_SvgImg)
    (hsuper : (superInit { self with subpaths := [] }).subpaths = []) :
    ((makeImageDraw (factoryName f) width M
        (rd_drawrect_context border boxSize width ed md (needsNeighbors f.isPath) awn id M (svgDrawrect f.isPath render renderP boxSize))
        drawrect rd_svg_path_process (rd_svg_path_init superInit self)).path.map fun p => p.attrs.lookup "d")
      = some (some ("".intercalate ((svgDoc f md ed M width border boxSize).shapes.map renderP))) := by
  rw [svgDraw_src, svgPathInit_src]
  simp only [hf, if_true, hsuper, List.nil_append]
  rfl

end QR.SourceTieD4
